"""Block pool of C12: each block touches a distinct piece of module state of the front-end
(DESIGN.md section 5, C12).  Plain instruction text, hexadecimal constants (decimal tags)."""

POOL = [
    # 1 split at stores under -storage; constant folding inside
    ("stores", "PUSH 1 PUSH 0 SSTORE PUSH 2 PUSH 3 ADD PUSH 20 MSTORE DUP1 PUSH 40 MSTORE8 PUSH 0 SLOAD"),
    # 2 simplification rules fire (ADD(X,0), EVAL, ISZERO chain)
    ("rules", "PUSH 0 ADD PUSH 1 PUSH 2 ADD ADD ISZERO ISZERO ISZERO PUSH 1 MUL"),
    # 3 occurrence counters of the rbr translation (timestamp_counter, gas_counter); GAS is a split instruction
    ("counters", "TIMESTAMP GAS TIMESTAMP ADD GAS SWAP1 SUB NUMBER TIMESTAMP"),
    # 4 immutables (assignImmutable_counter / assignImmutable_dict / assignImm_values)
    ("immutable", "PUSHIMMUTABLE 7 DUP2 ASSIGNIMMUTABLE 7 PUSHIMMUTABLE 8 ADD SWAP1 ASSIGNIMMUTABLE 9"),
    # 5 PUSHLIB numbering
    ("pushlib", "PUSHLIB abc PUSHLIB def PUSHLIB abc AND AND PUSHDEPLOYADDRESS PUSHSIZE ADD"),
    # 6 tags and data pushes (push_rebuilt)
    ("tags", "PUSH [tag] 12 PUSH [tag] 34 SWAP1 POP PUSH data a1 PUSH #[$] 0 PUSH [$] 0 ADD ADD"),
    # 7 analysis fails: the front-end raises on a tag that is not decimal
    ("failing", "PUSH [tag] 1f PUSH 1 ADD"),
    # 8 memory with dependencies and a load that can be replaced
    ("memdeps", "PUSH 0 MLOAD PUSH 20 MSTORE PUSH 0 MLOAD PUSH 1 ADD PUSH 0 MSTORE PUSH 20 MLOAD PUSH 20 PUSH 0 KECCAK256"),
    # 9 storage with dependencies
    ("stodeps", "PUSH 0 SLOAD DUP1 PUSH 1 SSTORE PUSH 1 SLOAD ADD PUSH 0 SSTORE PUSH 0 SLOAD"),
    # 10 long block (> 22 instructions, stores in the middle): -partition splits it by numbers
    ("long", "PUSH 1 PUSH 2 ADD PUSH 3 MUL DUP1 PUSH 0 MSTORE PUSH 4 ADD DUP1 PUSH 20 MSTORE PUSH 5 SUB DUP1 PUSH 40 MSTORE "
             "PUSH 6 ADD DUP1 PUSH 60 MSTORE PUSH 7 MUL DUP1 PUSH 80 MSTORE PUSH 8 ADD DUP1 PUSH a0 MSTORE PUSH 9 SUB SWAP1 POP"),
    # 11 split instructions LOG / CALL
    ("logcall", "PUSH 0 PUSH 0 LOG0 PUSH 1 PUSH 2 ADD PUSH 0 PUSH 0 PUSH 0 PUSH 0 PUSH 0 DUP6 GAS CALL SWAP1 POP"),
    # 12 terminal block with pops and a comparison rule
    ("terminal", "DUP1 DUP3 LT ISZERO ISZERO PUSH [tag] 5 JUMPI"),
    # 13 the same commutative expression twice with swapped operands (unified at user-instruction level), then a store
    ("commdup", "DUP1 DUP3 ADD DUP3 DUP3 ADD MSTORE"),
    # 14 a store whose operands are two different computed terms over the same inputs
    ("storeops", "DUP2 DUP2 ADD DUP3 DUP3 MUL SSTORE"),
    # 15 duplicated non-arithmetic commutative terms feeding one instruction, result stored
    ("dupsame", "DUP2 DUP2 AND DUP3 DUP3 AND OR PUSH 0 MSTORE"),
    # 16 two identical hashes (unify_keccak), result used as storage key
    ("keccakdup", "PUSH 20 PUSH 0 KECCAK256 PUSH 20 PUSH 0 KECCAK256 ADD DUP1 SLOAD SWAP1 SSTORE"),
    # 17 byte store inside a word that is loaded afterwards
    ("mstore8", "DUP1 PUSH 1f MSTORE8 PUSH 0 MLOAD DUP2 DUP2 MSTORE"),
    # 18 environment rules (BALANCE(ADDRESS), address mask)
    ("envrules", "ADDRESS BALANCE SELFBALANCE EQ CALLER PUSH ffffffffffffffffffffffffffffffffffffffff AND"),
]

NAMES = [n for n, _ in POOL]
TEXTS = [t for _, t in POOL]
