"""Validation step (V) for specifications: ship (SFS, sub-block) pairs to spec/SFSDenote.tla, which
explores every admissible schedule of the memory/storage/hash operations on every grid state."""
import hashlib
import os
import re

import common
import equiv

PSEUDO = {"PUSH [tag]": "PUSHTAG", "PUSH #[$]": "PUSHSUBSIZE", "PUSH [$]": "PUSHSUB", "PUSH data": "PUSHDATA",
          "PUSHLIB": "PUSHLIB", "PUSHDEPLOYADDRESS": "PUSHDEPLOYADDRESS", "PUSHSIZE": "PUSHSIZE",
          "PUSHIMMUTABLE": "PUSHIMMUTABLE"}
MEMKINDS = {"MLOAD", "SLOAD", "KECCAK256", "SHA3", "MSTORE", "MSTORE8", "SSTORE"}


def derived_word(kind, operand, nbytes=32):
    h = hashlib.sha256(("%s|%s" % (kind, operand)).encode()).digest()
    return list(h[:nbytes])


def elem(x):
    if isinstance(x, bool):
        return "#%x" % int(x)
    if isinstance(x, int):
        return "#%x" % x if x >= 0 else "#neg%x" % (-x)
    return str(x)


def proj_sfs_sem(s):
    """specification with the semantic content SFSDenote needs"""
    cw = {"#0": []}
    ins = []

    def el(x):
        e = elem(x)
        if isinstance(x, int) and not isinstance(x, bool) and x >= 0:
            cw[e] = common.word_bytes(x)
        return e
    for u in s["user_instrs"]:
        d = u["disasm"]
        op = PSEUDO.get(d, d)
        w = []
        val = u.get("value")
        if d in ("PUSH",) and val:
            w = common.word_bytes(int(val[0])) if int(val[0]) >= 0 else [0] * 33
        elif d in PSEUDO:
            w = derived_word(d, str(val[0]) if val else "", 20 if d in ("PUSHLIB", "PUSHDEPLOYADDRESS") else 32)
        ins.append({"id": u["id"], "op": op, "inp": [el(x) for x in u["inpt_sk"]], "out": [el(x) for x in u["outpt_sk"]], "w": w,
                    "comm": bool(u.get("commutative", False)), "sto": bool(u.get("storage", False))})
    return {"src": [el(x) for x in s["src_ws"]], "tgt": [el(x) for x in s["tgt_ws"]], "ins": ins,
            "deps": [[str(a), str(b)] for a, b in s.get("dependencies", [])], "cw": cw,
            "b0": int(s.get("init_progr_len", 0)), "bs": int(s.get("max_sk_sz", 0))}


def sub_programs(orig, sublist):
    """the projected instructions of every sub-block: orig = projected block instructions, sublist = the
    front-end's sub-block list (adjacent sub-blocks share their split instruction)"""
    body = [i for i in orig if i["op"] not in ("tag", "JUMPDEST", "JUMP", "JUMPI", "STOP", "RETURN", "REVERT", "INVALID", "SELFDESTRUCT")]
    lens = [len(s) for s in sublist]
    n = len(sublist)
    out, pos = [], 0
    for k in range(n):
        ln = lens[k] - (1 if k > 0 else 0) - (1 if k < n - 1 else 0)
        ln = max(ln, 0)
        out.append(body[pos:pos + ln])
        pos += ln + (1 if k < n - 1 else 0)
    return out if pos == len(body) else None


def nmemops(ps):
    return sum(1 for i in ps["ins"] if i["op"] in MEMKINDS)


def run_denote(cases, cap, jobs=None, timeout=7200, tag="dn"):
    """cases: [{id, sfs (proj_sfs_sem), prog (projected instrs)}] -> ({id: [[g, clause, extra...]]}, stats)"""
    if not cases:
        return {}, {"states": 0, "transitions": 0, "inits": 0, "jvms": 0, "wall": 0.0}
    jobs = jobs or common.NCPU
    ws = []
    for c in cases:
        d = len(c["sfs"]["src"])
        states = 2 if d == 0 else 2 + 16 + d * 16 + d * (d - 1) + min(25 * d * (d - 1), max(cap - (2 + 16 + d * 16 + d * (d - 1)), 24))
        per = sum(equiv.HEAVY.get(i["op"], 1) for i in c["prog"]) + 3 * len(c["sfs"]["ins"])
        ws.append(states * per * (2 ** min(nmemops(c["sfs"]), 10)))
    shards = common.shard_by_weight(cases, ws, min(len(cases), jobs * 3))
    envs = []
    for i, sh in enumerate(shards):
        p = os.path.join(common.workdir(), "%s_cases_%d.json" % (tag, i))
        common.write_json(p, {"seed": common.seed(), "cases": [{"id": c["id"], "sfs": c["sfs"], "prog": equiv.strip(c["prog"]),
                                                                 "cap": c.get("cap", cap)} for c in sh]})
        envs.append({"CASES": p})
    results = common.run_tlc_shards("SFSDenote", "SFSDenote.cfg", envs, timeout=timeout, heap="3g", jobs=jobs, tag=tag)
    verdicts = {}
    stats = {"states": 0, "transitions": 0, "inits": 0, "jvms": len(results), "wall": 0.0}
    for r in results:
        if not r.ok:
            raise common.MachineryError("SFSDenote TLC run failed:\n" + r.out[-3000:])
        exp = r.tagged("INITS")
        m = re.search(r"Finished computing initial states: (\d+) distinct state", r.out)
        if not exp or not m or int(m.group(1)) != exp[0][1]:
            raise common.MachineryError("SFSDenote did not start from every (case, grid state): %r" % (exp,))
        stats["inits"] += exp[0][1]
        stats["states"] += r.distinct
        stats["transitions"] += r.generated
        stats["wall"] = max(stats["wall"], r.wall)
        for t in r.tagged("VERDICT"):
            lst = verdicts.setdefault(t[1], [])
            if t[2:] not in lst:
                lst.append(t[2:])
    return verdicts, stats


def run_realize(cases, cap, jobs=None, timeout=3600, tag="rz"):
    """spec/SFSRealize.tla: every sequence spec/SFSMachine.tla accepts within the published bounds of the specification is
    executed concretely, step by step, on every grid state, and compared at Goal with the run of the sub-block.
    cases as for run_denote (sfs with sto, b0, bs).  -> ({id: [[g, clause, ...]]}, {id: goals}, stats, finished ids)"""
    if not cases:
        return {}, {}, {"states": 0, "transitions": 0, "inits": 0, "jvms": 0, "wall": 0.0, "timeouts": 0}, set()
    jobs = jobs or common.NCPU
    ws = []
    for c in cases:
        d = max(len(c["sfs"]["src"]), 1)
        ws.append(c.get("pick", 8) * (len(c["sfs"]["ins"]) + 2 * d + 2) ** min(c["sfs"]["b0"], 8))
    shards = common.shard_by_weight(cases, ws, min(len(cases), jobs * 3))
    envs = []
    for i, sh in enumerate(shards):
        p = os.path.join(common.workdir(), "%s_cases_%d.json" % (tag, i))
        common.write_json(p, {"seed": common.seed(), "cases": [{"id": c["id"], "sfs": c["sfs"], "prog": equiv.strip(c["prog"]),
                                                                 "cap": c.get("cap", cap), "pick": c.get("pick", 8), "b0": c["sfs"]["b0"], "bs": c["sfs"]["bs"]} for c in sh]})
        envs.append({"CASES": p})
    results = common.run_tlc_shards("SFSRealize", "SFSRealize.cfg", envs, timeout=timeout, heap="3g", jobs=jobs, tag=tag)
    verdicts, goals, finished = {}, {}, set()
    stats = {"states": 0, "transitions": 0, "inits": 0, "jvms": len(results), "wall": 0.0, "timeouts": 0}
    for r, sh in zip(results, shards):
        stats["states"] += r.distinct
        stats["transitions"] += r.generated
        stats["wall"] = max(stats["wall"], r.wall)
        for t in r.tagged("VERDICT"):
            lst = verdicts.setdefault(t[1], [])
            if t[2:] not in lst:
                lst.append(t[2:])
        for t in r.tagged("GOAL"):
            goals[t[1]] = goals.get(t[1], 0) + 1
        if r.ok:
            exp = r.tagged("INITS")
            m = re.search(r"Finished computing initial states: (\d+) distinct state", r.out)
            if not exp or not m or int(m.group(1)) != exp[0][1]:
                raise common.MachineryError("SFSRealize did not start from every (case, grid state): %r" % (exp,))
            stats["inits"] += exp[0][1]
            finished |= {c["id"] for c in sh}
        elif r.rc == -9:
            stats["timeouts"] += 1      # search budget exceeded: what was found so far still counts, the rest is undecided
        else:
            raise common.MachineryError("SFSRealize TLC run failed:\n" + r.out[-3000:])
    return verdicts, goals, stats, finished


def run_refine(specs, pick=3, jobs=None, timeout=1800, tag="rf"):
    """spec/SFSRefine.tla on hand-built specifications (JSON as the back-ends read it): every sequence SFSMachine accepts within a
    tight bound, executed concretely, must give a result some admissible schedule of the denotation gives.
    -> ({id: [[g, clause, ...]]}, {id: goal states}, stats, finished ids)"""
    cases = []
    for i, js in enumerate(specs):
        ps = proj_sfs_sem(js)
        n, d = len(ps["ins"]), len(ps["src"])
        cases.append({"id": i + 1, "sfs": ps, "depth": d, "b0": n + 4, "bs": min(d + n + 1, 5), "pick": pick})
    if not cases:
        return {}, {}, {"states": 0, "transitions": 0, "jvms": 0, "wall": 0.0, "timeouts": 0}, set()
    jobs = jobs or common.NCPU
    ws = [(len(c["sfs"]["ins"]) + 2 * c["depth"] + 2) ** c["b0"] for c in cases]
    shards = common.shard_by_weight(cases, ws, min(len(cases), jobs))
    envs = []
    for i, sh in enumerate(shards):
        p = os.path.join(common.workdir(), "%s_cases_%d.json" % (tag, i))
        common.write_json(p, {"seed": common.seed(), "cases": sh})
        envs.append({"CASES": p})
    results = common.run_tlc_shards("SFSRefine", "SFSRefine.cfg", envs, timeout=timeout, heap="3g", jobs=jobs, tag=tag)
    verdicts, goals, finished = {}, {}, set()
    stats = {"states": 0, "transitions": 0, "jvms": len(results), "wall": 0.0, "timeouts": 0, "ambiguous_denotations": 0}
    for r, sh in zip(results, shards):
        stats["states"] += r.distinct
        stats["transitions"] += r.generated
        stats["wall"] = max(stats["wall"], r.wall)
        for t in r.tagged("VERDICT"):
            lst = verdicts.setdefault(t[1], [])
            if t[2:] not in lst:
                lst.append(t[2:])
        stats["unordered"] = stats.get("unordered", 0) + len({t[1] for t in r.tagged("UNORDERED")})
        amb = set()
        for t in r.tagged("GOAL"):
            goals[t[1]] = goals.get(t[1], 0) + 1
            if t[3] > 1:
                amb.add(t[1])
        stats["ambiguous_denotations"] += len(amb)
        if r.ok:
            finished |= {c["id"] for c in sh}
        elif r.rc == -9:
            stats["timeouts"] += 1
        else:
            raise common.MachineryError("SFSRefine TLC run failed:\n" + r.out[-3000:])
    return verdicts, goals, stats, finished


def classify(vlist):
    """completion mismatches are violations; 'unordered' alone (two operations enabled together that do not
    commute on an intermediate state, while every schedule still ends in the block's final state) is a diagnostic"""
    bad = [v for v in vlist if not str(v[1]).startswith("undecided") and v[1] != "unordered"]
    if bad:
        return ("violates", bad[0][1], bad[0][0], len(bad), bad[0][2:])
    und = [v for v in vlist if str(v[1]).startswith("undecided")]
    if und:
        return ("undecided", und[0][1], und[0][0], len(und))
    if vlist:
        return ("diagnostic", vlist[0][1], vlist[0][0], len(vlist), vlist[0][2:])
    return ("ok",)
