"""Additional worker commands (imported by worker.py inside the worker process)."""
from copy import deepcopy

W = {}


def bind(g):
    W.update(g)


def cmd_sfs_greedy(cmd):
    """front-end + greedy back-end on every sub-block specification of every block of the input"""
    from greedy.block_generation import greedy_from_json
    gasol_asm, params = W["gasol_asm"], W["params"]
    out = []
    for blk in W["blocks_from"](cmd):
        r = {"name": blk.block_name, "plain": blk.to_plain(), "subs": []}
        try:
            if blk.instructions_to_optimize_plain() == []:
                out.append(r)
                continue
            d, sublist = gasol_asm.compute_original_sfs_with_simplifications(blk, params)
        except BaseException as e:
            r["stage"], r["exc"] = "sfs", W["exc_info"](e)
            out.append(r)
            continue
        r["sublist"] = sublist
        for name, sfs in d["syrup_contract"].items():
            rec = {"name": name, "sfs": deepcopy(sfs)}
            try:
                _j, _e, res, resids, error = greedy_from_json(deepcopy(sfs))
                rec["ids"] = list(resids) if resids is not None else None
                rec["error"] = int(error)
            except BaseException as e:
                rec["exc"] = W["exc_info"](e)
            r["subs"].append(rec)
        out.append(r)
    return {"blocks": out}


COMMANDS = {"sfs_greedy": cmd_sfs_greedy}
