"""Additional worker commands (imported by worker.py inside the worker process)."""
from copy import deepcopy

W = {}


def bind(g):
    W.update(g)


def cmd_sfs_greedy(cmd):
    """front-end + greedy back-end on every sub-block specification of every block of the input"""
    from greedy.block_generation import greedy_from_json
    gasol_asm, params = W["gasol_asm"], W["params"]
    out = []
    for blk in W["blocks_from"](cmd):
        r = {"name": blk.block_name, "plain": blk.to_plain(), "subs": []}
        try:
            if blk.instructions_to_optimize_plain() == []:
                out.append(r)
                continue
            d, sublist = gasol_asm.compute_original_sfs_with_simplifications(blk, params)
        except BaseException as e:
            r["stage"], r["exc"] = "sfs", W["exc_info"](e)
            out.append(r)
            continue
        r["sublist"] = sublist
        for name, sfs in d["syrup_contract"].items():
            rec = {"name": name, "sfs": deepcopy(sfs)}
            try:
                _j, _e, res, resids, error = greedy_from_json(deepcopy(sfs))
                rec["ids"] = list(resids) if resids is not None else None
                rec["error"] = int(error)
            except BaseException as e:
                rec["exc"] = W["exc_info"](e)
            r["subs"].append(rec)
        out.append(r)
    return {"blocks": out}


def cmd_opt_sfs(cmd):
    """the -sfs input mode: gasol_asm.optimize_block on a dictionary of specifications that may have been written by another run
    (other options); per specification the original block as the tool rebuilds it, the sequence it chose and its own prices"""
    from sfs_generator.asm_block import AsmBlock
    gasol_asm, params = W["gasol_asm"], W["params"]
    out = []
    try:
        sols = gasol_asm.optimize_block(deepcopy(cmd["sfs"]), params)
    except BaseException as e:
        return {"exc": W["exc_info"](e)}
    for original_block, outcome, _t, optimized_asm, tag, _tout, _b, _rules, ids in sols:
        ob = AsmBlock('optimized', original_block.block_id, original_block.block_name, original_block.is_init_block)
        ob.instructions = optimized_asm
        r = {"name": original_block.block_name, "outcome": str(outcome), "ids": list(ids) if ids is not None else None,
             "orig": W["proj_block"](original_block), "opt": W["proj_block"](ob), "plain": original_block.to_plain()}
        try:
            r["costs"] = {"gas": [original_block.gas_spent, ob.gas_spent], "size": [original_block.bytes_required, ob.bytes_required],
                          "length": [original_block.length, ob.length]}
        except BaseException as e:
            r["exc"] = W["exc_info"](e)
        out.append(r)
    return {"blocks": out}


COMMANDS = {"sfs_greedy": cmd_sfs_greedy, "opt_sfs": cmd_opt_sfs}
