"""Worker commands of property C14 (imported by worker.py inside the worker process).

`c14`: for every block of the input run the REAL splitting front-end (both reporters: the one of the
normal pipeline, `gasol_asm.compute_original_sfs_with_simplifications`, and the one of the predictor
path, `ir_block.get_subblocks`) and the REAL `rebuild_optimized_asm_block` with (a) nothing replaced
and (b) each single sub-block k replaced by a marker sequence.  Everything is projected to typed JSON
(ints stay ints, everything else is a string); nothing is judged here."""
from copy import deepcopy

W = {}


def bind(g):
    W.update(g)


def item(bc):
    """AsmBytecode -> record; every field of the assembly item is kept so that `unchanged` means all of it"""
    d = W["proj_instr"](bc)

    def s(x):
        return "" if x is None else str(x)

    def n(x):
        try:
            return int(x)
        except Exception:
            return -2
    return {"op": d["op"], "k": d["k"], "n": str(bc.disasm), "v": s(bc.value), "p": bc.to_plain(), "b": n(bc.begin),
            "e": n(bc.end), "s": n(bc.source), "jt": s(bc.jump_type), "rv": s(bc.real_value),
            "md": -1 if bc.modifier_depth is None else n(bc.modifier_depth)}


def items(block):
    return [item(bc) for bc in block.instructions]


def marker():
    AsmBytecode = W["AsmBytecode"]
    return [AsmBytecode(-1, -1, -1, "PUSH", "dead"), AsmBytecode(-1, -1, -1, "POP", None)]


def rebuilds(blk, sublist, keys):
    """the real reassembly: entry 0 = nothing replaced, entry k (1-based) = only sub-block k replaced"""
    gasol_asm = W["gasol_asm"]
    out = []
    for k in [0] + list(range(1, len(sublist) + 1)):
        mapping = {key: None for key in keys}
        if k > 0:
            mapping[blk.block_name + "_" + str(k - 1)] = marker()
        rec = {"k": k, "exc": "", "out": []}
        try:
            nb = gasol_asm.rebuild_optimized_asm_block(blk, deepcopy(sublist), mapping)
            rec["out"] = items(nb)
        except BaseException as e:
            rec["exc"] = type(e).__name__ + ": " + str(e)[:120]
            rec["tb"] = W["exc_info"](e)["tb"][-600:]
        out.append(rec)
    return out


def cmd_c14(cmd):
    import gen
    import sfs_generator.ir_block as ir_block
    gasol_asm, params = W["gasol_asm"], W["params"]
    res = []
    for blk in W["blocks_from"](cmd):
        r = {"name": blk.block_name, "block": items(blk), "plain": blk.to_plain(), "input": int(blk.source_stack),
             "marker": [item(b) for b in marker()]}
        res.append(r)
        if blk.instructions_to_optimize_plain() == []:
            r["skip"] = "nothing to optimize"          # optimize_asm_block_asm_format returns the block as it is
            continue
        # reporter 1: the front-end of the normal pipeline (inside the `try` of optimize_asm_block_asm_format)
        try:
            d, subs = gasol_asm.compute_original_sfs_with_simplifications(blk, params)
            sfs = deepcopy(d["syrup_contract"])
        except BaseException as e:
            r["stage"], r["exc"] = "frontend", W["exc_info"](e)
            continue
        r["subs"] = [[str(x) for x in sb] for sb in subs]
        r["keys"] = [{"key": str(key), "src": len(s["src_ws"]), "tgt": len(s["tgt_ws"]),
                      "orig": gen.tokens(s.get("original_instrs", ""))} for key, s in sfs.items()]
        # reporter 2: the predictor path
        try:
            data = {"instructions": blk.instructions_to_optimize_plain(), "input": blk.source_stack}
            subs2 = ir_block.get_subblocks(data, storage=params.split_storage, part=params.split_partition)
            r["subs2"] = [[str(x) for x in sb] for sb in subs2]
        except BaseException as e:
            r["subs2"] = None
            r["exc2"] = W["exc_info"](e)
        r["rb"] = rebuilds(blk, r["subs"], list(sfs.keys()))
        if r["subs2"] is not None and r["subs2"] != r["subs"]:
            r["rb2"] = rebuilds(blk, r["subs2"], [])
    return {"blocks": res}


COMMANDS = {"c14": cmd_c14}
