"""Shared plumbing of the verification harness: paths, the TLC runner with sharding and
verdict parsing, evidence files, known findings.  Standard library only."""
import concurrent.futures as cf
import hashlib
import json
import os
import re
import shutil
import subprocess
import sys
import tempfile
import time

VERIF = os.path.dirname(os.path.dirname(os.path.abspath(__file__)))
SPEC = os.path.join(VERIF, "spec")
REPO = os.environ.get("VERIF_REPO", "/repo")
VENV_PY = "/venv/bin/python"
TLA_CP = "/opt/veriftools/tla/tla2tools.jar:/opt/veriftools/tla/CommunityModules-deps.jar"
NCPU = int(os.environ.get("VERIF_JOBS", str(os.cpu_count() or 4)))


def seed():
    try:
        return int(os.environ.get("VERIF_SEED", "0"))
    except ValueError:
        return 0


_work = None


def workdir():
    """Fresh scratch directory for this run (under $VERIF_WORK or /verif/.work), removed by cleanup()."""
    global _work
    if _work is None:
        base = os.environ.get("VERIF_WORK", os.path.join(VERIF, ".work"))
        os.makedirs(base, exist_ok=True)
        _work = tempfile.mkdtemp(prefix="run_", dir=base)
    return _work


def cleanup():
    global _work
    if _work and os.environ.get("VERIF_KEEP") != "1":
        shutil.rmtree(_work, ignore_errors=True)
    _work = None


class MachineryError(Exception):
    """The checking machinery itself failed (exit code 2); never a property violation."""


# --------------------------------------------------------------------------------------------
# TLC

def _split_top(s):
    """Split the inside of a TLA+ tuple at top-level commas."""
    out, depth, cur, instr = [], 0, [], False
    i = 0
    while i < len(s):
        ch = s[i]
        if instr:
            cur.append(ch)
            if ch == '\\':
                cur.append(s[i + 1]); i += 1
            elif ch == '"':
                instr = False
        elif ch == '"':
            instr = True; cur.append(ch)
        elif ch in "<[({":
            depth += 1; cur.append(ch)
        elif ch in ">])}":
            depth -= 1; cur.append(ch)
        elif ch == ',' and depth == 0:
            out.append(''.join(cur).strip()); cur = []
        else:
            cur.append(ch)
        i += 1
    if ''.join(cur).strip():
        out.append(''.join(cur).strip())
    return out


def parse_tla_value(s):
    """Parse the TLA+ values TLC prints for our verdict tuples: ints, strings, tuples (nested), TRUE/FALSE."""
    s = s.strip()
    if s.startswith('<<') and s.endswith('>>'):
        inner = s[2:-2].strip()
        return [parse_tla_value(x) for x in _split_top(inner)] if inner else []
    if s.startswith('"') and s.endswith('"'):
        return s[1:-1]
    if s in ("TRUE", "FALSE"):
        return s == "TRUE"
    if re.fullmatch(r"-?\d+", s):
        return int(s)
    return s


class TLCResult:
    def __init__(self):
        self.tuples = []        # parsed PrintT tuples (lists)
        self.generated = 0
        self.distinct = 0
        self.ok = False         # "Model checking completed. No error has been found."
        self.out = ""
        self.rc = None
        self.wall = 0.0

    def tagged(self, tag):
        return [t for t in self.tuples if t and t[0] == tag]


def run_tlc(module, cfg, env=None, workers=1, timeout=3600, heap="2g", extra=(), tag="tlc"):
    """Run TLC on spec/<module>.tla with spec/<cfg>; returns TLCResult.  Output of PrintT tuples that
    span several lines is reassembled by bracket matching."""
    meta = tempfile.mkdtemp(prefix=tag + "_", dir=workdir())
    cmd = ["java", "-Xss256m", "-Xmx" + heap, "-XX:+UseParallelGC", "-cp", TLA_CP, "tlc2.TLC",
           "-workers", str(workers), "-metadir", meta, "-noGenerateSpecTE", "-config", cfg] + list(extra) + [module + ".tla"]
    e = dict(os.environ)
    e.update(env or {})
    t0 = time.time()
    r = TLCResult()
    try:
        p = subprocess.run(cmd, cwd=SPEC, env=e, stdout=subprocess.PIPE, stderr=subprocess.STDOUT, timeout=timeout, text=True)
        r.out, r.rc = p.stdout, p.returncode
    except subprocess.TimeoutExpired as ex:
        r.out = (ex.stdout or b"").decode("utf8", "replace") if isinstance(ex.stdout, bytes) else (ex.stdout or "")
        r.rc = -9
    r.wall = time.time() - t0
    shutil.rmtree(meta, ignore_errors=True)
    # reassemble tuples
    buf, depth = None, 0
    for line in r.out.splitlines():
        if buf is None:
            if line.startswith("<<"):
                buf, depth = "", 0
            else:
                continue
        buf += line.strip()
        depth += line.count("<<") - line.count(">>")
        if depth <= 0:
            try:
                r.tuples.append(parse_tla_value(buf))
            except Exception:
                pass
            buf = None
    m = re.search(r"(\d+) states generated, (\d+) distinct states found", r.out)
    if m:
        r.generated, r.distinct = int(m.group(1)), int(m.group(2))
    r.ok = "Model checking completed. No error has been found." in r.out and r.rc == 0
    return r


def run_tlc_shards(module, cfg, shard_envs, timeout=3600, heap="2g", jobs=None, tag="tlc"):
    """Run one single-worker TLC JVM per element of shard_envs (a list of env dicts), NCPU at a time."""
    jobs = jobs or NCPU
    with cf.ThreadPoolExecutor(max_workers=jobs) as ex:
        futs = [ex.submit(run_tlc, module, cfg, env, 1, timeout, heap, (), "%s%d" % (tag, i))
                for i, env in enumerate(shard_envs)]
        return [f.result() for f in futs]


def shard(items, n):
    """Split items into at most n contiguous, roughly equal, non-empty chunks."""
    items = list(items)
    n = max(1, min(n, len(items)))
    k, m = divmod(len(items), n)
    out, i = [], 0
    for j in range(n):
        sz = k + (1 if j < m else 0)
        out.append(items[i:i + sz]); i += sz
    return [c for c in out if c]


def shard_by_weight(items, weights, n):
    """Greedy balanced partition into at most n shards by weight (keeps all items)."""
    n = max(1, min(n, len(items)))
    bins = [[] for _ in range(n)]
    tot = [0] * n
    for it, w in sorted(zip(items, weights), key=lambda x: -x[1]):
        j = tot.index(min(tot))
        bins[j].append(it); tot[j] += w
    return [b for b in bins if b]


def write_json(path, obj):
    with open(path, "w") as f:
        json.dump(obj, f)
    return path


# --------------------------------------------------------------------------------------------
# words and instructions (projection of implementation objects to the typed JSON TLC reads)

def word_bytes(n):
    """little-endian bytes of a non-negative int, trailing zeros trimmed (0 -> [])."""
    out = []
    while n:
        out.append(n & 255)
        n >>= 8
    return out


def stable_hash(obj):
    return hashlib.sha256(json.dumps(obj, sort_keys=True).encode()).hexdigest()[:16]


# --------------------------------------------------------------------------------------------
# known findings

def load_known():
    p = os.path.join(VERIF, "known_findings.json")
    if not os.path.exists(p):
        return {"findings": [], "fixed": []}
    with open(p) as f:
        return json.load(f)


# --------------------------------------------------------------------------------------------
# evidence

def write_evidence(prop, tier, level, coverage, wall, violations, assumptions):
    ev = {"property_id": prop, "tier": tier, "seed": seed(), "level": level, "coverage": coverage,
          "assumptions": assumptions, "wall_s": round(wall, 2), "violations": violations}
    # runs against another tree ($VERIF_REPO, used to evaluate seeded changes) must not overwrite the evidence of /repo
    evdir = os.path.join(VERIF, "evidence") if os.path.realpath(REPO) == "/repo" else os.path.join(os.environ.get("VERIF_WORK", "/tmp"), "evidence_other_tree")
    os.makedirs(evdir, exist_ok=True)
    with open(os.path.join(evdir, prop + ".json"), "w") as f:
        json.dump(ev, f, indent=1, sort_keys=True)
    return ev


def replay_file():
    """replay mode (bin/check Cxx --replay <path> for the block-driven checks): the corpus is the recorded case only"""
    return os.environ.get("VERIF_REPLAY_FILE")


def replay_blocks():
    """the block texts a replay file names (the case's block, sub-block, or the pair the checker compared)"""
    with open(replay_file()) as f:
        case = json.load(f).get("case", {})
    out = []
    for k in ("block", "orig", "a", "base", "sub_block", "sub"):
        v = case.get(k)
        if isinstance(v, str) and v.strip() and v.strip() not in out:
            out.append(v.strip())
    return out


def save_replay(prop, name, obj):
    d = os.path.join(VERIF, "replays")
    os.makedirs(d, exist_ok=True)
    p = os.path.join(d, "%s_%s.json" % (prop, name))
    with open(p, "w") as f:
        json.dump(obj, f, indent=1)
    return p
