"""C10/C11 support: projection of a recorded whole-document run (worker command `c10`) to a case of
spec/PipelineTrace.tla and the TLC batch run.  Re-typing only; every verdict is TLC's."""
import os

import common
import pipedoc

EVENT_FIELDS = {"SpecGen": ("subs",), "Search": ("outcome",), "Rebuild": ("replaced", "same_as_input"),
                "Compare": ("res", "same_as_input"), "Emit": ("is_old", "same_as_input", "same_as_cand", "items"),
                "WriteLog": ("keys",)}
BASE = ("e", "b", "k", "ctx", "ok", "n", "exc")


def proj_event(ev):
    out = {f: ev[f] for f in BASE}
    for f in EVENT_FIELDS.get(ev["e"], ()):
        out[f] = ev[f]
    return out


def file_blocks(doc):
    """blocks of a document as canonical strings (independent JSON reader)"""
    return [pipedoc.block_key(b) for _, _, b in pipedoc.doc_blocks(doc)] if doc else []


def emitted_key(items_json):
    """the Emit event carries json.dumps(AsmBytecode.to_json list, sort_keys): same canonical form as block_key"""
    return items_json


def make_case(cid, res, doc, ff_doc=None, known=True):
    fault = res.get("fault") or {"b": 0, "stage": "none", "sticky": False}
    return {"id": cid, "mode": res["mode"], "nb": len(res["names"]), "sec": res["sec"], "nopt": res["nopt"],
            "known": bool(known), "fault": {"b": int(fault["b"]), "stage": str(fault["stage"]), "sticky": bool(fault["sticky"])},
            "events": [proj_event(e) for e in res["events"]], "file": bool(res["file"]),
            "inp": list(res["inblocks"]), "out": file_blocks(res.get("out_doc")) if res["file"] else [],
            "ff": file_blocks(ff_doc) if ff_doc else []}


def run_traces(cases, jobs=None, timeout=3600, tag="ptrace"):
    """-> (verdicts {id: [pos, clause, ...]}, ends {id: [pc, fault blocks, fault stages, actions]}, stats)"""
    stats = {"states": 0, "transitions": 0, "consumed": 0, "jvms": 0, "wall": 0.0}
    if not cases:
        return {}, {}, stats
    jobs = jobs or min(common.NCPU, 4)
    weights = [len(c["events"]) + 5 for c in cases]
    shards = common.shard_by_weight(cases, weights, min(len(cases), jobs))
    envs = []
    for i, sh in enumerate(shards):
        p = os.path.join(common.workdir(), "%s_cases_%d.json" % (tag, i))
        common.write_json(p, {"cases": sh})
        envs.append({"CASES": p})
    results = common.run_tlc_shards("PipelineTrace", "PipelineTrace.cfg", envs, timeout=timeout, jobs=jobs, tag=tag)
    verdicts, ends = {}, {}
    for r, sh in zip(results, shards):
        cons = r.tagged("CONSUMED")
        if not r.ok or not cons or cons[0][1] != cons[0][2] or cons[0][2] != len(sh):
            raise common.MachineryError("PipelineTrace TLC run failed:\n" + r.out[-3000:])
        stats["consumed"] += cons[0][1]
        stats["states"] += r.distinct
        stats["transitions"] += r.generated
        stats["jvms"] += 1
        stats["wall"] = max(stats["wall"], r.wall)
        for t in r.tagged("VERDICT"):
            verdicts[t[1]] = t[2:]
        for t in r.tagged("END"):
            ends[t[1]] = t[2:]
    return verdicts, ends, stats
