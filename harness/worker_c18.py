"""Worker commands for C18 (imported by worker.py inside the worker process).

`c18_batch` performs the REAL calls of smt_encoding.constraints.connector_factory for a batch of
construction scripts (spec/FormulaGen.tla) and projects what it sees to the uniform node form of
spec/Formula.tla.  It decides nothing: exceptions, results, rendered text and the answers of `==`
are recorded as observations."""
import json
import traceback

OPS = {"and": ("and", "add_and"), "or": ("or", "add_or"), "not": ("not", "add_not"), "imp": ("=>", "add_implies"),
       "eq": ("=", "add_eq"), "lt": ("<", "add_lt"), "le": ("<=", "add_leq"), "dis": ("distinct", "add_distinct")}
INT32 = 1 << 31


def node(k, n="", i=0, a=()):
    return {"k": k, "n": n, "i": i, "a": list(a)}


NONE = node("none")


def project(x):
    """implementation object -> node [k, n, i, a] (spec/Formula.tla)"""
    from smt_encoding.constraints.connector import Connector
    from smt_encoding.constraints.function import ExpressionReference, Sort
    if type(x) == bool:
        return node("bool", i=1 if x else 0)
    if type(x) == int:
        return node("int", i=x) if -INT32 < x < INT32 else node("none", n="bigint")
    if type(x) == ExpressionReference:
        s = x.type
        args = [project(y) for y in x.arguments]
        if not args:
            return node("bvar" if s == Sort.boolean else "ivar" if s == Sort.integer else "none", n=str(x.func))
        return node("iapp" if s == Sort.integer else "none", n=str(x.func), a=args)
    if type(x) == Connector:
        return node(x.connector_name, a=[project(y) for y in x.arguments])
    return node("none", n=type(x).__name__)


def leaves():
    """fresh leaf objects for one script"""
    from smt_encoding.constraints.function import Const, Function, Sort
    a = Const("a", Sort.integer)
    f = Function("f", Sort.integer, Sort.integer)
    return {"p": Const("p", Sort.boolean), "q": Const("q", Sort.boolean), "a": a, "b": Const("b", Sort.integer),
            "0": 0, "1": 1, "2": 2, "3": 3, "true": True, "false": False, "fa": f(a)}


def exc_text(e):
    return "%s: %s" % (type(e).__name__, str(e)[:120])


def compare(x, y):
    """the answers of the three structural equalities of the interface for (x, y)"""
    from smt_encoding.constraints.assertions import AssertHard, AssertSoft
    out = {"eq": False, "hard": False, "soft": False, "exc": ""}
    try:
        out["eq"] = bool(x == y)
        out["hard"] = bool(AssertHard(x) == AssertHard(y))
        out["soft"] = bool(AssertSoft(x, 2, "g") == AssertSoft(y, 2, "g"))
    except BaseException as e:
        out["exc"] = exc_text(e)
    return out


def run_script(script, fac, translate):
    env = leaves()
    steps, objs = [], []
    for k, (op, args) in enumerate(script, 1):
        conn, fname = OPS[op]
        actual = [env[t] for t in args]
        rec = {"conn": conn, "args": list(args), "call": node(conn, a=[project(x) for x in actual]),
               "exc": "", "result": NONE, "text": ""}
        try:
            r = getattr(fac, fname)(*actual)
        except BaseException as e:
            rec["exc"] = exc_text(e)
            rec["tb"] = traceback.format_exc()[-600:]
            steps.append(rec)
            break
        rec["result"] = project(r)
        try:
            rec["text"] = translate(r)
        except BaseException as e:
            rec["text_exc"] = exc_text(e)
        env["r%d" % k] = r
        objs.append(r)
        steps.append(rec)
    return steps, objs


def compare2(x, y):
    """both orders of the unordered pair {x, y}: the answer recorded is `x == y or y == x` for each of the equalities"""
    c, d = compare(x, y), compare(y, x)
    return {"eq": c["eq"] or d["eq"], "hard": c["hard"] or d["hard"], "soft": c["soft"] or d["soft"], "exc": c["exc"] or d["exc"]}


def cmd_c18_batch(cmd):
    """scripts: [[ [op, [arg, ...]], ... ], ...];  pool: max number of distinct results compared across scripts;
    crosscap: max number of equal cross-script pairs reported (an evenly strided sample when there are more)"""
    import smt_encoding.constraints.connector_factory as fac
    from smt_encoding.solver.solver_from_executable import translate_formula
    out = []
    pool, seen = [], set()
    cap, crosscap = cmd.get("pool", 0), cmd.get("crosscap", 1 << 30)
    compared = 0
    for script in cmd["scripts"]:
        steps, objs = run_script(script, fac, translate_formula)
        eqs = []
        for i in range(len(objs)):
            for j in range(i + 1, len(objs)):
                compared += 2
                c = compare2(objs[i], objs[j])
                if c["eq"] or c["hard"] or c["soft"] or c["exc"]:
                    c.update({"i": i + 1, "j": j + 1})
                    eqs.append(c)
        out.append({"steps": steps, "eqs": eqs})
        for o, s in zip(objs, steps):
            key = json.dumps(s["result"], sort_keys=True)
            if len(pool) < cap and key not in seen:
                seen.add(key)
                pool.append((o, s["result"]))
    cross = []
    for i, (x, ax) in enumerate(pool):
        for j in range(i + 1, len(pool)):
            y, ay = pool[j]
            compared += 2
            c = compare2(x, y)
            if c["eq"] or c["hard"] or c["soft"] or c["exc"]:
                c.update({"x": ax, "y": ay})
                cross.append(c)
    total = len(cross)
    if total > crosscap:
        cross = [cross[(k * total) // crosscap] for k in range(crosscap)]
    return {"scripts": out, "cross": cross, "cross_equal": total, "compared": compared, "pool": len(pool)}


def cmd_c18_probe(cmd):
    """which objects of the repository are in use (evidence)"""
    import smt_encoding.constraints.connector_factory as fac
    return {"file": fac.__file__}


COMMANDS = {"c18_batch": cmd_c18_batch, "c18_probe": cmd_c18_probe}
