"""Validation step (V) for observational equivalence: ship (orig, opt) pairs to spec/EVMEquiv.tla."""
import os

import common

HEAVY = {"EXP": 300, "DIV": 25, "SDIV": 25, "MOD": 25, "SMOD": 25, "ADDMOD": 30, "MULMOD": 40, "MUL": 3}


def strip(instrs):
    """only what the TLA+ EVM executes"""
    return [{"op": i["op"], "k": i["k"], "w": i["w"]} for i in instrs]


def depth_of(instrs):
    need = cur = 0
    for i in instrs:
        op = i["op"]
        if op == "DUP":
            p, q = i["k"], i["k"] + 1
        elif op == "SWAP":
            p, q = i["k"] + 1, i["k"] + 1
        else:
            import gen
            try:
                p, q = gen.arity(i["name"] if "name" in i else op)
            except Exception:
                p, q = (0, 1) if op.startswith("PUSH") else (0, 0)
        if p > cur:
            need += p - cur
            cur = q
        else:
            cur += q - p
    return need


def weight(case, cap):
    d = depth_of(case["orig"])
    nv = 16 + 4
    states = 2 if d == 0 else 2 + nv + d * nv + d * (d - 1) + min(25 * d * (d - 1), max(cap - (2 + nv + d * nv + d * (d - 1)), 24))
    per = sum(HEAVY.get(i["op"], 1) for i in case["orig"] + case["opt"])
    return states * per


def run_equiv(cases, cap, jobs=None, timeout=7200, tag="eq", depthcheck=True):
    """cases: list of {id, orig, opt} (projected instruction lists).  Returns (verdicts, stats):
    verdicts[id] = list of [grid index, clause] for every non-ok grid state."""
    if not cases:
        return {}, {"states": 0, "transitions": 0, "evaluated": 0, "expected": 0, "jvms": 0, "wall": 0.0}
    jobs = jobs or common.NCPU
    stripped = [{"id": c["id"], "orig": strip(c["orig"]), "opt": strip(c["opt"])} for c in cases]
    ws = [weight(c, cap) for c in cases]
    # more shards than cores so that one slow shard does not dominate
    nshards = min(len(stripped), jobs * 3)
    shards = common.shard_by_weight(stripped, ws, nshards)
    envs = []
    for i, sh in enumerate(shards):
        p = os.path.join(common.workdir(), "%s_cases_%d.json" % (tag, i))
        common.write_json(p, {"cap": cap, "seed": common.seed(), "depthcheck": bool(depthcheck), "cases": sh})
        envs.append({"CASES": p})
    results = common.run_tlc_shards("EVMEquiv", "EVMEquiv.cfg", envs, timeout=timeout, jobs=jobs, tag=tag)
    verdicts = {}
    stats = {"states": 0, "transitions": 0, "evaluated": 0, "expected": 0, "jvms": len(results), "wall": 0.0}
    for r in results:
        if not r.ok:
            raise common.MachineryError("EVMEquiv TLC run failed:\n" + r.out[-3000:])
        ev = r.tagged("EVALUATED")
        if not ev or ev[0][1] != ev[0][2]:
            raise common.MachineryError("EVMEquiv did not evaluate every grid state: %r" % (ev,))
        stats["evaluated"] += ev[0][1]
        stats["expected"] += ev[0][2]
        stats["states"] += r.distinct
        stats["transitions"] += r.generated
        stats["wall"] = max(stats["wall"], r.wall)
        for t in r.tagged("VERDICT"):
            verdicts.setdefault(t[1], []).append([t[2], t[3]])
    return verdicts, stats


def classify(vlist):
    """summarize the per-grid-state verdicts of one case: ('violates', clause, g) | ('undecided', why) | ('ok',)"""
    bad = [v for v in vlist if not v[1].startswith("undecided")]
    if bad:
        return ("violates", bad[0][1], bad[0][0], len(bad))
    if vlist:
        return ("undecided", vlist[0][1], vlist[0][0], len(vlist))
    return ("ok",)


# --------------------------------------------------------------------------------------------
# independent projection of assembly JSON items (as read from an input or an emitted file) to the EVM.tla form

PSEUDO = {"PUSH [tag]": "PUSHTAG", "PUSH #[$]": "PUSHSUBSIZE", "PUSH [$]": "PUSHSUB", "PUSH data": "PUSHDATA",
          "PUSHLIB": "PUSHLIB", "PUSHDEPLOYADDRESS": "PUSHDEPLOYADDRESS", "PUSHSIZE": "PUSHSIZE",
          "PUSHIMMUTABLE": "PUSHIMMUTABLE"}


def _derived(kind, value, nbytes):
    import hashlib
    if value is None:
        canon = ""
    else:
        try:
            canon = str(int(str(value), 10 if kind == "PUSH [tag]" else 16))
        except ValueError:
            canon = str(value)
    return list(hashlib.sha256(("%s|%s" % (kind, canon)).encode()).digest()[:nbytes])


def item_to_instr(it):
    n = it["name"]
    v = it.get("value")
    out = {"op": n, "k": 0, "w": [], "name": n, "value": "" if v is None else str(v)}
    if n == "PUSH":
        try:
            out["w"] = common.word_bytes(int(str(v), 16))
        except Exception:
            out["op"] = "BADPUSH"
    elif n in PSEUDO:
        out["op"] = PSEUDO[n]
        # a library is identified by its name in a file (the tool's internal per-block index is not visible here)
        out["w"] = _derived(n, v, 20 if n in ("PUSHLIB", "PUSHDEPLOYADDRESS") else 32)
    elif n == "ASSIGNIMMUTABLE":
        out["w"] = _derived(n, v, 32)
    elif n.startswith("DUP") and n[3:].isdigit():
        out["op"], out["k"] = "DUP", int(n[3:])
    elif n.startswith("SWAP") and n[4:].isdigit():
        out["op"], out["k"] = "SWAP", int(n[4:])
    return out
