"""Generation step (G) of property C14: vocabularies handed to spec/SeqGen.tla and the wrappers the harness
puts around the TLC-enumerated bodies (leading `tag 1 JUMPDEST`, trailing JUMP / JUMPI / STOP ...)."""
import gen
from gen import frag

# ---------------------------------------------------------------------------------------------
# small blocks: every sequence over single instructions; classes S (always a split instruction),
# T (store: a split instruction under -storage, an allowed cut under -partition), O (other)
SMALL = [("PUSH 1", "O"), ("ADD", "O"), ("POP", "O"), ("DUP1", "O"), ("SWAP1", "O"), ("MLOAD", "O"), ("SLOAD", "O"),
         ("MSTORE", "T"), ("SSTORE", "T"), ("LOG1", "S"), ("CALLDATACOPY", "S"), ("GAS", "S")]
# a few more spellings, only used in the sampled longer shapes
EXTRA = [("PUSH 0", "O"), ("PUSH 10", "O"), ("PUSH [tag] 1", "O"), ("PUSHIMMUTABLE 7", "O"), ("DUP2", "O"), ("MSTORE8", "T"),
         ("ASSIGNIMMUTABLE 7", "S"), ("LOG0", "S"), ("STATICCALL", "S"), ("PUSH 0 PUSH 0 PUSH 0 CREATE", "S")]


def small_vocab(extra=False):
    return [frag(t, c) for t, c in SMALL + (EXTRA if extra else [])]


def stars(n):
    return ["*"] * n


# shapes that force the corner cases whatever the sampling: consecutive splits, split first / last
CORNER_SHAPES = [["S", "S"], ["S", "S", "S"], ["S", "*", "S"], ["S", "T", "S"], ["T", "T", "*"], ["*", "S", "S", "*"],
                 ["S", "*", "*", "S"], ["*", "T", "S", "*"], ["*", "S", "T", "*"], ["T", "S", "T", "S"]]

# ---------------------------------------------------------------------------------------------
# long blocks around the 22-instruction threshold of -partition.  A body is a sequence of chunks:
# Fb / Fs are filler runs (0,5,..,25 and 0..4 instructions: every offset 0..29 is one Fb + one Fs),
# T a single store, S a single split instruction.  TLC enumerates the chunk sequences; the harness keeps
# those whose instruction count is in the window.
FILL = ["PUSH 1", "DUP1", "PUSH 2", "ADD", "SWAP1"]


def filler(n, phase=0):
    return " ".join(FILL[(i + phase) % len(FILL)] for i in range(n))


def long_vocab():
    v = [frag(filler(n), "Fb") for n in (0, 5, 10, 15, 20, 25)]
    v += [frag(filler(n, 2), "Fs") for n in (0, 1, 2, 3, 4)]
    v += [frag("MSTORE", "T"), frag("SSTORE", "T"), frag("MSTORE8", "T")]
    v += [frag("GAS", "S"), frag("LOG1", "S")]
    return v


LONG_ONE = [["Fb", "Fs", "T", "Fb", "Fs"]]                                   # one store at every offset
LONG_TWO = [["Fb", "Fs", "T", "Fb", "Fs", "T", "Fb", "Fs"]]                  # two stores
LONG_MIX = [["Fb", "Fs", "T", "Fb", "Fs", "S", "Fb", "Fs", "T", "Fs"],        # store, split, store
            ["Fb", "Fs", "S", "Fb", "Fs", "T", "Fb", "Fs"],                  # split, then a long tail with a store
            ["Fb", "T", "T", "Fb", "Fs", "T", "T", "Fs"]]                    # adjacent stores


def length(text):
    return len(gen.tokens(text))


# ---------------------------------------------------------------------------------------------
# wrappers and assembly items

WRAPS = [("", ""), ("tag 1 JUMPDEST", ""), ("", "JUMP"), ("tag 1 JUMPDEST", "JUMPI"), ("", "STOP"), ("tag 1 JUMPDEST", "JUMP"),
         ("", "RETURN"), ("JUMPDEST", "REVERT"), ("", "INVALID"), ("tag 1 JUMPDEST", "SELFDESTRUCT")]


def wrap(body, i):
    pre, post = WRAPS[i % len(WRAPS)]
    return " ".join(x for x in (pre, body, post) if x)


def items_of(text):
    """assembly items (solc JSON form) of a plain text; begin/end are the position of the item so that two
    occurrences of the same instruction are different items"""
    out = []
    for i, t in enumerate(gen.tokens(text)):
        ws = t.split()
        if t.startswith("PUSH [tag]") or t.startswith("PUSH data") or t.startswith("PUSH #[$]") or t.startswith("PUSH [$]"):
            it = {"name": " ".join(ws[:2]), "value": ws[2]}
        elif len(ws) == 2:
            it = {"name": ws[0], "value": ws[1]}
        else:
            it = {"name": ws[0]}
        if it["name"] in ("JUMP", "JUMPI"):
            it["jumpType"] = "[in]" if i % 2 else "[out]"
        it.update({"begin": 100 + i, "end": 101 + i, "source": 0})
        out.append(it)
    return out
