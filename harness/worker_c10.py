"""Worker commands of properties C10 and C11 (imported by worker.py inside the worker process).

`c10`: drive a WHOLE document (json_solc: contracts -> init code + run codes -> blocks) through the real
`gasol_asm.optimize_asm_in_asm_format` (mode "optimize") or the real `gasol_asm.optimize_asm_from_log`
(mode "replay") and record the events of the per-block pipeline.  Observation is attribute rebinding only
(no source hooks): the module globals `compute_original_sfs_with_simplifications`, `search_optimal`,
`block_has_been_optimized`, `rebuild_optimized_asm_block`, `compare_asm_block_asm_format`,
`update_gas_count`, `optimize_asm_block_asm_format` of `gasol_asm` are wrapped for the duration of one
command; every wrapper logs in `finally`, so the error path is recorded too.  The same wrappers inject
faults: the rebound function raises `Injected` for the chosen block and stage
  specgen  - specification generation of the original block (the call inside the `try` of
             optimize_asm_block_asm_format; sticky: every analysis of that original block fails)
  search   - the search of every sub-block of the block fails (raised inside greedy_from_json, i.e. inside
             the containment of greedy_standalone)
  cmpspec  - specification generation of the candidate block inside the comparison
  wrongcand- not a raise: the search answers with the empty id sequence (a candidate that does not
             realize the specification), to exercise the keep-or-revert decision
Nothing is judged here: events are typed JSON (ints stay ints, everything else is a string/bool)."""
import copy
import json
import os

W = {}


def bind(g):
    W.update(g)


class Injected(Exception):
    """the fault injected by the harness"""


PREFIX = "alreadyOptimized_"


def _sub(name):
    """sub-block name '<block>_<k>' -> (block name, k)"""
    head, _, tail = name.rpartition("_")
    try:
        return head, int(tail)
    except ValueError:
        return name, -1


def _items(block):
    return json.dumps([bc.to_json() for bc in block.instructions], sort_keys=True)


def _exc(e):
    return (type(e).__name__ + ": " + str(e))[:160]


def _sections(asm):
    """blocks in processing order: [(section number, AsmBlock)]; a section = the init code of one contract or
    one of its run codes (csv_from_asm_blocks re-compares section by section)"""
    out, sec = [], 0
    for c in asm.contracts:
        if not c.has_asm_field:
            continue
        sec += 1
        out += [(sec, b) for b in c.init_code]
        for ident in c.get_data_ids_with_code():
            sec += 1
            out += [(sec, b) for b in c.get_run_code(ident)]
    return out


def cmd_c10(cmd):
    gasol_asm, parser_asm = W["gasol_asm"], W["parser_asm"]
    import greedy.block_generation as bg
    from smt_encoding.block_optimizer import OptimizeOutcome
    mode = cmd.get("mode", "optimize")
    fault = cmd.get("fault") or {"b": 0, "stage": "none", "sticky": False}
    base = os.path.join(os.getcwd(), "c10_%s_%s" % (cmd.get("id"), mode))
    inp = base + ".json_solc"
    with open(inp, "w") as f:
        json.dump(cmd["doc"], f)
    p = copy.copy(W["params"])
    p.input_file, p.optimized_file = inp, base + "_out.json_solc"
    p.seqs_file, p.blocks_file, p.log_file = base + "_seq.csv", base + "_blk.csv", base + ".log"
    p.generate_log = True
    p.contract = None
    for fn in (p.optimized_file, p.log_file):
        if os.path.exists(fn):
            os.remove(fn)

    secs = _sections(parser_asm.parse_asm(inp))
    names = {b.block_name: i + 1 for i, (_, b) in enumerate(secs)}
    res = {"names": [b.block_name for _, b in secs], "sec": [s for s, _ in secs],
           "inblocks": [_items(b) for _, b in secs], "plain": [b.to_plain() for _, b in secs],
           "nopt": [len(b.instructions_to_optimize_plain()) for _, b in secs], "mode": mode, "fault": fault}
    events = []
    st = {"cmp": 0, "cmpcalls": 0, "search": 0, "cand": {}, "fired": 0}

    def bidx(name):
        if name.startswith(PREFIX):
            name = name[len(PREFIX):]
        return names.get(name, 0)

    def fires(b, stage, first=True):
        """one-shot faults fire at their first opportunity only; sticky ones every time"""
        if fault["stage"] != stage or fault["b"] != b:
            return False
        if fault["sticky"] or first:
            st["fired"] += 1
            return True
        return False

    real = {n: getattr(gasol_asm, n) for n in
            ("compute_original_sfs_with_simplifications", "search_optimal", "block_has_been_optimized",
             "rebuild_optimized_asm_block", "compare_asm_block_asm_format", "update_gas_count",
             "optimize_asm_block_asm_format")}
    real_gfj = bg.greedy_from_json
    seen_cmp = {}

    def w_spec(block, params):
        b = bidx(block.block_name)
        if st["cmp"]:
            ctx = "cmpnew" if st["cmpcalls"] == 0 else "cmpold"
            st["cmpcalls"] += 1
        else:
            ctx = "replay" if mode == "replay" else "opt"
        ev = {"e": "SpecGen", "b": b, "k": 0, "ctx": ctx, "ok": False, "n": 0, "exc": "", "subs": []}
        try:
            if ctx in ("opt", "replay") and fires(b, "specgen"):
                raise Injected("specgen")
            if ctx == "cmpold" and fault["sticky"] and fires(b, "specgen"):
                raise Injected("specgen (sticky)")
            if ctx == "cmpnew" and fires(b, "cmpspec", first=seen_cmp.get(b, 0) <= 1):
                raise Injected("cmpspec")
            r = real["compute_original_sfs_with_simplifications"](block, params)
            ev["ok"], ev["n"] = True, len(r[0]["syrup_contract"])
            ev["subs"] = sorted(_sub(n)[1] + 1 for n in r[0]["syrup_contract"])
            return r
        except BaseException as e:
            ev["exc"] = _exc(e)
            raise
        finally:
            events.append(ev)

    def w_gfj(*a, **kw):
        if st["search"] and fires(st["search"], "search"):
            raise Injected("search")
        return real_gfj(*a, **kw)

    def w_search(sfs_block, params, tout, block_name):
        bn, k = _sub(block_name)
        b = bidx(bn)
        ev = {"e": "Search", "b": b, "k": k + 1, "ctx": "", "ok": False, "n": 0, "exc": "", "outcome": "raise"}
        st["search"] = b
        try:
            r = real["search_optimal"](sfs_block, params, tout, block_name)
            if fires(b, "wrongcand"):
                r = (OptimizeOutcome.non_optimal, r[1], [], r[3])
            ev["outcome"] = r[0].name
            ev["ok"] = r[0] in (OptimizeOutcome.non_optimal, OptimizeOutcome.optimal)
            ev["n"] = len(r[2]) if r[2] is not None else 0
            return r
        except BaseException as e:
            ev["exc"] = _exc(e)
            raise
        finally:
            st["search"] = 0
            events.append(ev)

    def w_decide(original_block, optimized_block, criteria):
        bn, k = _sub(original_block.block_name)
        ev = {"e": "Decide", "b": bidx(bn), "k": k + 1, "ctx": "", "ok": False, "n": 0, "exc": ""}
        try:
            r = real["block_has_been_optimized"](original_block, optimized_block, criteria)
            ev["ok"] = bool(r)
            return r
        except BaseException as e:
            ev["exc"] = _exc(e)
            raise
        finally:
            events.append(ev)

    def w_rebuild(previous_block, sub_block_list, optimize_blocks_by_name):
        b = bidx(previous_block.block_name)
        repl = sorted(_sub(n)[1] + 1 for n, v in optimize_blocks_by_name.items() if v is not None)
        ev = {"e": "Rebuild", "b": b, "k": 0, "ctx": "", "ok": False, "n": len(sub_block_list), "exc": "",
              "replaced": repl, "same_as_input": False}
        try:
            r = real["rebuild_optimized_asm_block"](previous_block, sub_block_list, optimize_blocks_by_name)
            ev["ok"] = True
            ev["same_as_input"] = _items(r) == _items(previous_block)
            return r
        except BaseException as e:
            ev["exc"] = _exc(e)
            raise
        finally:
            events.append(ev)

    def w_opt(block, params):
        b = bidx(block.block_name)
        ev = {"e": "Opt", "b": b, "k": 0, "ctx": "", "ok": False, "n": 0, "exc": ""}
        try:
            r = real["optimize_asm_block_asm_format"](block, params)
            st["cand"][b] = r[0]
            ev["ok"], ev["n"] = True, len(r[1])
            return r
        except BaseException as e:
            ev["exc"] = _exc(e)
            raise
        finally:
            events.append(ev)

    def w_compare(old_block, new_block, params):
        b = bidx(old_block.block_name)
        seen_cmp[b] = seen_cmp.get(b, 0) + 1
        st["cmp"], st["cmpcalls"] = b, 0
        if mode == "replay":
            st["cand"][b] = new_block
        ev = {"e": "Compare", "b": b, "k": 0, "ctx": "", "ok": False, "n": seen_cmp[b], "exc": "", "res": "raise",
              "same_as_input": _items(new_block) == _items(old_block)}
        try:
            eq, reason = real["compare_asm_block_asm_format"](old_block, new_block, params)
            ev["ok"], ev["res"], ev["reason"] = bool(eq), ("eq" if eq else "neq"), str(reason)[:160]
            return eq, reason
        except BaseException as e:
            ev["exc"] = _exc(e)
            raise
        finally:
            st["cmp"] = 0
            events.append(ev)

    def w_emit(old_block, new_block):
        b = bidx(old_block.block_name)
        cand = st["cand"].get(b)
        events.append({"e": "Emit", "b": b, "k": 0, "ctx": "", "ok": True, "n": 0, "exc": "",
                       "is_old": new_block is old_block, "same_as_input": _items(new_block) == _items(old_block),
                       "same_as_cand": cand is not None and _items(new_block) == _items(cand),
                       "items": _items(new_block)})
        return real["update_gas_count"](old_block, new_block)

    wrappers = {"compute_original_sfs_with_simplifications": w_spec, "search_optimal": w_search,
                "block_has_been_optimized": w_decide, "rebuild_optimized_asm_block": w_rebuild,
                "compare_asm_block_asm_format": w_compare, "update_gas_count": w_emit,
                "optimize_asm_block_asm_format": w_opt}
    for n, w in wrappers.items():
        setattr(gasol_asm, n, w)
    bg.greedy_from_json = w_gfj
    gasol_asm.init()
    try:
        if mode == "replay":
            gasol_asm.optimize_asm_from_log(p, cmd["log"])
        else:
            gasol_asm.optimize_asm_in_asm_format(p)
        res["raised"] = ""
    except BaseException as e:
        res["raised"] = _exc(e)
        res["raised_type"] = type(e).__name__
        res["tb"] = W["exc_info"](e)["tb"][-1200:]
        events.append({"e": "Raise", "b": 0, "k": 0, "ctx": "", "ok": False, "n": 0, "exc": _exc(e)})
    finally:
        for n, f in real.items():
            setattr(gasol_asm, n, f)
        bg.greedy_from_json = real_gfj
    res["fired"] = st["fired"]
    # what is on disk afterwards (read with the plain JSON reader, not with the tool's parser)
    res["log"], res["log_written"] = {}, os.path.exists(p.log_file)
    if res["log_written"]:
        with open(p.log_file) as f:
            res["log"] = json.load(f)
    res["file"] = os.path.exists(p.optimized_file)
    res["out_doc"] = None
    if res["file"]:
        with open(p.optimized_file) as f:
            txt = f.read()
        try:
            res["out_doc"] = json.loads(txt)
        except ValueError:
            res["out_doc"] = {"unparsable": txt[:200]}
    if mode == "optimize" and not res["raised"]:
        events.append({"e": "WriteLog", "b": 0, "k": 0, "ctx": "", "ok": res["log_written"], "n": len(res["log"]), "exc": "",
                       "entries": sorted(res["log"].keys()),
                       "keys": sorted([bidx(_sub(n)[0]), _sub(n)[1] + 1] for n in res["log"].keys())})
    if not res["raised"]:
        events.append({"e": "Finish", "b": 0, "k": 0, "ctx": "", "ok": res["file"], "n": 0, "exc": ""})
    res["events"] = events
    if cmd.get("light"):
        # natural single-block runs: only the outcome travels back (where an exception left the pipeline, if any)
        prev = [e for e in events if e["e"] != "Raise"]
        stage = ""
        if res["raised"]:
            last = prev[-1] if prev else None
            stage = "compare" if last and last["e"] == "Compare" and not last["ok"] and last.get("res") == "raise" else \
                "optimize" if last and last["e"] in ("Opt", "Rebuild", "Search", "Decide") else "pipeline"
        res = {"raised": res["raised"], "stage": stage, "file": res["file"], "tb": res.get("tb", ""), "nblocks": len(res["names"]),
               "contained": [e["exc"] for e in events if e["exc"] and e["e"] != "Raise"][:3],
               "changed": any(e["e"] == "Emit" and not e["same_as_input"] for e in events)}
    for fn in (inp, p.optimized_file, p.seqs_file, p.blocks_file, p.log_file):
        try:
            os.remove(fn)
        except OSError:
            pass
    return res


COMMANDS = {"c10": cmd_c10}
