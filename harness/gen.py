"""Generation step (G): vocabularies of instruction fragments and the wrapper that lets TLC
(spec/SeqGen.tla) enumerate or simulate the blocks built from them."""
import json
import os

import common

M256 = (1 << 256) - 1
C9 = [0, 1, 2, 32, 255, (1 << 160) - 1, 1 << 255, M256 - 1, M256]
C5 = [0, 1, 32, 1 << 255, M256]
C3 = [0, 1, M256]

BIN = ["ADD", "MUL", "SUB", "DIV", "SDIV", "MOD", "SMOD", "EXP", "SIGNEXTEND", "LT", "GT", "SLT", "SGT", "EQ",
       "AND", "OR", "XOR", "BYTE", "SHL", "SHR", "SAR"]
UN = ["ISZERO", "NOT"]
TER = ["ADDMOD", "MULMOD"]

ARITY = {"POP": (1, 0), "MLOAD": (1, 1), "MSTORE": (2, 0), "MSTORE8": (2, 0), "SLOAD": (1, 1), "SSTORE": (2, 0),
         "KECCAK256": (2, 1), "ISZERO": (1, 1), "NOT": (1, 1), "ADDMOD": (3, 1), "MULMOD": (3, 1),
         "BALANCE": (1, 1), "CALLDATALOAD": (1, 1), "EXTCODESIZE": (1, 1), "EXTCODEHASH": (1, 1), "BLOCKHASH": (1, 1),
         "LOG0": (2, 0), "LOG1": (3, 0), "LOG2": (4, 0), "LOG3": (5, 0), "LOG4": (6, 0),
         "CALLDATACOPY": (3, 0), "CODECOPY": (3, 0), "RETURNDATACOPY": (3, 0), "EXTCODECOPY": (4, 0),
         "CALL": (7, 1), "STATICCALL": (6, 1), "DELEGATECALL": (6, 1), "CREATE": (3, 1), "CREATE2": (4, 1),
         "ASSIGNIMMUTABLE": (2, 0), "JUMP": (1, 0), "JUMPI": (2, 0), "RETURN": (2, 0), "REVERT": (2, 0),
         "SELFDESTRUCT": (1, 0), "STOP": (0, 0), "INVALID": (0, 0), "JUMPDEST": (0, 0), "tag": (0, 0)}
for _b in BIN:
    ARITY[_b] = (2, 1)
ENV0 = ["ADDRESS", "ORIGIN", "CALLER", "CALLVALUE", "CALLDATASIZE", "CODESIZE", "GASPRICE", "COINBASE", "TIMESTAMP",
        "NUMBER", "GASLIMIT", "CHAINID", "SELFBALANCE", "BASEFEE", "RETURNDATASIZE", "GAS", "PUSHSIZE",
        "PUSHDEPLOYADDRESS", "PUSH0"]
for _e in ENV0:
    ARITY[_e] = (0, 1)


def tokens(text):
    """split plain text into instructions (an instruction = opcode plus its operand words)"""
    ws = text.split()
    out, i = [], 0
    while i < len(ws):
        w = ws[i]
        if w == "PUSH" and i + 1 < len(ws) and ws[i + 1] in ("[tag]", "#[$]", "[$]", "data"):
            out.append(" ".join(ws[i:i + 3])); i += 3
        elif w in ("PUSH", "PUSHLIB", "PUSHIMMUTABLE", "ASSIGNIMMUTABLE", "tag") or (w.startswith("PUSH") and w[4:].isdigit() and w != "PUSH0"):
            out.append(" ".join(ws[i:i + 2])); i += 2
        else:
            out.append(w); i += 1
    return out


def arity(ins):
    op = ins.split()[0]
    if op.startswith("PUSH"):
        return (0, 1)
    if op.startswith("DUP"):
        k = int(op[3:]); return (k, k + 1)
    if op.startswith("SWAP"):
        k = int(op[4:]); return (k + 1, k + 1)
    return ARITY[op]


def effect(text):
    """(needed input depth, items left of the consumed+produced window) of a fragment"""
    need = cur = 0
    for ins in tokens(text):
        p, q = arity(ins)
        if p > cur:
            need += p - cur
            cur = q
        else:
            cur += q - p
    return need, cur


def frag(text, cls):
    p, q = effect(text)
    return {"text": text, "cls": cls, "pop": p, "push": q}


def push(c):
    return "PUSH %x" % c


def rule_vocab(consts):
    """fragments for rule templates: S second-operand loaders, T top loaders, B/U/R operators, K contexts"""
    v = [frag("", "S"), frag("", "T"), frag("DUP1", "T"), frag("SWAP1", "T"), frag("", "T2"), frag("DUP1", "T2"),
         frag("SWAP1", "T2")]
    for c in consts:
        v.append(frag(push(c), "S"))
        v.append(frag(push(c), "T"))
        v.append(frag(push(c), "T2"))
        v.append(frag(push(c) + " SWAP1", "T2"))
    for b in BIN:
        v.append(frag(b, "B")); v.append(frag(b, "O"))
    for u in UN:
        v.append(frag(u, "U")); v.append(frag(u, "O"))
    for t in TER:
        v.append(frag(t, "R"))
    for k in ["", "DUP1 PUSH 0 MSTORE", "DUP2 ADD", "POP"]:
        v.append(frag(k, "K"))
    v.append(frag("DUP1", "D"))
    v.append(frag("SWAP1", "X"))
    return v


RULE_SHAPES_BASIC = [["S", "T", "B"], ["T", "U"], ["S", "S", "T", "R"]]
RULE_SHAPES_CTX = [["S", "T", "B", "K"], ["T", "U", "K"]]
RULE_SHAPES_CHAIN = [["S", "T", "B", "T2", "O"], ["T", "U", "T2", "O"], ["S", "T", "B", "U", "U"], ["T", "U", "U", "U"]]

# a result that is used twice: by both operands of its consumer, or by two different consumers
RULE_SHAPES_SHARED = [["S", "T", "B", "D", "O"], ["T", "U", "D", "O"], ["S", "T", "B", "U", "D", "U", "X", "O"], ["T", "U", "U", "D", "U", "X", "O"]]


def shared_use_blocks(n, seed):
    """rule instances whose result (or the middle value of an operator chain) has two uses"""
    import corpus
    out = []
    for sh in RULE_SHAPES_SHARED:
        b, _ = enumerate_blocks(rule_vocab(C3), [sh], 3)
        out += corpus.sample(b, n, seed)
    return out


MEM_ADDRS = [0, 1, 31, 32, 33, 63, 64]


def mem_vocab(addrs=MEM_ADDRS, small=False):
    v = []
    for a in addrs:
        v += [frag(push(a) + " MLOAD", "*"), frag(push(a) + " MSTORE", "*")]
        if not small:
            v += [frag("DUP1 " + push(a) + " MSTORE", "*"), frag(push(a) + " MSTORE8", "*")]
    v += [frag("MLOAD", "*"), frag("MSTORE", "*"), frag("DUP1 MLOAD", "*"), frag("DUP2 DUP2 MSTORE", "*"),
          frag("MSTORE8", "*"), frag("PUSH 20 PUSH 0 KECCAK256", "*"), frag("PUSH 40 PUSH 0 KECCAK256", "*"),
          frag("PUSH 20 PUSH 20 KECCAK256", "*"), frag("PUSH 2 PUSH 1f KECCAK256", "*"),
          frag("POP", "*"), frag("DUP1", "*"), frag("SWAP1", "*"), frag("ADD", "*"), frag("PUSH 1 ADD", "*")]
    return v


def mem3_vocab(addrs=(0, 0x1f, 0x20, 0x21)):
    """loads, word stores and byte stores at a few constant offsets with distinct stored values: every combination of
    three such accesses is enumerated exhaustively (unaligned overlaps, byte inside a word)"""
    v = []
    for a in addrs:
        v += [frag(push(a) + " MLOAD", "*"), frag("DUP1 " + push(a) + " MSTORE", "*"), frag("DUP2 " + push(a) + " MSTORE8", "*")]
    return v


def sto_vocab():
    v = []
    for k in (0, 1):
        v += [frag(push(k) + " SLOAD", "*"), frag(push(k) + " SSTORE", "*"), frag("DUP1 " + push(k) + " SSTORE", "*")]
    v += [frag("SLOAD", "*"), frag("SSTORE", "*"), frag("DUP1 SLOAD", "*"), frag("DUP2 DUP2 SSTORE", "*"),
          frag("POP", "*"), frag("DUP1", "*"), frag("SWAP1", "*"), frag("ADD", "*"), frag("PUSH 1 ADD", "*"),
          frag("PUSH 0 MLOAD", "*"), frag("PUSH 0 MSTORE", "*")]
    return v


def env_vocab():
    v = [frag(e, "*") for e in ["ADDRESS", "CALLER", "ORIGIN", "COINBASE", "CALLVALUE", "TIMESTAMP", "SELFBALANCE",
                                "CALLDATASIZE", "NUMBER", "CHAINID", "PUSHSIZE", "PUSHDEPLOYADDRESS"]]
    v += [frag("BALANCE", "*"), frag("CALLDATALOAD", "*"), frag("EXTCODESIZE", "*"), frag("ADDRESS BALANCE", "*"),
          frag(push((1 << 160) - 1) + " AND", "*"), frag("AND", "*"), frag("EQ", "*"), frag("ISZERO", "*"),
          frag("POP", "*"), frag("DUP1", "*"), frag("SWAP1", "*"), frag("SUB", "*"), frag("PUSH [tag] 1", "*"),
          frag("PUSH [tag] 2", "*"), frag("PUSH data a1", "*"), frag("PUSHIMMUTABLE 7", "*"), frag("PUSHLIB abc", "*")]
    return v


def split_vocab():
    v = [frag(x, "*") for x in ["LOG0", "LOG1", "PUSH 0 PUSH 0 LOG0", "PUSH 20 PUSH 0 LOG1", "CALLDATACOPY",
                                "PUSH 20 PUSH 0 PUSH 0 CALLDATACOPY", "GAS", "CODECOPY", "STATICCALL", "CALL",
                                "PUSH 0 PUSH 0 PUSH 0 CREATE", "ASSIGNIMMUTABLE 7", "RETURNDATASIZE",
                                "PUSH 0 MSTORE", "PUSH 20 MSTORE", "PUSH 0 MLOAD", "PUSH 0 SSTORE", "PUSH 0 SLOAD",
                                "MSTORE", "MLOAD", "SSTORE", "SLOAD", "POP", "DUP1", "SWAP1", "ADD", "PUSH 1",
                                "PUSH 0", "DUP2", "SWAP2", "ISZERO"]]
    return v


def stack_vocab():
    return [frag(x, "*") for x in ["POP", "DUP1", "DUP2", "DUP3", "SWAP1", "SWAP2", "SWAP3", "PUSH 0", "PUSH 1",
                                   "PUSH 1 ADD", "ADD", "SUB", "ISZERO", "PUSH 0 ADD", "PUSH 1 MUL", "AND", "NOT"]]


def deep_vocab():
    """instructions that reach 8..16 deep into the stack, with consumers whose operand order matters and with
    instructions that split a block or store (operand indices straddling s(9)/s(10), DUP16/SWAP16 reach)"""
    return [frag(x, "*") for x in ["DUP8", "DUP9", "DUP10", "DUP11", "DUP15", "DUP16", "SWAP9", "SWAP10", "SWAP15", "SWAP16",
                                   "SUB", "LT", "ADD", "POP", "MSTORE", "MSTORE8", "SSTORE", "LOG0", "LOG1", "PUSH 5 ADD", "DUP1"]]


def warm_vocab():
    """account accesses and storage accesses on shared values (the access lists behind warm/cold pricing are separate
    for addresses and for storage keys), with the stack moves that let a back-end reorder them"""
    return [frag(x, "*") for x in ["DUP1 BALANCE", "DUP2 BALANCE", "DUP1 SLOAD", "DUP2 SLOAD", "DUP3 SLOAD", "DUP1 EXTCODESIZE",
                                   "DUP1 EXTCODEHASH", "DUP2 DUP2 SSTORE", "SWAP1", "SWAP2", "SWAP3", "SHL", "ADD", "POP", "DUP1"]]


def warm_blocks(n3, n4, seed):
    import corpus
    b3, _ = enumerate_blocks(warm_vocab(), [["*", "*"], ["*", "*", "*"]], 6)
    b4, _ = enumerate_blocks(warm_vocab(), [["*", "*", "*", "*"]], 6)
    keep = lambda t: ("BALANCE" in t or "EXTCODE" in t) and ("SLOAD" in t or "SSTORE" in t)
    return corpus.sample([t for t in b3 if keep(t)], n3, seed) + corpus.sample([t for t in b4 if keep(t)], n4, seed)


def deep_blocks(n3, seed):
    """all pairs and n3 sampled triples over deep_vocab (input depth up to 17)"""
    import corpus
    b2, _ = enumerate_blocks(deep_vocab(), [["*"], ["*", "*"]], 17)
    b3, _ = enumerate_blocks(deep_vocab(), [["*", "*", "*"]], 17)
    return b2 + corpus.sample(b3, n3, seed)


def enumerate_blocks(vocab, shapes, maxin, simulate=None, seed=0, timeout=1800, cap=None):
    """Let TLC enumerate (or simulate: (num, depth)) the fragment sequences; returns texts in TLC's order."""
    if common.replay_file():
        return [], None
    w = common.workdir()
    gf = os.path.join(w, "gen_%s.json" % common.stable_hash([[(f["text"], f["cls"]) for f in vocab], shapes, maxin, simulate, seed]))
    common.write_json(gf, {"vocab": [{"pop": f["pop"], "push": f["push"], "cls": f["cls"]} for f in vocab],
                           "shapes": shapes, "maxin": maxin})
    extra = []
    if simulate:
        extra = ["-simulate", "num=%d" % simulate[0], "-depth", str(simulate[1]), "-seed", str(seed + 1)]
    r = common.run_tlc("SeqGen", "SeqGen.cfg", {"GEN": gf}, workers=1, timeout=timeout, heap="4g", extra=extra, tag="gen")
    if not simulate and not r.ok:
        raise common.MachineryError("SeqGen failed: " + r.out[-1500:])
    seen, out, prefixes = set(), [], set()
    for t in r.tagged("B"):
        idxs = t[2]
        if simulate:
            # the simulator evaluates the invariant on every successor of the last step: keep one per behaviour
            key = tuple(idxs[:-1])
            if key in prefixes:
                continue
            prefixes.add(key)
        text = " ".join(vocab[i - 1]["text"] for i in idxs if vocab[i - 1]["text"])
        if text and text not in seen:
            seen.add(text)
            out.append(text)
    return out, r


def rule_patterns():
    """the rule catalogue of spec/Rules.tla as TLC prints it: [(rule name, arity, triggering block)]"""
    r = common.run_tlc("Rules", "RulesEmit.cfg", workers=1, heap="1g", tag="rulesemit", timeout=600)
    if not r.ok:
        raise common.MachineryError("Rules.tla (RulesEmit.cfg) failed:\n" + r.out[-1500:])
    return [(t[1], t[2], t[3]) for t in r.tagged("RULE")]


def rule_pattern_blocks(prefixes=("", "SWAP1", "SWAP2", "DUP2"), suffixes=("", "SWAP1")):
    """every catalogued rule pattern behind a stack permutation (the operands reach the rule in every order) and
    followed by a consumer of the stack below"""
    if common.replay_file():
        return []
    out = []
    for _, _, p in rule_patterns():
        for a in prefixes:
            for b in suffixes:
                t = " ".join(x for x in (a, p, b) if x)
                if t not in out:
                    out.append(t)
    return out
