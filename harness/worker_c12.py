"""C12 / C13 worker commands (imported by worker.py inside the worker process).

  seq      {"blocks": [{"text": <plain text>, "name": <prefix>}...], "mode": "own"|"contract", "detail": bool}
           processes the blocks one after the other IN THIS PROCESS with the real pipeline, exactly as
           optimize_asm_contract does per block (optimize_asm_block_asm_format, compare_asm_block_asm_format,
           keep-or-revert, update_*_count); the answer holds, for every block i, the projected result of
           block i after blocks 1..i-1, i.e. result(B_i | B_1 .. B_{i-1}).
           mode "own":      every block is parsed on its own (name = <prefix>_block_0, a function of the block)
           mode "same":     as "own", but every block gets the same name (two contracts with one short name)
           mode "contract": the blocks are concatenated into one item list ("tag k JUMPDEST" in front of each,
                            k given with the block; blocks with "raw" are real contract blocks given as items)
                            and parsed at once as the code of a contract; the block name then contains the
                            position, which the projection replaces by "@"
  seqs     {"seqs": [{"sid": .., "blocks": [..], "mode": ..}], "child_timeout": s}
           the same, but every sequence runs in a child forked from THIS process, which must not have processed
           any block yet (checked: the lazily created module globals of the front-end must not exist).  A child
           forked from such a process has the memory image of a fresh process after import + prelude; it gets
           its own temporary directory name, as a fresh process would.
  events   {"inputs": [{"text": ..} | {"items": [..]}]}   (C13) one event list per input, see c13.py

Nothing is compared here: implementation objects are projected to canonical JSON text / hashes of it.
Observation is by rebinding module attributes of gasol_asm (no source changes)."""
import hashlib
import json
import os
import select
import shutil
import signal
import sys
import time
import uuid
from copy import deepcopy

W = {}
TIME_FIELDS = ("solver_time_in_sec",)


def bind(g):
    W.update(g)


def canon(o):
    return json.dumps(o, sort_keys=True, default=str)


def H(o):
    return hashlib.sha256(canon(o).encode()).hexdigest()[:16]


def _totals(ga):
    return [ga.previous_gas, ga.new_gas, ga.previous_size, ga.new_size, ga.prev_n_instrs, ga.new_n_instrs]


def _enc_files():
    """(content hash, mtime) of the encoding files written so far ( -backend runs)"""
    paths = W["paths"]
    out = {}
    d = paths.smt_encoding_path
    if os.path.isdir(d):
        for f in sorted(os.listdir(d)):
            try:
                p = os.path.join(d, f)
                with open(p, "rb") as fh:
                    out[f] = (hashlib.sha256(fh.read()).hexdigest()[:16], os.stat(p).st_mtime_ns)
            except OSError:
                pass
    return out


def run_block(blk, is_init=False):
    """one block through the real per-block pipeline; returns the full observation"""
    ga, params = W["gasol_asm"], W["params"]
    fe_calls, greedy, exc = [], [], []
    real_fe, real_gs = ga.compute_original_sfs_with_simplifications, ga.greedy_standalone

    def fe(block, p):
        rec = {"name": block.block_name}
        fe_calls.append(rec)
        try:
            d, subs = real_fe(block, p)
        except BaseException as e:
            rec["exc"] = type(e).__name__
            raise
        rec["sfs"] = deepcopy(d["syrup_contract"])
        rec["subs"] = deepcopy(subs)
        return d, subs

    def gs(sfs_block):
        rec = {}
        greedy.append(rec)
        out = real_gs(sfs_block)
        rec["outcome"], rec["ids"] = out[0], (list(out[2]) if out[2] is not None else None)
        return out

    r = {"name": blk.block_name, "plain": blk.to_plain()}
    enc0 = _enc_files()
    tot0 = _totals(ga)
    ga.compute_original_sfs_with_simplifications, ga.greedy_standalone = fe, gs
    emitted = blk
    try:
        try:
            new_block, log, stats = ga.optimize_asm_block_asm_format(blk, params)
            r["raw"] = new_block.to_plain()
            r["log"] = log
            r["rows"] = [{k: (v if isinstance(v, (int, float, str, bool)) or v is None else str(v)) for k, v in s.items()
                          if k not in TIME_FIELDS} for s in stats]
        except BaseException as e:
            exc.append("optimize:" + type(e).__name__)
            new_block = None
        r["n_opt_calls"] = len(fe_calls)
        if new_block is not None:
            try:
                eq, reason = ga.compare_asm_block_asm_format(blk, new_block, params)
                r["eq"], r["reason"] = bool(eq), str(reason)
                emitted = new_block if eq else blk
                r["blockrow"] = ga.csv_from_asm_block(blk, emitted, eq, reason, "disabled")
            except BaseException as e:
                exc.append("compare:" + type(e).__name__)
            # the running totals, updated as optimize_asm_contract does
            if not exc:
                ga.update_gas_count(blk, emitted)
                ga.update_length_count(blk, emitted)
                if not is_init:
                    ga.update_size_count(blk, emitted)
    finally:
        ga.compute_original_sfs_with_simplifications, ga.greedy_standalone = real_fe, real_gs
    r["emitted"] = emitted.to_plain()
    r["emitted_items"] = [b.to_json() for b in emitted.instructions]
    r["totals_delta"] = [a - b for a, b in zip(_totals(ga), tot0)]
    r["fe"] = fe_calls
    r["greedy"] = greedy
    r["exc"] = exc
    enc1 = _enc_files()
    r["enc"] = {k: v[0] for k, v in enc1.items() if enc0.get(k) != v}
    return r


def project(r, norm_name=None):
    """full observation -> record of strings (the components TLC compares)"""
    def nz(o):
        t = canon(o)
        if norm_name:
            t = t.replace(norm_name, "@")
        return hashlib.sha256(t.encode()).hexdigest()[:16]
    n = r.get("n_opt_calls", 0)
    first = r["fe"][:n]
    rest = r["fe"][n:]
    fe_exc = [("fe%d:%s" % (i, c["exc"])) for i, c in enumerate(r["fe"]) if "exc" in c]
    return {
        "sfs": nz([{k: c.get(k) for k in ("sfs", "subs", "name")} for c in first]) if first else "none",
        "optimized": nz({"emitted": r["emitted"], "items": r["emitted_items"], "raw": r.get("raw"), "log": r.get("log"),
                         "greedy": r["greedy"]}),
        "stats": nz({"rows": r.get("rows"), "blockrow": r.get("blockrow"), "totals": r["totals_delta"]}),
        "exception": ";".join(r["exc"] + fe_exc) or "-",
        "cmp": nz({"eq": r.get("eq"), "reason": r.get("reason"),
                   "fe": [{k: c.get(k) for k in ("sfs", "subs", "name")} for c in rest]}),
        "enc": nz(r["enc"]) if r["enc"] else "-",
    }


def flags(r):
    """what the block made the front-end do (for the vacuity guards of the driver)"""
    n = r.get("n_opt_calls", 0)
    rules, nsub, mem = False, 0, 0
    for c in r["fe"][:n]:
        for s in (c.get("sfs") or {}).values():
            nsub += 1
            rules = rules or bool(s.get("rules"))
            mem = max(mem, sum(1 for u in s.get("user_instrs", []) if u.get("storage") or "mem_var" in u or "sto_var" in u))
    return {"rules": rules, "subs": nsub, "raised": bool(r["exc"]) or any("exc" in c for c in r["fe"]),
            "changed": r["emitted"] != r["plain"], "memops": mem}


def _parse_own(b, same=False):
    pa = W["parser_asm"]
    # mode "same": every block gets the same name, as the blocks of two contracts with one short name do
    blocks = pa.parse_blocks_from_plain_instructions(b["text"], "c", "twin" if same else b.get("name", "p"))
    return blocks


def _parse_contract(bl):
    pa = W["parser_asm"]
    items = []
    for i, b in enumerate(bl):
        if not b.get("raw"):
            # the tag is part of the block (a function of the block, not of its position)
            items += [{"name": "tag", "value": str(b.get("tag", 1000 + i))}, {"name": "JUMPDEST"}]
        items += b["items"] if "items" in b else pa.plain_instructions_to_asm_representation(b["text"])
    return pa.build_blocks_from_asm_representation("c", "c_run", items, False)


def run_seq(bl, mode="own", detail=False):
    out = []
    if mode == "contract":
        blocks = _parse_contract(bl)
        if len(blocks) != len(bl):
            return {"error": "contract mode: %d inputs parsed to %d blocks" % (len(bl), len(blocks))}
        groups = [[b] for b in blocks]
    else:
        groups = None
    for i, b in enumerate(bl):
        try:
            blks = groups[i] if groups is not None else _parse_own(b, same=(mode == "same"))
        except BaseException as e:
            out.append({"r": {"sfs": "none", "optimized": "none", "stats": "none", "exception": "parse:" + type(e).__name__,
                              "cmp": "none", "enc": "-"}, "f": {"rules": False, "subs": 0, "raised": True, "changed": False, "memops": 0}})
            continue
        obs = [run_block(x) for x in blks]
        if len(obs) == 1:
            o = obs[0]
            rec = {"r": project(o, o["name"] if mode == "contract" else None), "f": flags(o)}
        else:       # a text that parses to several blocks is judged as the list of its blocks
            ps = [project(o, o["name"] if mode == "contract" else None) for o in obs]
            fs = [flags(o) for o in obs]
            rec = {"r": {k: "+".join(p[k] for p in ps) for k in ps[0]},
                   "f": {"rules": any(f["rules"] for f in fs), "subs": sum(f["subs"] for f in fs), "raised": any(f["raised"] for f in fs),
                         "changed": any(f["changed"] for f in fs), "memops": max(f["memops"] for f in fs)}}
        if detail:
            rec["detail"] = obs
        out.append(rec)
    return {"results": out}


def pristine():
    """the front-end creates most of its module globals on first use: none of them may exist"""
    import sfs_generator.gasol_optimization as go
    import sfs_generator.ir_block as ir
    return not hasattr(go, "u_counter") and not hasattr(ir, "rbr_blocks") and _totals(W["gasol_asm"]) == [0] * 6


def cmd_seq(cmd):
    res = run_seq(cmd["blocks"], cmd.get("mode", "own"), cmd.get("detail", False))
    res["pid"] = os.getpid()
    return res


def _new_tmp():
    """what a fresh process gets at import time from global_params/paths.py: a new uuid directory"""
    p = W["paths"]
    p.gasol_folder = "gasol_" + uuid.uuid4().hex
    p.gasol_path = p.tmp_path + p.gasol_folder + "/"
    p.json_path = p.gasol_path + "jsons"
    p.smt_encoding_path = p.gasol_path + "smt_encoding/"
    p.solutions_path = p.gasol_path + "solutions/"
    p.dot_path = p.gasol_path + "dot/"
    p.csv_file = p.gasol_path + "solutions/statistics.csv"
    return p.gasol_path


def _child(wfd, s):
    try:
        gp = _new_tmp()
        try:
            res = run_seq(s["blocks"], s.get("mode", "own"), s.get("detail", False))
        except BaseException as e:
            res = {"error": "child: %s: %s" % (type(e).__name__, str(e)[:200])}
        res["pid"] = os.getpid()
        data = json.dumps(res).encode()
        off = 0
        while off < len(data):
            off += os.write(wfd, data[off:off + 65536])
        os.close(wfd)
        shutil.rmtree(gp, ignore_errors=True)
    finally:
        os._exit(0)


def cmd_seqs(cmd):
    if not pristine():
        return {"error": "seqs: this worker has already processed a block"}
    tmo = cmd.get("child_timeout", 60)
    out = []
    for s in cmd["seqs"]:
        rfd, wfd = os.pipe()
        pid = os.fork()
        if pid == 0:
            os.close(rfd)
            _child(wfd, s)
        os.close(wfd)
        buf, deadline, killed = b"", time.time() + tmo, False
        while True:
            left = deadline - time.time()
            if left <= 0:
                killed = True
                break
            rd, _, _ = select.select([rfd], [], [], min(left, 1.0))
            if rd:
                chunk = os.read(rfd, 1 << 20)
                if not chunk:
                    break
                buf += chunk
        os.close(rfd)
        if killed:
            try:
                os.kill(pid, signal.SIGKILL)
            except OSError:
                pass
        os.waitpid(pid, 0)
        try:
            res = json.loads(buf.decode()) if buf and not killed else {"killed": True}
        except ValueError:
            res = {"killed": True, "why": "died"}
        res["sid"] = s.get("sid")
        out.append(res)
    return {"runs": out, "pristine_after": pristine()}


# ---------------------------------------------------------------------------------------------
# C13

def cmd_events(cmd):
    """one event list per input: per block the specification text hash (identifiers included, list order kept),
    the sub-block list, the greedy id lists, the emitted block, the instruction dependencies and bounds the
    SMT back-end derives from each specification (json_with_dependencies)."""
    from smt_encoding.json_with_dependencies import extended_json_with_instr_dep_and_bounds
    pa = W["parser_asm"]
    res = []
    want_bounds = cmd.get("bounds", True)
    for inp in cmd["inputs"]:
        ev = []
        try:
            if "items" in inp:
                blocks = pa.build_blocks_from_asm_representation("c", "c", inp["items"], False)
            else:
                blocks = pa.parse_blocks_from_plain_instructions(inp["text"], "c", "c")
        except BaseException as e:
            res.append({"events": [{"k": "exception", "b": 0, "v": "parse:" + type(e).__name__}], "memops": 0, "deps": 0})
            continue
        memops = deps = 0
        for bi, blk in enumerate(blocks):
            o = run_block(blk)
            n = o.get("n_opt_calls", 0)
            for ci, c in enumerate(o["fe"]):
                kind = "sfs" if ci < n else "cmp_sfs"
                if "exc" in c:
                    ev.append({"k": kind, "b": bi, "v": "raised:" + c["exc"]})
                    continue
                # dict key order is not content, list order is: canonical text with sorted keys
                ev.append({"k": kind, "b": bi, "v": H([c["sfs"], c["subs"]])})
                ev.append({"k": kind + "_keyorder", "b": bi, "v": H([list(c["sfs"].keys())] + [list(s.keys()) for s in c["sfs"].values()])})
                if ci < n:
                    for name, s in c["sfs"].items():
                        m = sum(1 for u in s.get("user_instrs", []) if u.get("storage") or "mem_var" in u or "sto_var" in u)
                        memops = max(memops, m)
                        deps = max(deps, len(s.get("memory_dependences", [])) + len(s.get("storage_dependences", [])))
                        if want_bounds:
                            try:
                                x = extended_json_with_instr_dep_and_bounds(deepcopy(s))
                                v = H({k: x.get(k) for k in ("instr_dependencies", "upper_bounds", "lower_bounds")})
                            except BaseException as e:
                                v = "raised:" + type(e).__name__
                            ev.append({"k": "bounds", "b": bi, "v": v})
            ev.append({"k": "greedy", "b": bi, "v": canon(o["greedy"])})
            ev.append({"k": "optimized", "b": bi, "v": H({"emitted": o["emitted"], "items": o["emitted_items"], "raw": o.get("raw"),
                                                         "log": o.get("log")})})
            ev.append({"k": "stats", "b": bi, "v": H({"rows": o.get("rows"), "blockrow": o.get("blockrow")})})
            ev.append({"k": "exception", "b": bi, "v": ";".join(o["exc"]) or "-"})
            if o["enc"]:
                ev.append({"k": "enc", "b": bi, "v": H(o["enc"])})
        res.append({"events": ev, "memops": memops, "deps": deps})
    return {"inputs": res, "hashseed": os.environ.get("PYTHONHASHSEED"), "gasol_path": W["paths"].gasol_path, "cwd": os.getcwd(),
            "str_hash": hash("gasol") & 0xffff}


COMMANDS = {"seq": cmd_seq, "seqs": cmd_seqs, "events": cmd_events}
