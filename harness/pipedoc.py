"""C10/C11 support: synthesized json_solc documents (contracts made of generated block bodies between
`tag N`/`JUMPDEST` and jumps), reading documents back block by block, and the projection of item lists to
the instruction records spec/EVM.tla executes.  Input preparation and re-typing only; nothing is judged."""
import hashlib
import json

import corpus
import gen

VERSION = "0.8.5+commit.a4f2e591.Linux.g++"
AUX = "a26469706673582212200102030405060708090a0b0c0d0e0f101112131415161718191a1b1c1d1e1f2064736f6c63430008050033"
OPERAND2 = ("[tag]", "#[$]", "[$]", "data")


def items_of(text, pos=None):
    """plain instruction text -> assembly items as solc writes them"""
    out = []
    n = pos or [100]
    for ins in gen.tokens(text):
        ws = ins.split()
        n[0] += 3
        it = {"begin": n[0], "end": n[0] + 2, "source": 0}
        if ws[0] == "PUSH" and len(ws) == 3 and ws[1] in OPERAND2:
            it.update(name="PUSH " + ws[1], value=ws[2])
        elif ws[0] == "PUSH0":
            it.update(name="PUSH", value="0")
        elif len(ws) == 2:
            it.update(name=ws[0], value=ws[1].upper() if ws[0] == "PUSH" else ws[1])
        else:
            it.update(name=ws[0])
        if it["name"] in ("JUMP",):
            it["value"] = "[in]"
        out.append(it)
    return out


def section_items(bodies, first_tag=1):
    """a code section of len(bodies) basic blocks: block i >= 1 starts with `tag i JUMPDEST`; every block but
    the last ends with a jump to the next tag (alternating JUMPI / JUMP), the last one with STOP.  Source
    positions are per block (block i starts at 1000 * (i + 1)), so that changing one body moves no other item"""
    items = []
    for i, body in enumerate(bodies):
        pos = [1000 * (i + 1)]
        if i > 0:
            items += items_of("tag %d JUMPDEST" % (first_tag + i - 1), pos)
        items += items_of(body, pos)
        if i + 1 < len(bodies):
            items += items_of("PUSH [tag] %d %s" % (first_tag + i, "JUMPI" if i % 2 == 0 else "JUMP"), pos)
        else:
            items += items_of("STOP", pos)
    return items


def make_doc(sections, cname="verif/C.sol:C"):
    """sections[0] = bodies of the init code, sections[1:] = bodies of the run codes (data ids "0", "1", ..)"""
    asm = {".code": section_items(sections[0]), ".data": {}}
    for j, sec in enumerate(sections[1:]):
        asm[".data"][str(j)] = {".auxdata": AUX, ".code": section_items(sec)}
    return {"version": VERSION, "contracts": {cname: {"asm": asm}}}


def doc_blocks(doc):
    """[(contract, section path, [items])] in the order the optimizer processes blocks (independent reader)"""
    out = []
    for cname, c in doc.get("contracts", {}).items():
        asm = c.get("asm") if c else None
        if not asm:
            continue
        for path, items in corpus.code_sections(asm):
            for b in corpus.split_blocks(items):
                out.append((cname, path, b))
    return out


def block_text(items):
    return " ".join(it["name"] + (" " + str(it["value"]) if "value" in it and it["name"] not in ("JUMP", "JUMPI") else "")
                    for it in items)


def block_key(items):
    return json.dumps(items, sort_keys=True)


PSEUDO = {"PUSH [tag]": "PUSHTAG", "PUSH #[$]": "PUSHSUBSIZE", "PUSH [$]": "PUSHSUB", "PUSH data": "PUSHDATA",
          "PUSHLIB": "PUSHLIB", "PUSHDEPLOYADDRESS": "PUSHDEPLOYADDRESS", "PUSHSIZE": "PUSHSIZE",
          "PUSHIMMUTABLE": "PUSHIMMUTABLE"}


def _canon(kind, v):
    if v is None:
        return ""
    try:
        return str(int(str(v), 10 if kind == "PUSH [tag]" else 16))
    except ValueError:
        return str(v)


def _derived(kind, operand, nbytes=32):
    h = hashlib.sha256(("%s|%s" % (kind, _canon(kind, operand))).encode()).digest()
    return list(h[:nbytes])


def proj_item(it):
    """assembly item (JSON) -> the record worker.proj_instr builds from the tool's AsmBytecode (same rules)"""
    d, v = it["name"], it.get("value")
    out = {"op": d, "k": 0, "w": [], "name": d, "value": "" if v is None else str(v)}
    if d == "PUSH":
        try:
            n, w = int(str(v), 16), []
            while n:
                w.append(n & 255)
                n >>= 8
            out["w"] = w
        except Exception:
            out["op"] = "BADPUSH"
    elif d in PSEUDO:
        out["op"] = PSEUDO[d]
        out["w"] = _derived(d, v, 20 if d in ("PUSHLIB", "PUSHDEPLOYADDRESS") else 32)
    elif d == "ASSIGNIMMUTABLE":
        out["w"] = _derived(d, v, 32)
    elif d.startswith("DUP") and d[3:].isdigit():
        out["op"], out["k"] = "DUP", int(d[3:])
    elif d.startswith("SWAP") and d[4:].isdigit():
        out["op"], out["k"] = "SWAP", int(d[4:])
    return out


def proj_items(items):
    return [proj_item(it) for it in items]
