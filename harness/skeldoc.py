"""C09 / C17 support: synthesized solc documents (shapes of spec/SkeletonGen.tla, block bodies of
spec/SeqGen.tla), the runner of the REAL command line tool on whole files, and the projection of
documents to the abstract documents of spec/AsmDoc.tla.  Nothing here decides anything."""
import concurrent.futures as cf
import json
import os
import random
import resource
import signal
import subprocess
import time

import asmdoc
import common
import gen

JOBS = min(common.NCPU, int(os.environ.get("VERIF_CLI_JOBS", "5")))
MEM_LIMIT = 4 * 1024 ** 3

M256 = (1 << 256) - 1
HASH1 = "A6C3F1D2B4E5968778695A4B3C2D1E0FA6C3F1D2B4E5968778695A4B3C2D1E0F"
HASH2 = "B1C2D3E4F5061728394A5B6C7D8E9F00B1C2D3E4F5061728394A5B6C7D8E9F0"      # 63 digits: solc drops a leading zero
AUX = "a26469706673582212200102030405060708090a0b0c0d0e0f101112131415161718191a1b1c1d1e1f2064736f6c63430008110033"
LIBS = {"la": "contracts/lib/A.sol:A", "lb": "contracts/lib/B.sol:B"}
DATA = {"d1": HASH1, "d2": HASH2}
VERSION = "0.8.17+commit.8df45f5f.Linux.g++"

# ---------------------------------------------------------------------------------------------
# option sets of whole-file runs

POLICIES = [("default", []), ("storage", ["-storage"]), ("partition", ["-partition"])]
CRITERIA = [("gas", []), ("size", ["-size"]), ("length", ["-length"])]
PUSH0 = [("on", []), ("off", ["-push0"])]


def optsets():
    """all 18 greedy option sets: (name, argv, policy, push0)"""
    out = []
    for pn, pa in POLICIES:
        for cn, ca in CRITERIA:
            for zn, za in PUSH0:
                out.append({"name": "greedy-%s-%s-push0%s" % (pn, cn, zn), "argv": ["-greedy"] + pa + ca + za,
                            "policy": pn, "push0": zn, "crit": cn})
    return out


# ---------------------------------------------------------------------------------------------
# vocabulary of block bodies: P pseudo-pushes, S fragments a rule or the stack scheduler rewrites,
# O everything else (split instructions, stores, environment)

def body_vocab():
    P = ["PUSH [tag] 7", "PUSH [tag] 12", "PUSH [$] 0", "PUSH [$] a", "PUSH #[$] 0", "PUSH #[$] b", "PUSH data d1",
         "PUSH data d2", "PUSHLIB la", "PUSHLIB lb", "PUSHIMMUTABLE 689", "PUSHIMMUTABLE 1167", "PUSHSIZE", "PUSHDEPLOYADDRESS"]
    S = ["PUSH 0 ADD", "DUP1 POP", "SWAP1 SWAP1", "PUSH 1 MUL", "PUSH 1 PUSH 1 SUB", "PUSH 0 MUL", "DUP1 SUB", "POP",
         "PUSH 0 PUSH 0 ADD ADD", "ISZERO ISZERO ISZERO", "PUSH %x AND" % M256]
    O = ["DUP1", "SWAP1", "DUP2", "ADD", "PUSH 0", "PUSH 1", "PUSH ff", "PUSH %x" % M256, "PUSH 80 PUSH 40 MSTORE", "MSTORE", "PUSH 40 MLOAD",
         "SSTORE", "SLOAD", "PUSH 0 SSTORE", "MSTORE8", "LOG1", "PUSH 0 PUSH 0 LOG0", "CALLDATACOPY", "GAS", "CODECOPY",
         "STATICCALL", "KECCAK256", "CALLER", "CALLVALUE", "DUP1 DUP1 ASSIGNIMMUTABLE 689", "RETURNDATASIZE", "EXTCODECOPY",
         "PUSH 0 PUSH 0 PUSH 0 CREATE"]
    return [gen.frag(t, "P") for t in P] + [gen.frag(t, "S") for t in S] + [gen.frag(t, "O") for t in O]


def zero_vocab():
    """C17: zero pushes spelled in the input, produced by folding, produced by a rule, plus context"""
    Z = ["PUSH 0", "PUSH 0 ADD", "PUSH 0 MUL", "PUSH 1 PUSH 1 SUB", "DUP1 SUB", "DUP1 XOR", "PUSH 0 AND", "PUSH 1 PUSH 0 MUL",
         "PUSH 0 PUSH 0", "PUSH 0 ISZERO ISZERO", "PUSH 5 PUSH 5 EQ ISZERO", "PUSH 0 PUSH 0 SUB", "PUSH 2 PUSH 1 GT",
         "PUSH 0 DUP2 MUL", "PUSH 0 MSTORE", "PUSH 0 MLOAD", "PUSH 0 SSTORE", "PUSH 0 SLOAD", "PUSH 0 PUSH 0 LOG0",
         "PUSH 0 PUSH 0 RETURN", "PUSH 0 DUP1 REVERT", "PUSH0"]
    K = ["POP", "DUP1", "SWAP1", "DUP2", "ADD", "SUB", "PUSH 1", "PUSH ff", "PUSH 100", "PUSH %x" % M256, "ISZERO", "MSTORE", "SLOAD",
         "CALLER", "PUSH [tag] 3", "PUSHSIZE", "PUSHLIB la", "PUSH data a1", "GAS", "BALANCE", "KECCAK256"]
    return [gen.frag(t, "Z") for t in Z] + [gen.frag(t, "K") for t in K]


# ---------------------------------------------------------------------------------------------
# text -> items as solc writes them

class Pos:
    def __init__(self, start=100):
        self.n = start

    def item(self, name, value=None, **kw):
        self.n += 7
        it = {"begin": self.n, "end": self.n + 5, "name": name, "source": (self.n // 7) % 2}
        if value is not None:
            it["value"] = value
        it.update(kw)
        return it


def solc_hex(word):
    return "%X" % int(word, 16)


def text_items(p, text):
    """items of a plain-text body; operands spelled as solc spells them"""
    out = []
    for ins in gen.tokens(text):
        ws = ins.split()
        if ws[0] == "PUSH" and len(ws) == 3:
            name = "PUSH " + ws[1]
            if ws[1] == "[tag]":
                out.append(p.item(name, ws[2]))
            elif ws[1] == "data":
                out.append(p.item(name, DATA.get(ws[2], solc_hex(ws[2]) if all(ch in "0123456789abcdefABCDEF" for ch in ws[2]) else ws[2])))
            else:
                out.append(p.item(name, "%064X" % int(ws[2], 16)))
        elif ws[0] == "PUSH":
            out.append(p.item("PUSH", solc_hex(ws[1])))
        elif ws[0] == "PUSHLIB":
            out.append(p.item("PUSHLIB", LIBS.get(ws[1], ws[1])))
        elif ws[0] in ("PUSHIMMUTABLE", "ASSIGNIMMUTABLE", "tag"):
            out.append(p.item(ws[0], ws[1]))
        elif ws[0] == "PUSH0":
            out.append(p.item("PUSH0"))
        else:
            out.append(p.item(ws[0]))
    return out


TERMS = ["JUMP[in]", "JUMPI", "STOP", "JUMP[out]", "RETURN", "fall", "REVERT", "JUMP", "INVALID", "SELFDESTRUCT"]


def section_code(p, sh, bodies, first_tag, k0=0):
    """one instruction stream: a prologue block without tag, then one tagged block per body, each closed by one of
    TERMS in turn; returns (items, next free tag)"""
    md = sh["md"]
    code = [p.item("PUSH", "80"), p.item("PUSH", "40"), p.item("MSTORE"), p.item("CALLVALUE"), p.item("DUP1"), p.item("ISZERO"),
            p.item("PUSH [tag]", str(first_tag)), p.item("JUMPI"), p.item("PUSH", "0"), p.item("DUP1"), p.item("REVERT")]
    tag = first_tag
    for k, body in enumerate(bodies):
        t = TERMS[(k + k0) % len(TERMS)]
        code.append(p.item("tag", str(tag)))
        code.append(p.item("JUMPDEST"))
        its = text_items(p, body)
        if md:
            for j, it in enumerate(its):
                if (j + k) % 4 == 0:
                    it["modifierDepth"] = 1 + (k % 2)
        code += its
        tag += 1
        if t.startswith("JUMP"):
            ann = t[4:] if t[4:].startswith("[") else ""
            if t != "JUMPI":
                code.append(p.item("PUSH [tag]", str(tag)))
            if t == "JUMPI":
                code.append(p.item("PUSH [tag]", str(first_tag)))
                j = p.item("JUMPI")
            elif ann and sh["jt"] == "value":
                j = p.item("JUMP", ann)
            elif ann and sh["jt"] == "field":
                j = p.item("JUMP", jumpType=ann)
            else:
                j = p.item("JUMP")
            if md:
                j["modifierDepth"] = 1
            code.append(j)
        elif t != "fall":
            if t in ("RETURN", "REVERT"):
                code += [p.item("PUSH", "0"), p.item("DUP1")]
            elif t == "SELFDESTRUCT":
                code += [p.item("CALLER")]
            code.append(p.item(t))
    code += [p.item("tag", str(tag)), p.item("JUMPDEST"), p.item("STOP")]
    return code, tag + 1


def build_contract(p, sh, bodies, k0=0):
    """asm object of one contract; bodies are dealt to the creation code, the run-time code and (nest = 2) the nested code"""
    n = len(bodies)
    a, b = n // 4, n - (n // 4 if sh["nest"] >= 2 else 0)
    init, run, inner = bodies[:a], bodies[a:b], bodies[b:]
    runasm = {}
    if sh["aux"]:
        runasm[".auxdata"] = AUX
    runasm[".code"], nt = section_code(p, sh, run, 1, k0 + 3)
    if sh["nest"] >= 1:
        runasm[".data"] = {HASH1: "0102030405060708090A0B0C0D0E0F"}
    if sh["nest"] >= 2:
        ic, _ = section_code(p, sh, inner, 1, k0 + 5)
        innerasm = {".code": ic, ".data": {HASH2: "FFEE", "A1": "00"}}
        if sh["aux"]:
            innerasm[".auxdata"] = AUX[:40]
        runasm[".data"]["1"] = innerasm
    code, _ = section_code(p, sh, init, 1, k0)
    asm = {".code": code, ".data": {"0": runasm}}
    if sh.get("sib"):
        # a second code-bearing sub-assembly beside the run-time one (creation code of a child contract)
        sc, _ = section_code(p, sh, (run[:2] or init[:1] or bodies[:1]), 1, k0 + 7)
        asm[".data"]["1"] = {".code": sc, ".data": {"0": {".code": section_code(p, sh, bodies[:1], 1, k0 + 9)[0]}}}
    if sh["tophex"]:
        asm[".data"][HASH2] = "DEADBEEF"
    if sh["src"]:
        asm["sourceList"] = ["contracts/C.sol", "#utility.yul"]
    return asm


def build_doc(sh, bodies):
    """the JSON document of a shape with the given block bodies (dict as json.load would return it)"""
    p = Pos()
    contracts = {}
    if sh["two"]:
        h = len(bodies) // 2
        contracts["contracts/C.sol:C"] = {"asm": build_contract(p, sh, bodies[:h])}
        contracts["contracts/lib/D.sol:D"] = {"asm": build_contract(p, sh, bodies[h:], 2)}
    else:
        contracts["contracts/C.sol:C"] = {"asm": build_contract(p, sh, bodies)}
    if sh["noasm"] == "empty":
        contracts["contracts/I.sol:I"] = {}
    elif sh["noasm"] == "null":
        contracts["contracts/I.sol:I"] = {"asm": None}
    return {"contracts": contracts, "version": VERSION}


SHAPE_KEYS = ("noasm", "nest", "tophex", "aux", "src", "jt", "md", "two", "sib")


def gen_shapes():
    """SkeletonGen: all document shapes; returns (shapes, TLCResult)"""
    r = common.run_tlc("SkeletonGen", "SkeletonGen.cfg", {}, workers=1, timeout=600, tag="skelgen")
    if not r.ok:
        raise common.MachineryError("SkeletonGen failed:\n" + r.out[-2000:])
    seen, out = set(), []
    for t in r.tagged("SH"):
        k = json.dumps(t)
        if k in seen:
            continue
        seen.add(k)
        out.append(dict(zip(SHAPE_KEYS, t[1:])))
    return out, r


def cover_shapes(shapes, n, seed):
    """n shapes such that every value of every dimension occurs (greedy cover first, then random fill)"""
    rnd = random.Random(seed)
    pool_ = list(shapes)
    rnd.shuffle(pool_)
    need = {(k, json.dumps(s[k])) for s in shapes for k in SHAPE_KEYS}
    out = []
    while need and pool_:
        best = max(pool_, key=lambda s: sum(1 for k in SHAPE_KEYS if (k, json.dumps(s[k])) in need))
        pool_.remove(best)
        out.append(best)
        need -= {(k, json.dumps(best[k])) for k in SHAPE_KEYS}
    for s in pool_:
        if len(out) >= n:
            break
        out.append(s)
    return out                      # the cover is never cut, even when it is longer than n


def shape_coverage(shapes_used, all_shapes):
    need = {(k, json.dumps(s[k])) for s in all_shapes for k in SHAPE_KEYS}
    have = {(k, json.dumps(s[k])) for s in shapes_used for k in SHAPE_KEYS}
    return sorted("%s=%s" % kv for kv in need - have)


# ---------------------------------------------------------------------------------------------
# the real command line tool on a whole file

def _limits():
    os.setsid()
    resource.setrlimit(resource.RLIMIT_AS, (MEM_LIMIT, MEM_LIMIT))


def run_cli(job, timeout):
    """job: {"input": path, "argv": [...], "dir": scratch dir}.  Runs
    /venv/bin/python $VERIF_REPO/gasol_asm.py <input> <argv> -o <dir>/out.json_solc -csv <dir>/seq.csv
    with cwd = dir, stdout to /dev/null.  Returns {"status", "out": path or None, "wall", "stderr"}."""
    d = job["dir"]
    os.makedirs(d, exist_ok=True)
    want = os.path.join(d, "out.json_solc")
    cmd = [common.VENV_PY, os.path.join(common.REPO, "gasol_asm.py"), job["input"]] + list(job["argv"]) + \
          ["-o", want, "-csv", os.path.join(d, "seq.csv")]
    t0 = time.time()
    e = dict(os.environ)
    e["PYTHONHASHSEED"] = e.get("PYTHONHASHSEED", "0")
    e["PYTHONWARNINGS"] = "ignore"
    with open(os.path.join(d, "stderr.txt"), "wb") as err:
        p = subprocess.Popen(cmd, cwd=d, stdout=subprocess.DEVNULL, stderr=err, preexec_fn=_limits, env=e)
        try:
            rc = p.wait(timeout=timeout)
            killed = False
        except subprocess.TimeoutExpired:
            try:
                os.killpg(p.pid, signal.SIGKILL)
            except OSError:
                pass
            p.wait()
            rc, killed = -9, True
    base = os.path.basename(job["input"]).split(".")[0]
    default = os.path.join(d, base + "_optimized.json_solc")      # modify_file_names: the name the tool really uses
    out = want if os.path.exists(want) else default if os.path.exists(default) else None
    with open(os.path.join(d, "stderr.txt"), "rb") as f:
        tail = f.read()[-600:].decode("utf8", "replace")
    status = "ok" if (rc == 0 and out) else "no output: killed after %d s" % timeout if killed else \
        "no output: exit code %s: %s" % (rc, tail.strip().splitlines()[-1][:160] if tail.strip() else "")
    return {"status": status, "out": out, "wall": round(time.time() - t0, 2), "stderr": tail, "honours_o": out == want}


def run_cli_many(jobs, timeout):
    with cf.ThreadPoolExecutor(max_workers=JOBS) as ex:
        return list(ex.map(lambda j: run_cli(j, timeout), jobs))


def run_matrix_capped(jobs, timeout):
    """like pool.run_matrix, but never more than JOBS worker processes at a time: the option sets run one after
    the other, each on JOBS workers.  jobs: [(optargv, cmds)] -> list of result lists"""
    import pool
    return [pool.run_commands(argv, cmds, JOBS, timeout) if cmds else [] for argv, cmds in jobs]


# ---------------------------------------------------------------------------------------------
# projection

def load(path):
    with open(path) as f:
        return json.load(f)


def proj_file(path):
    """abstract document of a JSON file read with the plain json module; None when it is not JSON"""
    try:
        return asmdoc.proj_doc(load(path))
    except Exception:
        return None


EMPTY_DOC = {"version": asmdoc.ABSENT, "extra": [], "contracts": []}


def doc_weight(d):
    return len(json.dumps(d)) if d is not None else 1


def count_blocks(doc):
    """number of tag/terminal-delimited blocks of a JSON document (for the evidence only)"""
    import corpus
    n = 0
    for c in (doc.get("contracts") or {}).values():
        asm = c.get("asm") if isinstance(c, dict) else None
        if not asm:
            continue
        for _, items in corpus.code_sections(asm):
            n += len(corpus.split_blocks(items))
    return n
