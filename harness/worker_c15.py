"""C15 worker commands (imported by worker.py inside the worker process): the REAL parser and
serializers of the repository.  Results are projected (documents as JSON, blocks as lists of
{name, value, ...}); nothing is compared here.

  c15_doc    {"doc": <json>} or {"path": <file>} [, "outpath": <file>] [, "blocks": n]
             parse_asm(path).to_json(); with "blocks" also the to_plain round trip of up to n distinct
             blocks of the parsed document (JSON-origin blocks)
  c15_plain  {"text": <plain text>}
             parse_blocks_from_plain_instructions(text); for every block to_plain() and
             to_plain_with_byte_number(), each re-parsed
"""
import json
import os

W = {}


def bind(g):
    W.update(g)


def scalar(v):
    if v is None:
        return "-"
    if isinstance(v, bool):
        return "b:true" if v else "b:false"
    if isinstance(v, int):
        return "i:%d" % v
    if isinstance(v, str):
        return "s:" + v
    return "j:" + json.dumps(v, sort_keys=True)


def proj_items(block):
    """AsmBlock -> [{name, value, real, jt}] (value/real/jt as typed strings, "-" for None)"""
    return [{"name": str(bc.disasm), "value": scalar(bc.value), "real": scalar(bc.real_value), "jt": scalar(bc.jump_type)}
            for bc in block.instructions]


def reparse(text):
    """text -> {"status": "ok", "items": [...flattened...], "nblocks": n} or {"status": "raised: ..."}"""
    parser_asm = W["parser_asm"]
    try:
        blocks = parser_asm.parse_blocks_from_plain_instructions(text)
        items = []
        for b in blocks:
            items += proj_items(b)
        return {"status": "ok", "items": items, "nblocks": len(blocks)}
    except BaseException as e:
        return {"status": "raised: %s: %s" % (type(e).__name__, str(e)[:120]), "items": [], "nblocks": 0}


def render(block, how):
    try:
        text = block.to_plain() if how == "plain" else block.to_plain_with_byte_number()
        return {"status": "ok", "text": text}
    except BaseException as e:
        return {"status": "raised: %s: %s" % (type(e).__name__, str(e)[:120]), "text": ""}


def round_trip(block, hows):
    rec = {"items": proj_items(block)}
    for how in hows:
        r = render(block, how)
        rec[how] = r
        rec[how + "_back"] = reparse(r["text"]) if r["status"] == "ok" else {"status": "not rendered", "items": [], "nblocks": 0}
    return rec


_n = [0]


def cmd_c15_doc(cmd):
    parser_asm = W["parser_asm"]
    path = cmd.get("path")
    if path is None:
        _n[0] += 1
        path = os.path.join(os.getcwd(), "c15_doc_%d_%d.json_solc" % (os.getpid(), _n[0]))
        with open(path, "w") as f:
            json.dump(cmd["doc"], f)
    res = {"push0": bool(W["constants"].push0_enabled)}
    try:
        parsed = parser_asm.parse_asm(path)
        out = parsed.to_json()
        res["status"] = "ok"
        if cmd.get("outpath"):
            with open(cmd["outpath"], "w") as f:
                json.dump(out, f)
        else:
            res["out"] = json.loads(json.dumps(out))
    except BaseException as e:
        res["status"] = "raised: %s: %s" % (type(e).__name__, str(e)[:120])
        res["tb"] = W["exc_info"](e)["tb"]
        parsed = None
    finally:
        if "doc" in cmd:
            try:
                os.remove(path)
            except OSError:
                pass
    if parsed is not None and cmd.get("blocks"):
        seen, recs = set(), []
        for c in parsed.contracts:
            if not c.has_asm_field:
                continue
            sections = [c.init_code] + [c.get_run_code(i) for i in c.get_data_ids_with_code()]
            for blocks in sections:
                for b in blocks:
                    sig = tuple((str(i.disasm), str(i.value)) for i in b.instructions)
                    if sig in seen:
                        continue
                    seen.add(sig)
                    if len(recs) < cmd["blocks"]:
                        recs.append(round_trip(b, ["plain"]))
        res["blocks"], res["distinct_blocks"] = recs, len(seen)
    return res


def cmd_c15_plain(cmd):
    parser_asm = W["parser_asm"]
    res = {"push0": bool(W["constants"].push0_enabled)}
    try:
        blocks = parser_asm.parse_blocks_from_plain_instructions(cmd["text"])
        res["status"] = "ok"
    except BaseException as e:
        res["status"] = "raised: %s: %s" % (type(e).__name__, str(e)[:120])
        res["blocks"] = []
        return res
    res["blocks"] = [round_trip(b, ["plain", "bn"]) for b in blocks]
    return res


COMMANDS = {"c15_doc": cmd_c15_doc, "c15_plain": cmd_c15_plain}
