"""Tokeniser for the .smt2 text the repository's writer emits: text -> trees for spec/SmtLib.tla.  No judgement."""
import re


def sexprs(text):
    toks = re.findall(r"\(|\)|[^\s()]+", text)
    pos = 0

    def parse():
        nonlocal pos
        t = toks[pos]
        pos += 1
        if t == "(":
            lst = []
            while toks[pos] != ")":
                lst.append(parse())
            pos += 1
            return lst
        return t
    out = []
    while pos < len(toks):
        out.append(parse())
    return out


def node(x):
    if isinstance(x, list):
        if not x or isinstance(x[0], list):
            return {"k": "app", "n": "?", "a": [node(y) for y in x]}
        return {"k": "app", "n": x[0], "a": [node(y) for y in x[1:]]}
    if re.fullmatch(r"-?\d+", x):
        return {"k": "int", "n": x, "a": []}
    return {"k": "sym", "n": x, "a": []}


def project(text):
    sorts, decls, asserts, softs, other = [], [], [], [], []
    for e in sexprs(text):
        if not isinstance(e, list) or not e:
            other.append(str(e)[:40])
            continue
        h = e[0]
        if h == "declare-sort":
            sorts.append(e[1])
        elif h == "declare-fun":
            decls.append({"n": e[1], "args": list(e[2]), "res": e[3]})
        elif h == "declare-const":
            decls.append({"n": e[1], "args": [], "res": e[2]})
        elif h == "assert":
            asserts.append(node(e[1]))
        elif h == "assert-soft":
            softs.append(node(e[1]))
        elif h in ("set-logic", "set-option", "check-sat", "get-model", "get-objectives", "minimize", "set-info"):
            pass
        else:
            other.append(str(h)[:40])
    return {"sorts": sorts, "decls": decls, "asserts": asserts, "softs": softs, "other": other}
