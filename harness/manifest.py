"""Writes /verif/MANIFEST.json from the table below (run: /venv/bin/python harness/manifest.py)."""
import json
import os

V = os.path.dirname(os.path.dirname(os.path.abspath(__file__)))
MC = "model_checking"

CHECKS = {
 "C01": (MC, "EVM", "TLC batch model checking of observational equivalence (EVMEquiv over EVM/Words/Grid) on (input block, emitted block) pairs recorded from the real optimizer; blocks enumerated by TLC (SeqGen)",
         "TLC evaluates the TLA+ EVM semantics of both blocks on every grid state (boundary values, aliasing, generic words; seeded memory/storage) for every changed block the real pipeline emitted under 6 (quick) / 108 (thorough) option sets; exhaustive over the enumerated blocks and grid, not over all 2^256-sized states",
         "5 C01", "spec/Words.tla is checked against native integers at 8/16 bits (WordsCheck); gas exhaustion not modelled; hash/environment functions generic; z3 4.8.12 stands in for the Max-SMT solver"),
 "C02": (MC, "SFSDenote", "TLC explores every linearization of the specification's memory/storage/hash operations (SFSDenote) and compares with the concrete run of the sub-block (EVM)",
         "for every specification the real front-end produced (3 split modes x rules on/off) TLC enumerates all order ideals of the declared happens-before relation on every grid state and checks the completion invariant against the TLA+ EVM run; exhaustive over schedules within the operation bound",
         "5 C02", "<= 6 (quick) / 8 (thorough) memory operations per specification; grid of states; each operation executed once per schedule"),
 "C03": (MC, "SFSDenote", "TLC checks the word library against native integers (WordsCheck) and evaluates the specifications with rules on and off against the concrete run (SFSDenote) on rule instantiations enumerated by TLC (SeqGen)",
         "bounded-exhaustive over rule instantiations (operators x operands from stack variables, repeated variables, boundary constants; two contexts; chains of three) and the boundary grid at 256 bits; all operand values only at 8 bits for the word library",
         "5 C03", "size gating is observed through C08; a front-end exception on these blocks is a C10 matter"),
 "C04": (MC, "SFSMachine", "TLC trace validation of every greedy id sequence against the symbolic stack machine (SFSTrace over SFSMachine)",
         "every error=0 result of the real greedy_from_json on every distinct sub-block specification of the corpus is replayed step by step as a behaviour of SFSMachine and must end in Goal; the first disabled step is named",
         "5 C04", "only specifications the front-end produces from the corpus; dependency pair semantics as in DESIGN.md chapter 11"),
 "C05": (MC, "EVM", "TLC enumerates single mutations (Mutate); the real checker judges them; TLC (EVMEquiv) searches the grid for a state distinguishing every mutant the checker accepted",
         "soundness of the real compare_asm_block_asm_format on all enumerated mutants of the base blocks under 2 (quick) / 4 (thorough) split/rule settings, each accepted mutant model-checked on the grid; reflexivity and exception-freedom on every base block",
         "5 C05", "a violation needs a distinguishing grid state; the forves adapter needs bin/forves-checker, absent in this tree"),
 "C06": (MC, "SFSMachine", "all models of the emitted hard constraints (enumerated by the stand-in solver, decoded by the tool's own reader) are trace-validated by TLC (SFSTrace) within the published bounds; SmtLib.tla checks declarations and sorts of the emitted text",
         "for every small specification (init_progr_len <= 5/6) and a pairwise covering array of the encoder options, every enumerated model must decode to a realizing sequence; every distinct .smt2 text is sort-checked in TLA+ and parsed by z3",
         "5 C06", "z3 only finds assignments; enumeration capped per instance; -push-basic findings are listed in known_findings.json"),
 "C07": (MC, "SFSMachine", "TLC computes model costs and violated soft weights (SoftCost/StaticCost) and searches all sequences within the bounds with their cost (SFSCost) to compare the true optimum with what the encoding admits and the solver returns",
         "per problem: soft weight minus cost constant over all enumerated models; no realizing sequence within the bounds cheaper than the cheapest model (complete enumerations) or than the solver's proven optimum; satisfiable whenever realizable",
         "5 C07", "static context-free cost schedule; small specifications only; z3 stands in for the Max-SMT solver"),
 "C15": (MC, "AsmDoc", "TLC enumerates document shapes and constant spellings (AsmDocGen); the real parser/serializer runs on them; TLC (AsmDocTrace over AsmDoc) compares abstract documents, blocks and spelling values",
         "all enumerated document shapes x both PUSH0 settings, all spellings x boundary values, generated plain blocks, and the shipped example files; TLC's contribution is thin for whole real files (only the logged difference is judged)",
         "5 C15", "document equality = equality of JSON values; see evidence assumptions"),
 "C16": (MC, "SFSMachine", "TLC exhaustive search over all instruction sequences within the published bounds (SFSSearch) plus trace validation of the greedy witness under the bounds (SFSTrace)",
         "for every distinct specification with init_progr_len <= 5 (quick) / 8 (thorough) TLC explores all sequences within init_progr_len and max_sk_sz: a goal must exist and min_length must not exceed the true minimum; larger specifications only through the greedy witness",
         "5 C16", "larger specifications are undecided unless the greedy sequence is a witness"),
 "C18": (MC, "Formula", "TLC enumerates construction scripts (FormulaGen); the real add_* constructors run them; TLC (FormulaTrace over Formula/SExpr) evaluates result, unsimplified call and re-read rendering under all valuations",
         "exhaustive for scripts of length 1 and (thorough) length 2, simulated length 3-4; every step judged under all valuations of the atoms that occur; structural equality pairs judged semantically",
         "5 C18", "integer atoms range over -1..4; ill-sorted calls undecided; rendering re-read by an independent TLA+ reader from a Python token stream"),
}

PENDING = {
 "C08": "driver under construction (cost monotonicity; reuses the C01 runs and Cost.tla)",
 "C09": "driver under construction (skeleton / well-formed items on whole-file runs)",
 "C10": "driver under construction (budget, fault isolation, Pipeline.tla)",
 "C11": "driver under construction (log replay and log mutations)",
 "C12": "driver under construction (history independence)",
 "C13": "driver under construction (determinism across hash seeds)",
 "C14": "driver under construction (split / rebuild)",
 "C17": "driver under construction (PUSH0 flag, contract selection)",
}


def main():
    checks = []
    for pid in sorted(CHECKS):
        level, engine, technique, text, ref, note = CHECKS[pid]
        checks.append({"property_id": pid, "quick_cmd": "bin/check %s --tier quick" % pid,
                       "thorough_cmd": "bin/check %s --tier thorough" % pid, "evidence_file": "evidence/%s.json" % pid,
                       "replay_cmd_template": "bin/check %s --replay {path}" % pid, "engine": engine,
                       "level_claimed": {"category": level, "text": text, "design_ref": "DESIGN.md section " + ref},
                       "level_note": note, "technique": technique})
    na = [{"property_id": p, "reason": r} for p, r in sorted(PENDING.items()) if p not in CHECKS]
    m = {"version": 1, "setup_cmd": "bin/setup",
         "hooks": {"guard": "GASOL_VERIF_TRACE",
                   "enable": "no source hooks: the harness observes the real code by rebinding module attributes inside its own worker processes; $VERIF_REPO selects the tree (default /repo)",
                   "baseline_off_cmd": "cd /repo && /venv/bin/python -m pytest -ra -q -p no:cacheprovider --timeout=900 --continue-on-collection-errors",
                   "source_commits": [], "add_only": True},
         "engines": [
             {"name": "EVM", "path": "spec/Words.tla spec/EVM.tla spec/Grid.tla spec/EVMEquiv.tla spec/SeqGen.tla spec/Mutate.tla", "serves_properties": ["C01", "C03", "C05", "C08", "C11"], "kind_free_text": "TLA+ 256-bit word library and concrete block semantics; TLC batch equivalence checking on a grid of machine states"},
             {"name": "SFSMachine", "path": "spec/SFSMachine.tla spec/SFSTrace.tla spec/SFSSearch.tla spec/SFSCost.tla spec/SoftCost.tla spec/StaticCost.tla spec/SmtLib.tla", "serves_properties": ["C04", "C06", "C07", "C16"], "kind_free_text": "symbolic stack machine over a specification: trace validation and exhaustive bounded search with TLC"},
             {"name": "SFSDenote", "path": "spec/SFSDenote.tla", "serves_properties": ["C02", "C03"], "kind_free_text": "meaning of a specification under every admissible schedule, explored by TLC"},
             {"name": "AsmDoc", "path": "spec/AsmDoc.tla spec/AsmDocGen.tla spec/AsmDocTrace.tla", "serves_properties": ["C15"], "kind_free_text": "abstract solc document, generator and round-trip trace validator"},
             {"name": "Formula", "path": "spec/Formula.tla spec/SExpr.tla spec/FormulaGen.tla spec/FormulaTrace.tla", "serves_properties": ["C18"], "kind_free_text": "formula ASTs with SMT-LIB evaluation, script generator, trace validator"},
         ],
         "checks": checks, "not_applicable": na,
         "notes": "Every check is bin/check <id> --tier quick|thorough; exit 0 / exit 1 + VIOLATION line / exit 2 machinery failure. Known findings: known_findings.json. See DESIGN.md."}
    with open(os.path.join(V, "MANIFEST.json"), "w") as f:
        json.dump(m, f, indent=1)
    print("MANIFEST.json: %d checks, %d not applicable" % (len(checks), len(na)))


if __name__ == "__main__":
    main()
