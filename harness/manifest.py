"""Writes /verif/MANIFEST.json from the table below (run: /venv/bin/python harness/manifest.py)."""
import json
import os

V = os.path.dirname(os.path.dirname(os.path.abspath(__file__)))
MC = "model_checking"

CHECKS = {
 "C01": (MC, "EVM", "TLC batch model checking of observational equivalence (EVMEquiv over EVM/Words/Grid) on (input block, emitted block) pairs recorded from the real optimizer; blocks enumerated by TLC (SeqGen)",
         "TLC evaluates the TLA+ EVM semantics of both blocks on every grid state (boundary values, aliasing, generic words; seeded memory/storage) for every changed block the real pipeline emitted under 6 (quick) / 108 (thorough) option sets; exhaustive over the enumerated blocks and grid, not over all 2^256-sized states",
         "5 C01", "spec/Words.tla is checked against native integers at 8/16 bits (WordsCheck); gas exhaustion not modelled; hash/environment functions generic; z3 4.8.12 stands in for the Max-SMT solver"),
 "C02": (MC, "SFSDenote", "TLC explores every linearization of the specification's memory/storage/hash operations (SFSDenote) and compares with the concrete run of the sub-block (EVM); SFSRealize.tla explores the lock-step product of the symbolic stack machine and the EVM (every sequence a back-end may return within the published bounds, executed concretely); MemDeps.tla model-checks the pairwise-conflict ordering criterion and feeds the instances refuting its closest-store-only variant back to the real front-end",
         "for every specification the real front-end produced (3 split modes x rules on/off) TLC enumerates all order ideals of the declared happens-before relation on every grid state and checks the completion invariant against the TLA+ EVM run; exhaustive over schedules within the operation bound",
         "5 C02", "<= 6 (quick) / 8 (thorough) memory operations per specification; grid of states; each operation executed once per schedule"),
 "C03": (MC, "SFSDenote", "TLC checks the word library against native integers (WordsCheck) and the rule catalogue as identities at 8/16/256 bits (Rules), and evaluates the specifications with rules on and off against the concrete run (SFSDenote) on rule instantiations enumerated by TLC (SeqGen)",
         "bounded-exhaustive over rule instantiations (operators x operands from stack variables, repeated variables, boundary constants; two contexts; chains of three) and the boundary grid at 256 bits; all operand values only at 8 bits for the word library",
         "5 C03", "size gating is observed through C08; a front-end exception on these blocks is a C10 matter"),
 "C04": (MC, "SFSMachine", "TLC trace validation of every greedy id sequence against the symbolic stack machine (SFSTrace over SFSMachine); specifications from the real front-end and hand-built ones enumerated by TLC (SFSGen); the oracle itself is model-checked against the denotation of C02 (SFSRefine)",
         "every error=0 result of the real greedy_from_json on every distinct sub-block specification of the corpus is replayed step by step as a behaviour of SFSMachine and must end in Goal; the first disabled step is named",
         "5 C04 and 13.1", "specifications the front-end produces from the corpus plus well-formed hand-built ones (SFSGen: bounded exhaustive to 2 instructions, simulated to 5/6 instructions and 18 initial stack elements); dependency pair semantics as in DESIGN.md chapter 11"),
 "C05": (MC, "EVM", "TLC enumerates single mutations (Mutate: operand swap, opcode confusion, constant change, dropped / duplicated / exchanged stores and store groups, index slips, stack permutations); the real checker judges them; TLC (EVMEquiv) searches the grid for a state distinguishing every mutant the checker accepted",
         "soundness of the real compare_asm_block_asm_format on all enumerated mutants of the base blocks under 2 (quick) / 4 (thorough) split/rule settings, each accepted mutant model-checked on the grid; reflexivity and exception-freedom on every base block",
         "5 C05", "a violation needs a distinguishing grid state; the forves adapter needs bin/forves-checker, absent in this tree"),
 "C06": (MC, "SFSMachine", "all models of the emitted hard constraints (enumerated by the stand-in solver, decoded by the tool's own reader) are trace-validated by TLC (SFSTrace) within the published bounds; SmtLib.tla checks declarations and sorts of the emitted text",
         "for every small specification (init_progr_len <= 5/6) and a pairwise covering array of the encoder options, every enumerated model must decode to a realizing sequence; every distinct .smt2 text is sort-checked in TLA+ and parsed by z3",
         "5 C06", "z3 only finds assignments; enumeration capped per instance; -push-basic findings are listed in known_findings.json"),
 "C07": (MC, "SFSMachine", "TLC computes model costs and violated soft weights (SoftCost/StaticCost) and searches all sequences within the bounds with their cost (SFSCost) to compare the true optimum with what the encoding admits and the solver returns",
         "per problem: soft weight minus cost constant over all enumerated models; no realizing sequence within the bounds cheaper than the cheapest model (complete enumerations) or than the solver's proven optimum; satisfiable whenever realizable",
         "5 C07", "static context-free cost schedule; small specifications only; z3 stands in for the Max-SMT solver"),
 "C15": (MC, "AsmDoc", "TLC enumerates document shapes and constant spellings (AsmDocGen); the real parser/serializer runs on them; TLC (AsmDocTrace over AsmDoc) compares abstract documents, blocks and spelling values",
         "all enumerated document shapes x both PUSH0 settings, all spellings x boundary values, generated plain blocks, and the shipped example files; TLC's contribution is thin for whole real files (only the logged difference is judged)",
         "5 C15", "document equality = equality of JSON values; see evidence assumptions"),
 "C16": (MC, "SFSMachine", "TLC exhaustive search over all instruction sequences within the published bounds (SFSSearch) plus trace validation of the greedy witness under the bounds (SFSTrace)",
         "for every distinct specification with init_progr_len <= 5 (quick) / 8 (thorough) TLC explores all sequences within init_progr_len and max_sk_sz: a goal must exist and min_length must not exceed the true minimum; larger specifications only through the greedy witness",
         "5 C16", "larger specifications are undecided unless the greedy sequence is a witness"),
 "C18": (MC, "Formula", "TLC enumerates construction scripts (FormulaGen); the real add_* constructors run them; TLC (FormulaTrace over Formula/SExpr) evaluates result, unsimplified call and re-read rendering under all valuations",
         "exhaustive for scripts of length 1 and (thorough) length 2, simulated length 3-4; every step judged under all valuations of the atoms that occur; structural equality pairs judged semantically",
         "5 C18", "integer atoms range over -1..4; ill-sorted calls undecided; rendering re-read by an independent TLA+ reader from a Python token stream"),
}

PENDING = {
 "C08": "driver under construction (cost monotonicity; reuses the C01 runs and Cost.tla)",
 "C09": "driver under construction (skeleton / well-formed items on whole-file runs)",
 "C10": "driver under construction (budget, fault isolation, Pipeline.tla)",
 "C11": "driver under construction (log replay and log mutations)",
 "C12": "driver under construction (history independence)",
 "C13": "driver under construction (determinism across hash seeds)",
 "C14": "driver under construction (split / rebuild)",
 "C17": "driver under construction (PUSH0 flag, contract selection)",
}

CHECKS.update({
 "C08": (MC, "EVM", "TLC batch validation (CostTrace over EVMCost/EVM/Grid) of (input block, emitted block, criterion) triples and of contract totals recorded from the real pipeline",
         "independent size and length, run-time gas on every grid state: emitted <= input in the chosen criterion; a changed block improves; the totals the tool accumulates equal the sums of its per-block figures (whole small contracts through the real optimize_asm_contract)",
         "5 C08 and 13.1", "gas schedule of spec/EVMCost.tla (no memory expansion, no refunds); 'improves' uses gas on the generic state; pseudo-push widths by the tool's convention"),
 "C09": (MC, "Skeleton", "TLC enumerates document shapes (SkeletonGen) and validates whole-file runs of the real CLI (SkeletonTrace over Skeleton/AsmDoc): skeleton equality, well-formed emitted items, metadata, re-parse",
         "every tag, JUMPDEST, jump, terminal and split instruction with all fields in order; every emitted item judged by WellFormedItem against its input block; metadata projection equal; the tool's parser re-reads the output; 38 synthesized documents + shipped examples (quick), all 30 files x 3 policies (thorough)",
         "5 C09", "blocks cut by skeleton items; under -storage stores belong to the skeleton; a run that writes no file is undecided (C10)"),
 "C10": (MC, "Pipeline", "TLC checks the abstract pipeline model (Pipeline.tla: safety and liveness under fairness, with and without fault containment) and validates traces of the real pipeline (PipelineTrace) under natural and injected faults enumerated by PipelineFaults; budget check PipelineBudget",
         "every block of the hand/generated corpus processed as its own document under the CPU/memory budget; contract traces with single-point faults (specification generation, search, comparison) must be behaviours of the model in which only the faulty block is emitted unchanged and the output exists; design-level: NoEscape, FailureCostsOneBlock, EveryBlockEmitted under weak fairness",
         "5 C10", "TLA+ only compares measured wall/RSS with the budget; one faulty block per contract; greedy back-end"),
 "C11": (MC, "Pipeline", "TLC enumerates log mutations (LogMutate: substitution incl. foreign ids, neighbouring DUP/SWAP depths, deletion, duplication, transposition, insertion, entry-level edits); the real CLI/pipeline replays them; TLC validates replay traces (PipelineTrace), verdicts (ReplayVerdict/ReplayItems) and equivalence of every replayed block (EVMEquiv)",
         "byte-identical replay of the recorded log on every driven input and option set; for every enumerated single mutation (substitution incl. foreign ids, deletion, duplication, transposition, insertion) the outcome is an error or a block TLC cannot distinguish from the input on the grid",
         "5 C11", "equivalence on the boundary grid; undecided never alarms"),
 "C12": (MC, "History", "TLC enumerates histories (Histories.tla) and validates the recorded result table (HistoryIndep.tla); abstract model HistoryModel.tla (no action reads hist; leaky variant refuted)",
         "result(B | H) = result(B | empty) for all histories of length <= 1 (quick: plus a strided sample of length 2; thorough: all of length <= 2 plus a sample of length 3) over a 12-block pool chosen to touch distinct module state, several option sets, fresh process per history",
         "5 C12", "fresh process = child forked from a worker that imported the tool but processed no block (cross-checked by exec'd processes); TLC's part is enumeration and equality"),
 "C13": (MC, "History", "TLC lock-step comparison (Lockstep.tla) of the event traces of runs under different PYTHONHASHSEED values, processes, scratch directories and CPU load",
         "specifications (identifiers included), bounds, greedy ids and optimized blocks of 853 inputs x 5 environments, plus whole-file CLI runs compared byte for byte; thin TLA+ layer (equality over recorded runs), the quantifier over seeds is sampled",
         "5 C13 and 9", "seeds and processes are a sample; the Max-SMT path is compared through its encoding files only"),
 "C14": (MC, "Asm", "TLC (SeqGen) enumerates blocks with split instructions and stores; the real splitter and rebuild run on them; TLC (AsmTrace over Asm) validates split validity, key/sub-block correspondence, stack propagation and rebuild results",
         "all blocks up to length 3 (quick) / 4 (thorough) over a 12-instruction vocabulary plus long blocks around the partition threshold, three policies: join(subblocks) = optimizable(block), cuts only where the policy allows, every specification key names one sub-block, |src| and delta relations, rebuild with nothing replaced is identity, replacing one sub-block changes only that segment",
         "5 C14", "the reported split must be a valid split, not a particular heuristic choice; split instructions match by opcode name"),
 "C17": (MC, "Skeleton", "TLC validates (Push0Trace over Cost/Skeleton) block events and -c runs recorded from the real pipeline; the tool's symbolic warm/cold gas accounting is restated in TLA+ (Cost!SymGas) and compared on every block",
         "PUSH0 disabled: no emitted PUSH0 unless in the input; the tool's reported size/gas/length equal the independent Cost.tla tables with the same flag on both sides; with -c only the selected contract's blocks reach the optimizer and the others are unchanged",
         "5 C17 and 13.1", "static gas where no warm access is possible, the tool's documented symbolic warm/cold accounting (Cost!SymGas) everywhere; widths/prices taken from the tool are listed in spec/Cost.tla"),
})
PENDING = {}


def main():
    checks = []
    for pid in sorted(CHECKS):
        level, engine, technique, text, ref, note = CHECKS[pid]
        checks.append({"property_id": pid, "quick_cmd": "bin/check %s --tier quick" % pid,
                       "thorough_cmd": "bin/check %s --tier thorough" % pid, "evidence_file": "evidence/%s.json" % pid,
                       "replay_cmd_template": "bin/check %s --replay {path}" % pid, "engine": engine,
                       "level_claimed": {"category": level, "text": text, "design_ref": "DESIGN.md section " + ref},
                       "level_note": note, "technique": technique})
    na = [{"property_id": p, "reason": r} for p, r in sorted(PENDING.items()) if p not in CHECKS]
    m = {"version": 1, "setup_cmd": "bin/setup",
         "hooks": {"guard": "GASOL_VERIF_TRACE",
                   "enable": "no source hooks: the harness observes the real code by rebinding module attributes inside its own worker processes; $VERIF_REPO selects the tree (default /repo)",
                   "baseline_off_cmd": "cd /repo && /venv/bin/python -m pytest -ra -q -p no:cacheprovider --timeout=900 --continue-on-collection-errors",
                   "source_commits": [], "add_only": True},
         "engines": [
             {"name": "EVM", "path": "spec/Words.tla spec/EVM.tla spec/Grid.tla spec/EVMEquiv.tla spec/SeqGen.tla spec/Mutate.tla", "serves_properties": ["C01", "C03", "C05", "C08", "C11"], "kind_free_text": "(with spec/EVMCost.tla spec/CostTrace.tla) TLA+ 256-bit word library and concrete block semantics; TLC batch equivalence checking on a grid of machine states"},
             {"name": "SFSMachine", "path": "spec/SFSMachine.tla spec/SFSTrace.tla spec/SFSSearch.tla spec/SFSCost.tla spec/SoftCost.tla spec/StaticCost.tla spec/SmtLib.tla spec/SFSGen.tla spec/SFSRefine.tla", "serves_properties": ["C04", "C06", "C07", "C16"], "kind_free_text": "symbolic stack machine over a specification: trace validation and exhaustive bounded search with TLC"},
             {"name": "SFSDenote", "path": "spec/SFSDenote.tla spec/SFSRealize.tla spec/Rules.tla spec/WordsCheck.tla spec/MemDeps.tla", "serves_properties": ["C02", "C03"], "kind_free_text": "meaning of a specification under every admissible schedule, explored by TLC"},
             {"name": "AsmDoc", "path": "spec/AsmDoc.tla spec/AsmDocGen.tla spec/AsmDocTrace.tla", "serves_properties": ["C15"], "kind_free_text": "abstract solc document, generator and round-trip trace validator"},
             {"name": "Formula", "path": "spec/Formula.tla spec/SExpr.tla spec/FormulaGen.tla spec/FormulaTrace.tla", "serves_properties": ["C18"], "kind_free_text": "formula ASTs with SMT-LIB evaluation, script generator, trace validator"},
             {"name": "Pipeline", "path": "spec/Pipeline.tla spec/PipelineTrace.tla spec/PipelineFaults.tla spec/PipelineBudget.tla spec/LogMutate.tla spec/ReplayVerdict.tla spec/ReplayItems.tla", "serves_properties": ["C10", "C11"], "kind_free_text": "abstract model of the optimizer's control flow (phases, faults, log, replay) checked by TLC, and its trace validator"},
             {"name": "Skeleton", "path": "spec/Skeleton.tla spec/SkeletonTrace.tla spec/SkeletonGen.tla spec/Cost.tla spec/Push0Trace.tla", "serves_properties": ["C09", "C17"], "kind_free_text": "skeleton / well-formed items of emitted assembly, independent cost tables, PUSH0 and contract-selection validator"},
             {"name": "Asm", "path": "spec/Asm.tla spec/AsmTrace.tla", "serves_properties": ["C14"], "kind_free_text": "splitting and rebuilding of blocks"},
             {"name": "History", "path": "spec/Histories.tla spec/HistoryIndep.tla spec/HistoryModel.tla spec/Lockstep.tla", "serves_properties": ["C12", "C13"], "kind_free_text": "history enumeration, history-independence and lock-step determinism validators"},
         ],
         "checks": checks, "not_applicable": na,
         "notes": "Every check is bin/check <id> --tier quick|thorough; exit 0 / exit 1 + VIOLATION line / exit 2 machinery failure. Known findings: known_findings.json. See DESIGN.md."}
    with open(os.path.join(V, "MANIFEST.json"), "w") as f:
        json.dump(m, f, indent=1)
    print("MANIFEST.json: %d checks, %d not applicable" % (len(checks), len(na)))


if __name__ == "__main__":
    main()
