"""C15 support: the concrete JSON / text of the shapes and spellings that spec/AsmDocGen.tla enumerates,
and the projection of JSON documents and blocks to the typed records spec/AsmDoc.tla defines.
Nothing here decides anything: it builds inputs and re-types values (JSON -> TLA+ records)."""
import json

import common

# ---------------------------------------------------------------------------------------------
# values (must agree with AsmDoc!Vals; AsmDocTrace re-computes every value from the spelling and
# reports a disagreement as a machinery error, not as a violation)

VALS = [0, 1, 9, 10, 255, 256, 1 << 64, (1 << 256) - 1]

Z64 = "0" * 64
HASH1 = "A6C3F1D2B4E5968778695A4B3C2D1E0FA6C3F1D2B4E5968778695A4B3C2D1E0F"
HASH2 = "0B1C2D3E4F5061728394A5B6C7D8E9F00B1C2D3E4F5061728394A5B6C7D8E9F0"
AUX = "a26469706673582212200102030405060708090a0b0c0d0e0f101112131415161718191a1b1c1d1e1f2064736f6c63430008050033"

PSEUDO = ["PUSH [tag]", "PUSH #[$]", "PUSH [$]", "PUSH data", "PUSHLIB", "PUSHIMMUTABLE", "PUSHSIZE",
          "PUSHDEPLOYADDRESS", "ASSIGNIMMUTABLE"]


def gen_space(tier):
    """Run AsmDocGen; returns (doc shapes, spellings, TLCResult)."""
    r = common.run_tlc("AsmDocGen", "AsmDocGen.cfg", {}, workers=1, timeout=600, tag="c15gen")
    if not r.ok:
        raise common.MachineryError("AsmDocGen failed:\n" + r.out[-2000:])
    docs, spells, seen = [], [], set()
    for t in r.tuples:
        k = json.dumps(t)
        if k in seen:
            continue
        seen.add(k)
        if t[0] == "D":
            docs.append({"noasm": t[1], "nest": t[2], "tophex": t[3], "aux": t[4], "src": t[5], "jt": t[6], "md": t[7], "pk": t[8]})
        elif t[0] == "S":
            spells.append({"vi": t[1], "mn": t[2], "base": t[3], "pre": t[4], "up": t[5], "lz": t[6]})
    return docs, spells, r


# ---------------------------------------------------------------------------------------------
# shape -> JSON document

class _Pos:
    def __init__(self):
        self.n = 100

    def item(self, name, value=None, **kw):
        self.n += 7
        it = {"begin": self.n, "end": self.n + 5, "name": name, "source": (self.n // 7) % 2}
        if value is not None:
            it["value"] = value
        it.update(kw)
        return it


def _pseudo_items(p, pk, level):
    """the items of the pseudo-push kind(s) chosen by the shape, as solc writes them"""
    kinds = PSEUDO if pk == "all" else ([] if pk == "none" else [pk])
    out = []
    for k in kinds:
        if k == "PUSH [tag]":
            out += [p.item(k, str(3 + level)), p.item(k, "12")]
        elif k in ("PUSH #[$]", "PUSH [$]"):
            out += [p.item(k, Z64), p.item(k, "0" * 63 + "1")]
        elif k == "PUSH data":
            out += [p.item(k, HASH1), p.item(k, HASH2)]
        elif k == "PUSHLIB":
            out += [p.item(k, "lib/A.sol:A"), p.item(k, "lib/B.sol:B"), p.item(k, "lib/A.sol:A")]
        elif k == "PUSHIMMUTABLE":
            out += [p.item(k, "689"), p.item(k, HASH2)]
        elif k == "ASSIGNIMMUTABLE":
            out += [p.item(k, "689"), p.item(k, HASH2)]
        else:
            out += [p.item(k)]
    return out


def _jump(p, sh, name, ann):
    if name == "JUMP" and sh["jt"] == "value":
        return p.item(name, ann)
    if name == "JUMP" and sh["jt"] == "field":
        return p.item(name, jumpType=ann)
    return p.item(name)


def _code(p, sh, level):
    """an item list with two zero pushes, other constants (upper-case hex as solc writes them), tags,
    annotated jumps, and the pseudo-pushes of the shape; three basic blocks"""
    md = {"modifierDepth": 1} if sh["md"] else {}
    c = [p.item("PUSH", "80"), p.item("PUSH", "40"), p.item("MSTORE"), p.item("PUSH", "0", **md), p.item("DUP1")]
    c += _pseudo_items(p, sh["pk"], level)
    c += [p.item("PUSH", "FFFFFFFFFFFFFFFFFFFFFFFFFFFFFFFFFFFFFFFF"), p.item("AND", **md), _jump(p, sh, "JUMP", "[in]")]
    c += [p.item("tag", str(3 + level)), p.item("JUMPDEST"), p.item("PUSH", "0"), p.item("PUSH", "A0"), p.item("DUP1")]
    if sh["pk"] in ("PUSHLIB", "all"):
        c += [p.item("PUSHLIB", "lib/B.sol:B")]           # first library of this block, second of the document
    c += [_jump(p, sh, "JUMPI", ""), p.item("tag", "12"), p.item("JUMPDEST"), p.item("PUSH", "1")]
    if sh["pk"] in ("PUSHLIB", "all"):
        # a block that falls through (no terminator) into a tag-opened block naming another library: the per-block
        # numbering of libraries starts again at the tag
        c += [p.item("PUSHLIB", "lib/A.sol:A"), p.item("POP"), p.item("tag", "13"), p.item("JUMPDEST"),
              p.item("PUSHLIB", "lib/B.sol:B"), p.item("POP")]
    c += [p.item("SWAP1", **md), _jump(p, sh, "JUMP", "[out]")]
    if level == 0:
        c += [p.item("PUSH", "0"), p.item("DUP1"), p.item("RETURN")]
    else:
        c += [p.item("PUSH", "0"), p.item("DUP1"), p.item("REVERT")]
    return c


def build_doc(sh):
    """the JSON document of a shape (dict as json.load would return it)"""
    p = _Pos()
    run = {}
    if sh["aux"]:
        run[".auxdata"] = AUX
    run[".code"] = _code(p, sh, 1)
    if sh["nest"] >= 1:
        run[".data"] = {HASH1: "0102030405060708090A0B0C0D0E0F"}
    if sh["nest"] >= 2:
        inner = {".code": _code(p, sh, 2), ".data": {HASH2: "FFEE", "A1": "00"}}
        if sh["aux"]:
            inner[".auxdata"] = AUX[:40]
        run[".data"]["1"] = inner
    asm = {".code": _code(p, sh, 0), ".data": {"0": run}}
    if sh["tophex"]:
        asm[".data"][HASH2] = "DEADBEEF"
    if sh["src"]:
        asm["sourceList"] = ["contracts/C.sol", "#utility.yul"]
    contracts = {"contracts/C.sol:C": {"asm": asm}}
    if sh["noasm"] == "empty":
        contracts["contracts/I.sol:I"] = {}
    elif sh["noasm"] == "null":
        contracts["contracts/I.sol:I"] = {"asm": None}
    return {"contracts": contracts, "version": "0.8.17+commit.8df45f5f.Linux.g++"}


# ---------------------------------------------------------------------------------------------
# spelling -> text

def spell(sp):
    """(mnemonic as written, operand word, text) of a spelling record of AsmDocGen"""
    v = VALS[sp["vi"] - 1]
    if sp["mn"] == "PUSH0":
        return "PUSH0", "", "PUSH0"
    if sp["base"] == "hex":
        digits = "%x" % v
        if sp["up"]:
            digits = digits.upper()
        word = ("0x" if sp["pre"] else "") + "0" * sp["lz"] + digits
        nbytes = max(1, (len(digits) + sp["lz"] + 1) // 2)
    else:
        word = "0" * sp["lz"] + str(v)
        nbytes = max(1, (v.bit_length() + 7) // 8)
    mn = "PUSH" if sp["mn"] == "PUSH" else "PUSH%d" % nbytes
    return mn, word, mn + " " + word


# ---------------------------------------------------------------------------------------------
# plain-text block vocabulary (fragments for SeqGen; all stack effects are irrelevant here)

def plain_vocab():
    texts = [("PUSH 0", "c"), ("PUSH 1", "c"), ("PUSH1 0x00", "c"), ("PUSH2 0x00FF", "c"), ("PUSH1 255", "c"), ("PUSH0", "c"),
             ("PUSH ffffffffffffffffffffffffffffffffffffffffffffffffffffffffffffffff", "c"),
             ("PUSH [tag] 1", "p"), ("PUSH [tag] 547", "p"), ("PUSH #[$] " + Z64, "p"), ("PUSH [$] " + "0" * 63 + "1", "p"),
             ("PUSH data " + HASH1, "p"), ("PUSHLIB a", "L"), ("PUSHLIB b", "L"), ("PUSHIMMUTABLE 689", "p"),
             ("PUSHIMMUTABLE " + HASH2, "p"), ("ASSIGNIMMUTABLE 689", "p"), ("PUSHSIZE", "p"), ("PUSHDEPLOYADDRESS", "p"),
             ("tag 1", "t"), ("JUMPDEST", "o"), ("JUMP", "E"), ("JUMPI", "E"), ("STOP", "E"), ("ADD", "o"), ("DUP2", "o"), ("SWAP1", "o")]
    return [{"text": t, "cls": c, "pop": 0, "push": 0} for t, c in texts]


PLAIN_SHAPES_QUICK = [["*"], ["*", "*"], ["L", "E", "L"], ["L", "L", "E"], ["t", "o", "p"]]
PLAIN_SHAPES_THOROUGH = [["*"], ["*", "*"], ["*", "*", "*"]]


# ---------------------------------------------------------------------------------------------
# projection: JSON value -> typed strings / records of AsmDoc.tla

ITEM_KEYS = ("name", "value", "jumpType", "modifierDepth", "begin", "end", "source")
ABSENT = "-"


def canon(v):
    return json.dumps(v, sort_keys=True, separators=(",", ":"))


def scalar(v):
    if v is None:
        return "null"
    if isinstance(v, bool):
        return "b:true" if v else "b:false"
    if isinstance(v, int):
        return "i:%d" % v
    if isinstance(v, str):
        return "s:" + v
    return "j:" + canon(v)


def field(d, k):
    return scalar(d[k]) if k in d else ABSENT


def extras(d, known):
    return ["%s=%s" % (k, canon(d[k])) for k in sorted(d) if k not in known]


def proj_item(it):
    if not isinstance(it, dict):
        return dict({k: ABSENT for k in ITEM_KEYS}, extra=["notanobject=" + canon(it)])
    out = {k: field(it, k) for k in ITEM_KEYS}
    out["extra"] = extras(it, ITEM_KEYS)
    return out


def proj_asm(a):
    known = [".auxdata", "sourceList"]
    out = {"code": [], "auxdata": field(a, ".auxdata"), "hasdata": "no", "data": [], "hassrc": "no", "srclist": [], "extra": []}
    if isinstance(a.get(".code"), list):
        out["code"] = [proj_item(it) for it in a[".code"]]
        known.append(".code")
    if isinstance(a.get("sourceList"), list):
        out["hassrc"] = "yes"
        out["srclist"] = [scalar(x) for x in a["sourceList"]]
    elif "sourceList" in a:
        known.remove("sourceList")
    if isinstance(a.get(".data"), dict):
        known.append(".data")
        out["hasdata"] = "yes"
        for k in sorted(a[".data"]):
            v = a[".data"][k]
            if isinstance(v, dict):
                out["data"].append({"key": k, "kind": "asm", "hex": ABSENT, "asm": [proj_asm(v)]})
            else:
                out["data"].append({"key": k, "kind": "hex", "hex": scalar(v), "asm": []})
    out["extra"] = extras(a, known)
    return out


def proj_doc(d):
    """total: whatever JSON object the tool wrote is represented without loss of distinctions"""
    if not isinstance(d, dict):
        return {"version": ABSENT, "extra": ["notanobject=" + canon(d)], "contracts": []}
    out = {"version": field(d, "version"), "extra": extras(d, ("version", "contracts") if isinstance(d.get("contracts"), dict) else ("version",)),
           "contracts": []}
    cs = d.get("contracts") if isinstance(d.get("contracts"), dict) else {}
    for name in sorted(cs):
        c = cs[name]
        rec = {"name": name, "asmkind": "other", "asm": [], "extra": []}
        if not isinstance(c, dict):
            rec["extra"] = ["notanobject=" + canon(c)]
        elif "asm" not in c:
            rec["asmkind"], rec["extra"] = "absent", extras(c, ())
        elif c["asm"] is None:
            rec["asmkind"], rec["extra"] = "null", extras(c, ("asm",))
        elif isinstance(c["asm"], dict):
            rec["asmkind"], rec["asm"], rec["extra"] = "obj", [proj_asm(c["asm"])], extras(c, ("asm",))
        else:
            rec["extra"] = extras(c, ())
        out["contracts"].append(rec)
    return out


def raw_diffs(a, b, path=()):
    """Positions where two JSON values are not the same value (objects unordered, no interpretation):
    list of (path, a_sub, b_sub); an element of a `.code` array is reported as a whole item."""
    if type(a) is not type(b):
        return [(path, a, b)]
    if isinstance(a, dict):
        if len(path) >= 2 and path[-2] == ".code":
            return [] if a == b else [(path, a, b)]
        out = []
        for k in sorted(set(a) | set(b)):
            if k not in a or k not in b:
                out.append((path + (k,), a.get(k, "<absent>"), b.get(k, "<absent>")))
            else:
                out += raw_diffs(a[k], b[k], path + (k,))
        return out
    if isinstance(a, list):
        if len(a) != len(b):
            return [(path + ("length",), len(a), len(b))]
        out = []
        for i, (x, y) in enumerate(zip(a, b)):
            out += raw_diffs(x, y, path + (str(i),))
        return out
    return [] if a == b else [(path, a, b)]


def block_item(name, value):
    return {"name": str(name), "value": scalar(value) if value is not None else ABSENT}
