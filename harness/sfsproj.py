"""Projection of the front-end's SFS JSON and of id sequences to the typed form spec/SFSMachine.tla reads."""
import re


def elem(x):
    if isinstance(x, bool):
        return "#%x" % int(x)
    if isinstance(x, int):
        return "#%x" % x
    return str(x)


def proj_sfs(s):
    ins = []
    for u in s["user_instrs"]:
        val = u.get("value", [])
        ins.append({"id": u["id"], "op": u["disasm"], "inp": [elem(x) for x in u["inpt_sk"]],
                    "out": [elem(x) for x in u["outpt_sk"]], "comm": bool(u.get("commutative", False)),
                    "sto": bool(u.get("storage", False)), "push": bool(u.get("push", False)),
                    "gas": int(u.get("gas", 0)), "size": int(u.get("size", 0)),
                    "val": elem(val[0]) if val else ""})
    return {"src": [elem(x) for x in s["src_ws"]], "tgt": [elem(x) for x in s["tgt_ws"]], "ins": ins,
            "deps": [[str(a), str(b)] for a, b in s.get("dependencies", [])],
            "b0": int(s["init_progr_len"]), "bs": int(s["max_sk_sz"])}


def proj_ids(ids):
    """ids: strings; a basic PUSH with its constant is given as ("PUSH", value)"""
    out = []
    for i in ids:
        if isinstance(i, (list, tuple)):
            out.append({"id": "PUSHC", "k": 0, "c": elem(int(i[1]))})
            continue
        m = re.fullmatch(r"(DUP|SWAP)(\d+)", i)
        if m:
            out.append({"id": m.group(1), "k": int(m.group(2)), "c": ""})
        else:
            out.append({"id": i, "k": 0, "c": ""})
    return out
