"""C05 - the built-in equivalence checkers never accept distinguishable blocks.

(G) TLC (spec/Mutate.tla) enumerates every single semantic mutation of each base block; (D) the real
compare_asm_block_asm_format judges (B, mutant) and (B, B); (V) for every mutant the checker calls equal,
TLC (spec/EVMEquiv.tla) searches the grid for a distinguishing state: a violation always comes with one.
Reflexivity and exception-freedom on well-formed input are judged on the recorded verdicts."""
import os
import time

import common
import corpus
import equiv
import findings
import gen
import pool

M256 = (1 << 256) - 1


def tok_record(t, grp=0):
    w = t.split()
    op = w[0]
    if op.startswith("DUP") and op[3:].isdigit():
        return {"op": "DUP", "k": int(op[3:]), "push": False, "c": "", "grp": 0}
    if op.startswith("SWAP") and op[4:].isdigit():
        return {"op": "SWAP", "k": int(op[4:]), "push": False, "c": "", "grp": 0}
    push = op == "PUSH" and len(w) == 2
    return {"op": op, "k": 0, "push": push, "c": w[1].lower().lstrip("0") or "0" if push else "", "grp": grp}


STORES = ("MSTORE", "MSTORE8", "SSTORE")


def store_groups(tokens):
    """{position (1-based) of a store: length of its store group}: the segment since the previous store builds the operands of the
    store in place - it never pops or rearranges what was on the stack before it (DUPs may read it) and leaves the height unchanged"""
    out, start = {}, 0
    for i, t in enumerate(tokens):
        if t.split()[0] not in STORES:
            continue
        cur, ok = 0, True
        for u in tokens[start:i + 1]:
            op = u.split()[0]
            try:
                if op.startswith("DUP") and op[3:].isdigit():
                    cur += 1
                elif op.startswith("SWAP") and op[4:].isdigit():
                    ok = ok and cur >= int(op[4:]) + 1
                else:
                    a, b = gen.arity(u)
                    ok = ok and cur >= a
                    cur += b - a
            except Exception:
                ok = False
            if not ok:
                break
        if ok and cur == 0 and i + 1 - start >= 2:
            out[i + 1] = i + 1 - start
        start = i + 1
    return out


def base_records(tokens):
    g = store_groups(tokens)
    return [tok_record(t, g.get(i + 1, 0)) for i, t in enumerate(tokens)]


# stack permutations of kind "permute" (Mutate.tla: NPerms): single exchanges and the exchange of the operand pairs
# (s0,s1) <-> (s2,s3) / (s0) <-> (s2) that makes two stores, or a store and a load, trade places
PERMS = ["SWAP1", "SWAP2", "SWAP3", "SWAP2 SWAP1 SWAP3 SWAP1", "SWAP1 SWAP2 SWAP1", "SWAP1 SWAP3 SWAP1"]


# bases on which a permutation exchanges two accesses that may alias (symbolic addresses)
STORE_PAIRS = ["SSTORE SSTORE", "MSTORE MSTORE", "MSTORE8 MSTORE8", "MSTORE MSTORE8", "MSTORE8 MSTORE", "SSTORE SLOAD", "MSTORE MLOAD",
               "MSTORE8 MLOAD", "SLOAD SWAP2 SSTORE", "MLOAD SWAP2 MSTORE", "MSTORE KECCAK256", "SSTORE SSTORE SSTORE",
               "MSTORE MSTORE MSTORE", "DUP2 DUP2 SSTORE SSTORE", "DUP2 DUP2 MSTORE MSTORE"]


# bases with a sub-block for which the front-end generates no specification (it only pops, or is an identity) next to a
# split instruction: exchanging adjacent instructions moves that sub-block across the split
SPLIT_MOVES = ["POP GAS CALL", "POP POP GAS CALL", "POP GAS POP LOG0", "DUP1 POP GAS POP", "POP LOG0 POP", "SWAP1 SWAP1 GAS POP",
               "POP GAS", "POP SLOAD GAS POP", "POP CALLDATACOPY POP"]


# the same store twice: a one-to-one correspondence between the stores of the two blocks is needed to tell a changed copy
REPEATED = ["DUP1 PUSH 1 SSTORE PUSH 1 SSTORE SWAP1", "DUP2 DUP2 SSTORE DUP2 DUP2 SSTORE", "DUP2 DUP2 MSTORE DUP2 DUP2 MSTORE",
            "DUP1 PUSH 0 MSTORE PUSH 0 MSTORE", "DUP2 DUP2 MSTORE8 DUP2 DUP2 MSTORE8 POP", "PUSH 0 MSTORE PUSH 2 PUSH 1f KECCAK256 POP"]


# bases with several loads of one address between stores that are computed in place (found by a sub-agent of the fourth round of
# seeded changes): exchanging two store groups gives a block the pinned checker cannot tell from the base
GROUPS = ["PUSH 2 DUP2 SLOAD SSTORE PUSH 20 DUP2 SLOAD SSTORE DUP1 SLOAD", "PUSH 2 DUP2 SLOAD SSTORE PUSH 20 DUP2 SLOAD SSTORE",
          "DUP1 PUSH 20 MLOAD MSTORE DUP1 PUSH 20 MLOAD MSTORE PUSH 20 MLOAD DUP2 MSTORE", "PUSH 1 DUP2 SSTORE PUSH 2 DUP3 SSTORE",
          "PUSH 1 DUP2 MSTORE PUSH 2 DUP3 MSTORE", "PUSH 1 DUP2 PUSH 1 ADD SSTORE PUSH 2 DUP3 SSTORE", "PUSH 1 DUP2 MSTORE8 PUSH 2 DUP3 MSTORE",
          "DUP1 SLOAD DUP2 SSTORE DUP1 SLOAD PUSH 1 ADD DUP2 SSTORE DUP1 SLOAD", "PUSH 7 PUSH 0 MSTORE PUSH 8 PUSH 0 MSTORE PUSH 0 MLOAD"]


def apply(tokens, pos, kind, par, repl):
    t = list(tokens)
    i = pos - 1
    cur = t[i]
    if kind == "swapargs":
        t.insert(i, "SWAP1")
    elif kind == "subst":
        t[i] = repl
    elif kind == "const":
        v = int(cur.split()[1], 16)
        nv = [(v + 1) & M256, (v - 1) & M256, v ^ 1, v ^ (1 << 255)][par - 1]
        t[i] = "PUSH %x" % nv
    elif kind == "dropstore":
        t[i:i + 1] = ["POP", "POP"]
    elif kind == "dupstore":
        t[i:i + 1] = ["DUP2", "DUP2", cur, cur]
    elif kind == "swapnext":
        t[i], t[i + 1] = t[i + 1], t[i]
    elif kind == "permute":
        t[0:0] = PERMS[par - 1].split()
    elif kind == "swapgroup":
        g = store_groups(tokens)[pos]
        t[pos - g:par] = t[pos:par] + t[pos - g:pos]
    elif kind == "swapconst":
        t[i], t[par - 1] = t[par - 1], t[i]
    elif kind == "index":
        name = "DUP" if cur.startswith("DUP") else "SWAP"
        k = int(cur[len(name):])
        t[i] = name + str(k + 1 if par == 1 else k - 1)
    return t


def items_text(items):
    out = []
    for it in items:
        n = it["name"]
        if "value" in it and n not in ("JUMP", "JUMPI"):
            out.append("%s %s" % (n, it["value"]))
        else:
            out.append(n)
    return " ".join(out)


META = {"PUSHDEPLOYADDRESS": "0", "PUSHSIZE": "1", "PUSHLIB": "2", "PUSHIMMUTABLE": "3", "PUSH data": "4", "PUSH [tag]": "5",
        "PUSH [$]": "6", "PUSH #[$]": "7"}


def normhex(v):
    v = str(v).lower()
    if v.startswith("0x"):
        v = v[2:]
    v = v.lstrip("0")
    return v or "0"


def forves_block(instrs):
    """projected instructions -> [op, val] in the checker's input language (see spec/Forves.tla)"""
    out = []
    for i in instrs:
        n, v = i["name"], i["value"]
        if n == "PUSH0":
            out.append({"op": "PUSH", "val": "0"})
        elif n == "PUSH":
            out.append({"op": "PUSH", "val": normhex(v)})
        elif n in META:
            out.append({"op": "META" + META[n], "val": normhex(v) if v != "" else "0"})
        else:
            out.append({"op": n, "val": ""})
    return out


def parse_rendered(text):
    recs = []
    if not text:
        return recs
    lines = text.split("\n")
    i = 0
    while i + 3 < len(lines) + 0 and i < len(lines):
        if lines[i].strip() == "#" and i + 3 < len(lines) + 1:
            tok = lambda l: [normhex(t) if t.lower().startswith("0x") else t for t in l.split()]
            recs.append({"opt": tok(lines[i + 1]), "orig": tok(lines[i + 2]), "size": lines[i + 3].strip() if i + 3 < len(lines) else ""})
            i += 4
        else:
            i += 1
    return recs


def run_forves(cases, tag="forves"):
    if not cases:
        return {}, {"states": 0, "transitions": 0}
    shards = common.shard(cases, min(len(cases), common.NCPU))
    envs = []
    for i, sh in enumerate(shards):
        pth = os.path.join(common.workdir(), "%s_%d.json" % (tag, i))
        common.write_json(pth, {"cases": sh})
        envs.append({"CASES": pth})
    results = common.run_tlc_shards("Forves", "Forves.cfg", envs, timeout=1800, tag=tag)
    verdicts, st = {}, {"states": 0, "transitions": 0}
    for r, sh in zip(results, shards):
        if not r.ok:
            raise common.MachineryError("Forves TLC run failed:\n" + r.out[-2000:])
        cons = r.tagged("CONSUMED")
        if not cons or cons[0][1] != len(sh):
            raise common.MachineryError("Forves did not consume every case")
        st["states"] += r.distinct
        st["transitions"] += r.generated
        for t in r.tagged("VERDICT"):
            verdicts[t[1]] = t[3]
    return verdicts, st


def plain_items(instrs):
    """the text the tool passes to the adapter: AsmBlock.to_plain()"""
    return " ".join((i["name"] + (" " + i["value"] if i["value"] != "" and "JUMP" not in i["name"] else "")) for i in instrs if i["name"] != "tag")


def mutants_of(bases, tag="mut"):
    p = os.path.join(common.workdir(), "%s_bases.json" % tag)
    common.write_json(p, {"bases": [base_records(b) for b in bases]})
    r = common.run_tlc("Mutate", "Mutate.cfg", {"BASES": p}, workers=1, heap="4g", timeout=3600, tag=tag)
    if not r.ok:
        raise common.MachineryError("Mutate failed:\n" + r.out[-2000:])
    return [(t[1], t[2], t[3], t[4], t[5]) for t in r.tagged("M")], r


def run(tier):
    t0 = time.time()
    seed = common.seed()
    texts = list(corpus.hand_blocks()) + STORE_PAIRS + SPLIT_MOVES + REPEATED + GROUPS
    if tier == "quick":
        for v, shapes, n in ((gen.rule_vocab(gen.C3), gen.RULE_SHAPES_BASIC, 150), (gen.mem_vocab(small=True), [["*", "*"]], 120),
                             (gen.sto_vocab(), [["*", "*"]], 80), (gen.stack_vocab(), [["*", "*", "*"]], 80),
                             (gen.split_vocab(), [["*", "*"]], 60), (gen.env_vocab(), [["*", "*"]], 60)):
            b, _ = gen.enumerate_blocks(v, shapes, 4)
            texts += corpus.sample(b, n, seed)
        texts += [items_text(b["items"]) for b in corpus.sample(corpus.real_blocks(), 200, seed)]
        maxmut = 4000
    else:
        for v, shapes, n in ((gen.rule_vocab(gen.C5), gen.RULE_SHAPES_BASIC, 1200), (gen.mem_vocab(), [["*", "*"], ["*", "*", "*"]], 1500),
                             (gen.sto_vocab(), [["*", "*"], ["*", "*", "*"]], 800), (gen.stack_vocab(), [["*", "*", "*"]], 600),
                             (gen.split_vocab(), [["*", "*"], ["*", "*", "*"]], 600), (gen.env_vocab(), [["*", "*"]], 400)):
            b, _ = gen.enumerate_blocks(v, shapes, 4)
            texts += corpus.sample(b, n, seed)
        texts += [items_text(b["items"]) for b in corpus.sample(corpus.real_blocks(), 3000, seed)]
        maxmut = 60000
    def wellformed(toks):
        for t in toks:
            op = t.split()[0]
            for pre in ("DUP", "SWAP"):
                if op.startswith(pre) and op[len(pre):].isdigit() and not 1 <= int(op[len(pre):]) <= 16:
                    return False
        return True
    bases = [gen.tokens(t) for t in dict.fromkeys(texts) if gen.tokens(t) and wellformed(gen.tokens(t))]
    muts, mr = mutants_of(bases)
    # permutations in front of short memory/storage blocks are never sampled away (they make two accesses trade places)
    def keep(m):
        b = bases[m[0] - 1]
        if " ".join(b) in SPLIT_MOVES or " ".join(b) in REPEATED:
            return True            # every mutant of these few bases
        if m[2] in ("swapgroup", "swapconst") and len(b) <= 14:
            return True
        return m[2] == "permute" and len(b) <= 8 and any(t.split()[0] in ("MSTORE", "MSTORE8", "SSTORE", "MLOAD", "SLOAD", "KECCAK256") for t in b)
    kept = [m for m in muts if keep(m)]
    if tier == "quick":
        always = STORE_PAIRS + SPLIT_MOVES + REPEATED + GROUPS
        kept = [m for m in kept if " ".join(bases[m[0] - 1]) in always] + corpus.sample([m for m in kept if " ".join(bases[m[0] - 1]) not in always], 600, seed)
    muts = kept + corpus.sample([m for m in muts if not keep(m)], maxmut, seed)
    cmds, meta = [], []
    for bi, b in enumerate(bases):
        cmds.append({"cmd": "compare", "a": " ".join(b), "b": " ".join(b)})
        meta.append(("refl", bi, None))
    fixed = ("tag", "JUMPDEST", "JUMP", "JUMPI", "STOP", "RETURN", "REVERT", "INVALID", "SELFDESTRUCT")
    for (bi, pos, kind, par, repl) in muts:
        if kind == "swapnext" and (bases[bi - 1][pos - 1].split()[0] in fixed or bases[bi - 1][pos].split()[0] in fixed):
            continue        # moving a tag / jump / terminal does not give a well-formed block
        if kind == "index" and not wellformed(apply(bases[bi - 1], pos, kind, par, repl)):
            continue
        m = apply(bases[bi - 1], pos, kind, par, repl)
        cmds.append({"cmd": "compare", "a": " ".join(bases[bi - 1]), "b": " ".join(m)})
        meta.append(("mut", bi - 1, (pos, kind, par, repl)))
    optsets = [("default", ["-greedy"]), ("storage", ["-greedy", "-storage"])] if tier == "quick" else \
              [("default", ["-greedy"]), ("storage", ["-greedy", "-storage"]), ("partition", ["-greedy", "-partition"]),
               ("norules", ["-greedy", "-no-simplification"])]
    res = pool.run_matrix([(argv, [dict(c) for c in cmds]) for _, argv in optsets], timeout=20)
    if tier == "quick":
        # the pinned bases (stores exchanged, repeated stores, sub-blocks without specification) also with rules disabled
        pinned = set(STORE_PAIRS + SPLIT_MOVES + REPEATED + GROUPS)
        sel = [i for i, c in enumerate(cmds) if c["a"] in pinned]
        rs = pool.run_matrix([(["-greedy", "-no-simplification"], [dict(cmds[i]) for i in sel])], timeout=20)[0]
        full = [{"skipped": True}] * len(cmds)
        for i, r in zip(sel, rs):
            full[i] = r
        optsets = optsets + [("norules", ["-greedy", "-no-simplification"])]
        res = list(res) + [full]
    cases, viol = [], []
    cnt = {"compared": 0, "refl_ok": 0, "refl_fail": 0, "exceptions": 0, "killed": 0, "mut_equal": 0, "mut_different": 0}
    index = {}
    for (oname, argv), rs in zip(optsets, res):
        for (kind, bi, mi), cmd, r in zip(meta, cmds, rs):
            if r.get("skipped"):
                continue
            cnt["compared"] += 1
            if r.get("killed"):
                cnt["killed"] += 1
                continue
            if "exc" not in r and "eq" not in r:
                r = {"exc": r.get("worker_exc", {"type": "WorkerError", "msg": str(r)[:100]})}
            if "exc" in r:
                cnt["exceptions"] += 1
                if kind == "refl":
                    viol.append(({"a": cmd["a"], "b": cmd["b"], "opt": oname, "exc": r["exc"]["type"] + ": " + r["exc"]["msg"][:80]},
                                 ("violates", "checker raises on (B, B)", 0)))
                continue
            if kind == "refl":
                if r["eq"]:
                    cnt["refl_ok"] += 1
                else:
                    cnt["refl_fail"] += 1
                    viol.append(({"a": cmd["a"], "b": cmd["b"], "opt": oname, "reason": r.get("reason", "")},
                                 ("violates", "checker(B, B) is not equal", 0)))
                continue
            if not r["eq"]:
                cnt["mut_different"] += 1
                continue
            cnt["mut_equal"] += 1
            key = (cmd["a"], cmd["b"])
            if key in index:
                index[key]["opts"].append(oname)
                continue
            c = {"id": len(cases) + 1, "orig": r["a"], "opt": r["b"], "a": cmd["a"], "b": cmd["b"], "mut": mi, "opts": [oname]}
            index[key] = c
            cases.append(c)
    # external-checker adapter: the pairs of the first two option sets, rendered by the real adapter
    fcases, fjobs = [], []
    for oi, ((oname, argv), rs) in enumerate(zip(optsets[:2], res[:2])):
        fcmds = []
        for (kind, bi, mi), cmd, r in zip(meta, cmds, rs):
            if r.get("killed") or "a" not in r or not isinstance(r.get("a"), list):
                continue
            pa, pb = plain_items(r["a"]), plain_items(r["b"])
            fcmds.append({"cmd": "forves", "a": pa, "b": pb, "_a": r["a"], "_b": r["b"], "_storage": "-storage" in argv})
        fcmds = corpus.sample(fcmds, 1500 if tier == "quick" else 20000, seed)
        fjobs.append((argv, fcmds))
    fres = pool.run_matrix([(argv, [{k: v for k, v in c.items() if not k.startswith("_")} for c in fc]) for argv, fc in fjobs], timeout=30)
    fcnt = {"pairs": 0, "true": 0, "raised": 0, "other": 0}
    for (argv, fc), rs in zip(fjobs, fres):
        for c, r in zip(fc, rs):
            if r.get("killed") or "verdict" not in r:
                continue
            fcnt["pairs"] += 1
            fcnt["true" if r["verdict"] == "true" else "raised" if r["verdict"] == "raised" else "other"] += 1
            fcases.append({"id": len(fcases) + 1, "verdict": r["verdict"], "rendered": parse_rendered(r.get("rendered")),
                           "a": forves_block(c["_a"]), "b": forves_block(c["_b"]), "storage": c["_storage"], "_pa": c["a"], "_pb": c["b"]})
    fverd, fst = run_forves([{k: v for k, v in c.items() if not k.startswith("_")} for c in fcases])
    verdicts, st = equiv.run_equiv(cases, 48 if tier == "quick" else 256, tag="c05", depthcheck=False)
    st["states"] += fst["states"]
    st["transitions"] += fst["transitions"]
    for c in fcases:
        if c["id"] in fverd:
            viol.append(({"a": c["_pa"], "b": c["_pb"], "opt": "forves adapter", "clause": fverd[c["id"]]}, ("violates", "forves: " + fverd[c["id"]], 0)))
    undec = 0
    for c in cases:
        cl = equiv.classify(verdicts.get(c["id"], []))
        if cl[0] == "violates":
            viol.append(({"a": c["a"], "b": c["b"], "opt": c["opts"], "mutation": list(c["mut"])}, cl))
        elif cl[0] == "undecided":
            undec += 1

    def keys(c):
        ks = [c["a"] + " ~ " + c["b"]]
        if "exc" in c:
            ks.append("reflexivity-exception|" + c["exc"].split(":")[0])
        if c.get("opt") == "forves adapter":
            ks.append("forves|" + c.get("clause", ""))
        if findings.misaligned_overlap(c["a"]) or findings.misaligned_overlap(c["b"]):
            ks.append("misaligned-overlap")
        if "mutation" in c and c["mutation"][1] in ("swapgroup", "swapconst", "swapnext", "permute") and findings.repeated_load_across_store(c["a"]) \
                and findings.repeated_load_across_store(c["b"]):
            ks.append("checker|stores exchanged between repeated identical loads")
        return ks
    out = findings.settle("C05", viol, lambda c: dict(c, key=c["a"] + " ~ " + c["b"]), keys)
    if cnt["mut_equal"] == 0 or cnt["mut_different"] == 0:
        raise common.MachineryError("vacuity guard: the checker accepted no mutant or rejected none")
    cov = {"states": st["states"] + mr.distinct, "transitions": st["transitions"] + mr.generated,
           "traces_validated_against_impl": len(cases),
           "samples": [{"base": c["a"], "mutant": c["b"], "mutation": list(c["mut"]), "checker": "equal",
                        "tlc": equiv.classify(verdicts.get(c["id"], []))[0]} for c in cases[:3] + cases[-3:]],
           "evaluations": cnt["compared"], "distinct_nontrivial": len(cases),
           "rule": "one evaluation = one call of the real compare_asm_block_asm_format on (base, mutant) or (base, base); "
                   "non-trivial = mutant the checker called equal (then searched for a distinguishing state by TLC); distinct pairs",
           "forves_adapter": fcnt, "bases": len(bases), "mutants_enumerated": mr.distinct - len(bases), "mutants_driven": len(muts), "driver": cnt,
           "undecided": undec, "option_sets": [n for n, _ in optsets], "violating": len(viol), "exhaustive": False}
    return {"level": "model_checking", "coverage": cov, "violations": out, "wall": time.time() - t0,
            "assumptions": ["a mutant the checker accepts is a violation only if TLC finds a distinguishing grid state",
                            "the external-checker adapter is driven with a stand-in bin/forves-checker (always true) in a scratch project path; spec/Forves.tla re-reads the rendering"]}
