"""C16 - the numeric bounds published in a specification are valid.

For every distinct sub-block specification of the corpus: (M/V) spec/SFSSearch.tla explores ALL
sequences within the published init_progr_len / max_sk_sz and must reach Goal (exhaustive when the
bound is small); for larger specifications the greedy sequence, validated by spec/SFSTrace.tla under
the published bounds, is tried as a witness ("no witness" is undecided, never a violation).
min_length <= true minimum length (exhaustive) or <= |q| for any validated realizing q;
original_instrs = instructions of the reported sub-block."""
import os
import time

import c01
import common
import findings
import gen
import sfscorpus
import sfsproj
import sfsrun


# sub-blocks that only consume, entered with several elements they never touch (after a split instruction that follows a deep DUP;
# a deep DUP that is cancelled): the stack bound is computed from the pruned variable list
PINNED = ["DUP4 GAS ADD ADD", "DUP5 GAS POP POP ADD", "MSTORE DUP3 POP", "DUP4 GAS SUB SUB", "DUP6 PUSH 0 PUSH 0 LOG0 ADD", "DUP5 GAS LT ISZERO",
          "SSTORE DUP4 POP ADD",
          # a comparison against zero that feeds an ISZERO and another instruction (the discount of the rule ISZ(GT(X,0)))
          "PUSH 0 DUP2 GT DUP1 ISZERO SWAP1 PUSH 5 ADD", "PUSH 0 DUP2 GT DUP1 ISZERO ADD"]


def search(cases, timeout, jobs=None, tag="srch"):
    """cases: [{id, sfs, b0, bs, origins, subins}] -> ({id: minlen}, verdict tuples, stats, finished ids)"""
    jobs = jobs or common.NCPU
    if not cases:
        return {}, [], {"states": 0, "transitions": 0, "jvms": 0}, set()
    w = [(len(c["sfs"]["ins"]) + 6) ** min(c["b0"], 9) for c in cases]
    shards = common.shard_by_weight(cases, w, min(len(cases), jobs * 2))
    envs = []
    for i, sh in enumerate(shards):
        p = os.path.join(common.workdir(), "%s_%d.json" % (tag, i))
        common.write_json(p, {"cases": sh})
        envs.append({"CASES": p})
    results = common.run_tlc_shards("SFSSearch", "SFSSearch.cfg", envs, timeout=timeout, heap="3g", jobs=jobs, tag=tag)
    minlen, verdicts, finished = {}, [], set()
    stats = {"states": 0, "transitions": 0, "jvms": len(results), "timeouts": 0}
    for r, sh in zip(results, shards):
        stats["states"] += r.distinct
        stats["transitions"] += r.generated
        for t in r.tagged("GOAL"):
            minlen[t[1]] = min(minlen.get(t[1], 10 ** 6), t[2])
        verdicts += r.tagged("VERDICT")
        if r.ok:
            finished |= {c["id"] for c in sh}
        elif r.rc == -9:
            stats["timeouts"] += 1          # search budget exceeded: instances of this shard without a goal are undecided
        else:
            raise common.MachineryError("SFSSearch failed:\n" + r.out[-3000:])
    return minlen, verdicts, stats, finished


def run(tier):
    t0 = time.time()
    seed = common.seed()
    groups, gstats = c01.build_corpus(tier, seed)
    groups["H"] = groups["H"] + [{"cmd": "opt", "text": t} for t in PINNED]
    recs, cnt, setnames = sfscorpus.collect(tier, groups)
    limit = 5 if tier == "quick" else 8
    small, large = [], []
    for r in recs:
        ps = r["sfs"]
        c = {"id": 0, "sfs": ps, "b0": ps["b0"], "bs": ps["bs"],
             "origins": gen.tokens(r["raw"].get("original_instrs", "")),
             "subins": [t for s in (r["subins"] or []) for t in [s]] if r["subins"] is not None else gen.tokens(r["raw"].get("original_instrs", "")),
             "_r": r}
        (small if ps["b0"] <= limit and len(ps["ins"]) <= 10 else large).append(c)
    import corpus
    if tier == "quick" and len(small) > 1200:
        small = corpus.sample(small, 1200, seed)
    if tier == "thorough":
        # exhaustive search is exponential in the bound: all of the short ones up to a cap, samples of the longer ones
        by = {}
        for c in small:
            by.setdefault(c["b0"], []).append(c)
        small = []
        for b0, cs in sorted(by.items()):
            cap = 8000 if b0 <= 5 else 3000 if b0 == 6 else 500 if b0 == 7 else 120
            keep = corpus.sample(cs, cap, seed + b0)
            small += keep
            large += [c for c in cs if c not in keep] if len(keep) < len(cs) and len(cs) < 20000 else []
    for i, c in enumerate(small + large):
        c["id"] = i + 1
    strip = lambda c: {k: v for k, v in c.items() if not k.startswith("_")}
    minlen, verd, st, finished = search([strip(c) for c in small], timeout=240 if tier == "quick" else 2400)
    # witnesses for everything with a greedy sequence: validated under the published bounds
    wit_cases = [{"id": c["id"], "sfs": c["sfs"], "ids": sfsproj.proj_ids(c["_r"]["ids"]), "maxlen": c["b0"], "maxstack": c["bs"]}
                 for c in small + large if c["_r"]["ids"] is not None]
    wv, wst = sfsrun.run_traces(wit_cases, tag="wit")
    witness_len = {}
    for wc in wit_cases:
        if wc["id"] not in wv:
            witness_len[wc["id"]] = len([e for e in wc["ids"] if e["id"] != "NOP"])
    viol, undecided, exhaustive_ok, witness_ok = [], 0, 0, 0
    bad_orig = {t[1] for t in verd if t[3] == "original_instrs"}
    for c in small + large:
        r = c["_r"]
        ml = r["raw"].get("min_length", 0)
        found = minlen.get(c["id"])
        q = found if found is not None else witness_len.get(c["id"])
        if c["id"] in bad_orig and r["subins"] is not None:
            viol.append((c, ("violates", "original_instrs", 0)))
            continue
        if found is not None or c["id"] in witness_len:
            if found is not None:
                exhaustive_ok += 1
            else:
                witness_ok += 1
            if isinstance(ml, int) and ml > q:
                viol.append((c, ("violates", "min_length %d > realizing length %d" % (ml, q), q)))
        elif c in small and c["id"] in finished:
            viol.append((c, ("violates", "no realizing sequence within init_progr_len=%d max_sk_sz=%d" % (c["b0"], c["bs"]), 0)))
        else:
            undecided += 1
    out = findings.settle("C16", viol, lambda c: {"block": c["_r"]["block"], "sub": c["_r"]["name"], "options": c["_r"]["opt"],
                                                  "sfs": c["_r"]["raw"], "key": c["_r"]["raw"].get("original_instrs", "") + " @" + c["_r"]["opt"]},
                          lambda c: [c["_r"]["raw"].get("original_instrs", "") + " @" + c["_r"]["opt"]]
                          + ["bounds|" + k for k in findings.rule_kinds(c["_r"]["raw"].get("rules", []))]
                          + (["misaligned-overlap"] if findings.misaligned_overlap(c["_r"]["raw"].get("original_instrs", "")) else [])
                          + findings.bounds_stack_classes(c["_r"]["raw"]))
    if exhaustive_ok == 0:
        raise common.MachineryError("vacuity guard: no specification was searched exhaustively")
    cov = {"states": st["states"] + wst["states"], "transitions": st["transitions"] + wst["transitions"],
           "traces_validated_against_impl": len(wit_cases),
           "samples": [{"sub_block": c["_r"]["raw"].get("original_instrs"), "b0": c["b0"], "bs": c["bs"],
                        "min_length": c["_r"]["raw"].get("min_length"), "true_min_length": minlen.get(c["id"])}
                       for c in small[:3] + small[-2:]],
           "evaluations": len(small) + len(large), "distinct_nontrivial": exhaustive_ok,
           "rule": "one evaluation = one distinct sub-block specification; non-trivial = searched exhaustively within its published bounds "
                   "and a realizing sequence found (true minimum length known)",
           "searched_exhaustively": len([c for c in small if c["id"] in finished]), "exhaustive_goal_found": exhaustive_ok,
           "witness_only": witness_ok, "undecided": undecided, "search_limit_b0": limit, "search_timeouts": st.get("timeouts", 0),
           "driver": cnt, "option_sets": setnames, "violating": len(viol), "exhaustive": False}
    return {"level": "model_checking", "coverage": cov, "violations": out, "wall": time.time() - t0,
            "assumptions": ["specifications with init_progr_len above the search limit are decided only through the greedy witness",
                            "a realizing sequence is a behaviour of spec/SFSMachine.tla ending in Goal"]}
