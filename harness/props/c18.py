"""C18 - formula constructors preserve truth value; the emitted text matches the formula; `==` implies
equal truth value.

(G) TLC (spec/FormulaGen.tla) enumerates / simulates construction scripts; (D) the real add_* functions,
translate_formula and `==` of /repo run on every script in killable workers (harness/worker_c18.py);
(V) TLC (spec/FormulaTrace.tla over Formula.tla and SExpr.tla) evaluates, for every valuation, the
unsimplified call, the returned formula and the formula read back from the text, and prints one VERDICT
line per failing step.  Python only moves data: it lexes the text (harness/sexpr_lex.py) and reads
TLC's verdict lines."""
import concurrent.futures as cf
import json
import os
import sys
import time

sys.path.insert(0, os.path.dirname(os.path.dirname(os.path.abspath(__file__))))
import common
import findings
import pool
import sexpr_lex

JOBS = min(6, common.NCPU)
CONN = {"and": "and", "or": "or", "not": "not", "imp": "=>", "eq": "=", "lt": "<", "le": "<=", "dis": "distinct"}
NONE = {"k": "none", "n": "", "i": 0, "a": []}
SPACE = ("leaves p q true false : Bool, a b 0 1 2 3 f(a) : Int; and/or (1-3 args), not, =>, = (Bool-Bool, Int-Int, "
         "mixed), <, <=, distinct (2-3 Bool or 2-3 Int); every step after the first uses an earlier result")


# --------------------------------------------------------------------------------------------
# (G) scripts

def gen_scripts(minlen, maxlen, chain, stride=1, simulate=None, seed=0, timeout=1800):
    """TLC enumerates (or simulates `simulate` behaviours of) FormulaGen; returns (scripts, TLCResult, total)."""
    w = common.workdir()
    gf = os.path.join(w, "fgen_%s.json" % common.stable_hash([minlen, maxlen, chain, stride, simulate, seed]))
    common.write_json(gf, {"minlen": minlen, "maxlen": maxlen, "chain": chain, "stride": stride})
    extra = []
    if simulate:
        extra = ["-simulate", "num=%d" % simulate, "-depth", "40", "-seed", str(seed + 1)]
    r = common.run_tlc("FormulaGen", "FormulaGen.cfg", {"GEN": gf}, workers=1, timeout=timeout, heap="4g", extra=extra, tag="fgen")
    if not simulate and not r.ok:
        raise common.MachineryError("FormulaGen failed: " + r.out[-1500:])
    seen, out = set(), []
    for t in r.tagged("S"):
        s = [[st[0], list(st[1])] for st in t[1]]
        k = script_text(s)
        if k not in seen:
            seen.add(k)
            out.append(s)
    tot = r.tagged("TOTAL")
    if simulate and len(out) == 0:
        raise common.MachineryError("FormulaGen simulation produced nothing: " + r.out[-1500:])
    return out, r, (tot[0][1] if tot else len(out))


def script_text(script):
    return ";".join("r%d=%s(%s)" % (k, op, ",".join(args)) for k, (op, args) in enumerate(script, 1))


def ast_text(n):
    k = n["k"]
    if k == "bool":
        return "true" if n["i"] == 1 else "false"
    if k == "int":
        return str(n["i"])
    if k in ("bvar", "ivar"):
        return n["n"]
    if k == "iapp":
        return "%s(%s)" % (n["n"], ",".join(ast_text(x) for x in n["a"]))
    if k == "none":
        return "<none%s>" % (":" + n["n"] if n["n"] else "")
    return "%s(%s)" % (k, ",".join(ast_text(x) for x in n["a"]))


# --------------------------------------------------------------------------------------------
# (D) the real calls

def drive(scripts, batch=300, poolcap=200, crosscap=100, timeout=600):
    """Runs every script in worker processes.  Scripts made of the same tokens land in the same batch, so that
    permuted variants are compared with `==` across scripts.  Returns (observations in script order, cross pairs, stats)."""
    order = sorted(range(len(scripts)), key=lambda i: token_key(scripts[i]))
    cmds, chunks = [], []
    for i in range(0, len(order), batch):
        ch = order[i:i + batch]
        chunks.append(ch)
        cmds.append({"cmd": "c18_batch", "scripts": [scripts[j] for j in ch], "pool": poolcap, "crosscap": crosscap})
    res = pool.run_commands([], cmds, nworkers=JOBS, timeout=timeout)
    obs = [None] * len(scripts)
    cross, stats = [], {"batches": len(cmds), "killed": 0, "compared_pairs": 0, "cross_equal": 0, "cross_sent": 0, "calls": 0, "raised": 0}
    for ch, r in zip(chunks, res):
        if r.get("killed") or "worker_exc" in r:
            stats["killed"] += 1
            if "worker_exc" in r:
                raise common.MachineryError("c18 worker failed: %r" % (r["worker_exc"],))
            continue
        for j, o in zip(ch, r["scripts"]):
            obs[j] = o
            stats["calls"] += len(o["steps"])
            stats["raised"] += sum(1 for s in o["steps"] if s["exc"])
        cross += r["cross"]
        stats["compared_pairs"] += r["compared"]
        stats["cross_equal"] += r["cross_equal"]
        stats["cross_sent"] += len(r["cross"])
    return obs, cross, stats


# --------------------------------------------------------------------------------------------
# (V) cases for FormulaTrace

def build_cases(scripts, obs, cross, seen_steps=None, seen_pairs=None):
    """one case per script (+ pseudo-cases holding the cross-script pairs).  A step record identical to one already
    scheduled (same script prefix, same observation) is marked chk = false: it is judged once."""
    cases, meta = [], {}
    seen_steps = set() if seen_steps is None else seen_steps
    seen_pairs = set() if seen_pairs is None else seen_pairs
    for s, o in zip(scripts, obs):
        if o is None:
            continue
        steps = []
        for k, st in enumerate(o["steps"], 1):
            core = {"conn": st["conn"], "args": st["args"], "call": st["call"], "exc": st["exc"], "result": st["result"]}
            h = common.stable_hash([script_text(s[:k]), core, st["text"]])
            chk = h not in seen_steps
            seen_steps.add(h)
            core["toks"] = sexpr_lex.tokens(st["text"]) if chk else {"s": [], "i": []}
            core["chk"] = chk
            steps.append(core)
        eqs = [{"i": e["i"], "j": e["j"], "x": NONE, "y": NONE, "exc": e["exc"]} for e in o["eqs"]]
        cid = len(cases) + 1
        cases.append({"id": cid, "steps": steps, "eqs": eqs})
        meta[cid] = {"script": s, "obs": o}
    pairs = []
    for e in cross:
        h = common.stable_hash([e["x"], e["y"]])
        if h not in seen_pairs:
            seen_pairs.add(h)
            pairs.append({"i": 0, "j": 0, "x": e["x"], "y": e["y"], "exc": e["exc"]})
    for i in range(0, len(pairs), 200):
        cid = len(cases) + 1
        cases.append({"id": cid, "steps": [], "eqs": pairs[i:i + 200]})
        meta[cid] = {"script": None, "pairs": pairs[i:i + 200]}
    return cases, meta, len(pairs)


def validate(cases, per_shard=8000, timeout=3600, tag="ftr"):
    """Returns ({(id, pos): [clause, witness]}, stats) from FormulaTrace."""
    stats = {"states": 0, "transitions": 0, "jvms": 0, "undecided": 0, "steps_judged": 0, "cases_simplified": 0,
             "pairs_judged": 0, "pairs_nonidentical": 0, "steps_deduplicated": 0, "wall": 0.0}
    if not cases:
        return {}, stats
    nsh = max(1, min(len(cases), max(JOBS, (len(cases) + per_shard - 1) // per_shard)))
    shards = common.shard_by_weight(cases, [sum(1 for s in c["steps"] if s["chk"]) + len(c["eqs"]) + 1 for c in cases], nsh)
    envs = []
    for i, sh in enumerate(shards):
        p = os.path.join(common.workdir(), "%s_cases_%d.json" % (tag, i))
        common.write_json(p, {"cases": sh})
        envs.append({"CASES": p})
    results = common.run_tlc_shards("FormulaTrace", "FormulaTrace.cfg", envs, timeout=timeout, jobs=JOBS, tag=tag)
    verdicts = {}
    for r, sh in zip(results, shards):
        cons = r.tagged("CONSUMED")
        if not r.ok or not cons or cons[0][1] != len(sh) or cons[0][2] != len(sh):
            raise common.MachineryError("FormulaTrace run failed or did not consume every case (%r):\n%s" % (cons, r.out[-3000:]))
        t = cons[0]
        for key, v in zip(("undecided", "steps_judged", "cases_simplified", "pairs_judged", "pairs_nonidentical",
                            "steps_deduplicated"), t[3:9]):
            stats[key] += v
        stats["states"] += r.distinct
        stats["transitions"] += r.generated
        stats["jvms"] += 1
        stats["wall"] = max(stats["wall"], r.wall)
        for t in r.tagged("VERDICT"):
            verdicts[(t[1], t[2])] = [t[3], t[4]]
    return verdicts, stats


# --------------------------------------------------------------------------------------------
# violations

def slice_script(script, k):
    """the steps step k depends on (transitively), renumbered: the smallest script that still makes the call of step k"""
    need, todo = set(), [k]
    while todo:
        j = todo.pop()
        if j in need:
            continue
        need.add(j)
        for a in script[j - 1][1]:
            if a.startswith("r") and a[1:].isdigit():
                todo.append(int(a[1:]))
    keep = sorted(need)
    ren = {"r%d" % j: "r%d" % (n + 1) for n, j in enumerate(keep)}
    return [[script[j - 1][0], [ren.get(a, a) for a in script[j - 1][1]]] for j in keep]


def violation_key(clause, call=None, x=None, y=None):
    """stable key of a failing step: the clause and the unsimplified call with the actual argument formulas (not the
    script that produced them).  For a raised exception the arguments are taken as a set (sorted, duplicates merged):
    and(true), and(true,true), and(true,true,true) are one finding."""
    if call is not None:
        args = [ast_text(a) for a in call["a"]]
        if clause == "exception":
            args = sorted(set(args))
        return "%s:%s(%s)" % (clause, call["k"], ",".join(args))
    return "%s:%s" % (clause, "==".join(sorted([ast_text(x), ast_text(y)])))


def collect_violations(verdicts, meta):
    """-> list of violating cases (one per key: the one with the shortest sliced script), hits per key"""
    best, hits = {}, {}
    for (cid, pos), (clause, wit) in sorted(verdicts.items()):
        m = meta[cid]
        if m["script"] is not None and pos <= len(m["obs"]["steps"]):
            st = m["obs"]["steps"][pos - 1]
            sl = slice_script(m["script"], pos)
            d = {"kind": "step", "script": sl, "script_text": script_text(sl), "step": len(sl), "clause": clause, "witness": wit,
                 "call": ast_text(st["call"]), "result": ast_text(st["result"]), "text": st["text"], "exc": st["exc"],
                 "key": violation_key(clause, call=st["call"])}
        elif m["script"] is not None:
            e = m["obs"]["eqs"][pos - len(m["obs"]["steps"]) - 1]
            x, y = m["obs"]["steps"][e["i"] - 1]["result"], m["obs"]["steps"][e["j"] - 1]["result"]
            d = {"kind": "pair", "script": m["script"], "script_text": script_text(m["script"]), "i": e["i"], "j": e["j"],
                 "clause": clause, "witness": wit, "x": ast_text(x), "y": ast_text(y), "key": violation_key(clause, x=x, y=y)}
        else:
            e = m["pairs"][pos - 1]
            d = {"kind": "pair", "script": None, "script_text": "", "clause": clause, "witness": wit, "x": ast_text(e["x"]),
                 "y": ast_text(e["y"]), "xast": e["x"], "yast": e["y"], "key": violation_key(clause, x=e["x"], y=e["y"])}
        hits[d["key"]] = hits.get(d["key"], 0) + 1
        old = best.get(d["key"])
        if old is None or (len(d["script_text"]), d["script_text"]) < (len(old["script_text"]), old["script_text"]):
            best[d["key"]] = d
    return [best[k] for k in sorted(best)], hits


def token_key(s):
    return (sorted(t for op, args in s for t in [op] + args), script_text(s))


def check_scripts(scripts, tag="ftr", seen_steps=None, seen_pairs=None):
    obs, cross, dstats = drive(scripts)
    cases, meta, npairs = build_cases(scripts, obs, cross, seen_steps, seen_pairs)
    verdicts, vstats = validate(cases, tag=tag)
    return obs, cases, meta, verdicts, dstats, vstats


def check_many(scripts, chunk=40000):
    """drive + validate in chunks of the token-sorted order (bounded memory); sums the statistics, merges the violations"""
    order = sorted(scripts, key=token_key)
    seen_steps, seen_pairs = set(), set()
    dtot, vtot, best, hits, samples, validated, nverd = {}, {}, {}, {}, [], 0, 0
    for n, i in enumerate(range(0, len(order), chunk)):
        part = order[i:i + chunk]
        obs, cases, meta, verdicts, ds, vs = check_scripts(part, "ftr%d_" % n, seen_steps, seen_pairs)
        for tot, st in ((dtot, ds), (vtot, vs)):
            for k, v in st.items():
                tot[k] = max(tot.get(k, 0), v) if k == "wall" else tot.get(k, 0) + v
        validated += sum(1 for o in obs if o is not None)
        nverd += len(verdicts)
        viol, h = collect_violations(verdicts, meta)
        for d in viol:
            old = best.get(d["key"])
            if old is None or (len(d["script_text"]), d["script_text"]) < (len(old["script_text"]), old["script_text"]):
                best[d["key"]] = d
        for k, v in h.items():
            hits[k] = hits.get(k, 0) + v
        for j in (0, len(part) // 2, len(part) - 1):
            if obs[j] is not None and len(samples) < 6:
                samples.append(sample(part[j], obs[j]))
    return [best[k] for k in sorted(best)], hits, dtot, vtot, samples, validated, nverd


def sample(s, o):
    return {"script": script_text(s), "calls": [ast_text(st["call"]) for st in o["steps"]],
            "results": [ast_text(st["result"]) if not st["exc"] else "raised " + st["exc"] for st in o["steps"]],
            "rendered": [st["text"] for st in o["steps"]],
            "equal_pairs": [[e["i"], e["j"]] for e in o["eqs"]]}


# --------------------------------------------------------------------------------------------

def run(tier):
    t0 = time.time()
    seed = common.seed()
    stride = 53 if tier == "quick" else 1
    nsim = 2000 if tier == "quick" else 50000
    common.workdir()
    with cf.ThreadPoolExecutor(max_workers=3) as ex:        # three single-worker JVMs side by side
        f1 = ex.submit(gen_scripts, 1, 1, True)
        f2 = ex.submit(gen_scripts, 2, 2, True, stride)
        f3 = ex.submit(gen_scripts, 3, 4, False, 1, nsim, seed)
        (x1, r1, n1), (x2, r2, n2), (sim, r3, _) = f1.result(), f2.result(), f3.result()
    known = set(script_text(s) for s in x1 + x2)
    sim = [s for s in sim if script_text(s) not in known]
    scripts = x1 + x2 + sim
    t1 = time.time()
    viol, hits, dstats, vstats, samples, validated, nverd = check_many(scripts)
    t2 = time.time()
    if vstats["cases_simplified"] == 0 or vstats["steps_judged"] == 0 or vstats["pairs_nonidentical"] == 0:
        raise common.MachineryError("vacuity guard: no simplification fired / no step judged / no non-identical `==` pair (%r)" % (vstats,))
    if dstats["killed"]:
        raise common.MachineryError("%d worker batches were killed; C18 calls are straight-line constructors" % dstats["killed"])
    out = findings.settle("C18", [(d, ("violates", d["clause"], d["witness"])) for d in viol], lambda d: d, lambda d: d["key"])
    cov = {"states": r1.distinct + r2.distinct + vstats["states"], "transitions": r1.generated + r2.generated + r3.generated + vstats["transitions"],
           "traces_validated_against_impl": validated,
           "samples": samples,
           "evaluations": dstats["calls"],
           "distinct_nontrivial": vstats["cases_simplified"],
           "rule": "one evaluation = one real add_* call; a case = one distinct construction script (distinct by its text); "
                   "non-trivial = TLC found a well-sorted call in it whose returned formula differs from the unsimplified call "
                   "(the simplifier fired); counted by FormulaTrace, summed over the shards",
           "exhaustive": True,
           "exhaustive_scope": ("all %d scripts of length 1%s over: %s" % (n1, " and all %d scripts of length 2" % n2 if stride == 1 else "", SPACE))
                               + ("" if stride == 1 else "; of the %d scripts of length 2 every %d-th in TLC's breadth-first order (%d)" % (n2, stride, len(x2)))
                               + "; scripts of length 3-4 (any step, no chaining constraint) are a random sample (TLC -simulate), full depth-4 enumeration is out of reach",
           "scripts": {"length1": len(x1), "length2": len(x2), "length2_space": n2, "simulated_length_3_4": len(sim), "simulated_requested": nsim},
           "valuations": "p,q in BOOLEAN, a,b in -1..4 (144); x3 interpretations of f when f occurs (432)",
           "driver": dstats, "validator": {k: v for k, v in vstats.items()},
           "violating_steps": nverd, "violating_keys": {k: hits[k] for k in sorted(hits)},
           "phases_s": {"generate": round(t1 - t0, 1), "drive+validate": round(t2 - t1, 1)}}
    return {"level": "model_checking", "coverage": cov, "violations": out, "wall": time.time() - t0,
            "assumptions": [
                "ill-sorted calls and pairs (a Bool compared with an Int, e.g. add_eq(True, 1)) have no SMT-LIB meaning: they are counted as undecided and never alarm",
                "a constructor that raises on a well-sorted call is reported (clause exception); on an ill-sorted call it is undecided",
                "the text is lexed by harness/sexpr_lex.py (split at blanks and parentheses, numerals recognised); the term structure, operators and sorts are read by spec/SExpr.tla and all evaluation is done by TLC",
                "integer atoms range over -1..4, constants over 0..3, f over {identity, zero, successor}: every witness is a genuine model; equivalence is established on this range only",
                "only the truth value of the re-read text is compared (the property does not demand the same tree)",
                "violations are keyed by clause and unsimplified call on the actual argument formulas; for exceptions the argument list is taken as a set"]}


def replay(path):
    with open(path) as f:
        rp = json.load(f)
    d = rp["case"]
    if not d.get("script"):
        print("pair %s == %s: %s witness %s (cross-script pair; re-run the tier to reproduce)" % (d["x"], d["y"], d["clause"], d["witness"]))
        return 1
    obs, cases, meta, verdicts, dstats, vstats = check_scripts([d["script"]], tag="rep")
    print("script:", script_text(d["script"]))
    for k, st in enumerate(obs[0]["steps"], 1):
        print("  r%d: call %s -> %s   text %r" % (k, ast_text(st["call"]), ("raised " + st["exc"]) if st["exc"] else ast_text(st["result"]), st["text"]))
    for (cid, pos), v in sorted(verdicts.items()):
        print("  VERDICT step/pair %d: %s witness (p,q,a,b,f | expected, got) %s" % (pos, v[0], v[1]))
    print("undecided: %d" % vstats["undecided"])
    return 1 if verdicts else 0


def selftest():
    """Binding demonstration: record real observations, show FormulaTrace accepts them, then corrupt one recorded field
    at a time and show it rejects each corruption with the expected clause."""
    import copy
    scripts = [[["and", ["p", "q"]], ["not", ["r1"]], ["or", ["r2", "false"]]],
               [["lt", ["a", "1"]], ["imp", ["r1", "q"]]],
               [["and", ["q", "p"]], ["and", ["p", "q"]]]]
    obs, cross, _ = drive(scripts)
    cases, meta, _ = build_cases(scripts, obs, cross)
    base, _ = validate(cases, tag="self0")
    report = [("unchanged records", "no verdict", sorted(base.items()))]
    ok = not base

    def mutate(name, expect, f):
        nonlocal ok
        cs = copy.deepcopy(cases)
        f(cs)
        try:
            v, _ = validate(cs, tag="selfm")
            got = sorted(set(c for c, _ in v.values()))
            wit = sorted(v.items())[:1]
        except common.MachineryError as e:
            got, wit = ["machinery"], [str(e)[:100]]
        report.append((name, expect, got, wit))
        ok = ok and expect in got

    def flip_result(cs):                     # and(p,q) recorded as or(p,q)
        cs[0]["steps"][0]["result"]["k"] = "or"
    mutate("result of and(p,q) recorded as or(p,q)", "simplify", flip_result)

    def flip_text(cs):                       # "(not (and p q))" recorded as "(and p q)"
        cs[0]["steps"][1]["toks"] = sexpr_lex.tokens("(and  p q)")
    mutate("text of not(and(p,q)) recorded as (and p q)", "render", flip_text)

    def break_text(cs):
        cs[1]["steps"][0]["toks"] = sexpr_lex.tokens("(<  a 1")
    mutate("text of <(a,1) recorded without closing parenthesis", "render", break_text)

    def fake_eq(cs):                         # claim r1 == r2 for and(p,q), not(and(p,q))
        cs[0]["eqs"].append({"i": 1, "j": 2, "x": NONE, "y": NONE, "exc": ""})
    mutate("`r1 == r2` recorded for and(p,q) and not(and(p,q))", "equality", fake_eq)

    def stale_arg(cs):                       # the call no longer uses the recorded earlier result
        cs[0]["steps"][1]["call"]["a"][0] = {"k": "bvar", "n": "p", "i": 0, "a": []}
    mutate("argument of step 2 recorded as p instead of r1", "binding", stale_arg)

    def fake_exc(cs):
        cs[1]["steps"][1]["exc"] = "AssertionError: "
    mutate("exception recorded for =>(r1,q)", "exception", fake_exc)

    def drop_case(cs):                       # the validator must consume every case
        cs[1]["eqs"] = [{"i": 1}]
    mutate("a malformed pair record (TLC cannot judge the case: the run must not be accepted)", "machinery", drop_case)
    for r in report:
        print("SELFTEST", r)
    print("SELFTEST", "ok" if ok else "FAILED")
    common.cleanup()
    return 0 if ok else 1


if __name__ == "__main__":
    sys.exit(selftest())
