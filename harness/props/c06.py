"""C06 - every model of the Max-SMT encoding decodes to a realizing sequence; the emitted SMT-LIB is well formed.

(D) harness/smtcorpus.py: the repository's BlockOptimizer / FullEncoding build the problem for every small
specification under a pairwise covering array of the encoder options; /usr/bin/z3 (stand-in, through the
rebound z3_exec) enumerates all models of the hard constraints projected on t_j; the repository's own model
reader decodes each one.  (V) TLC: spec/SFSTrace.tla validates every decoded sequence as a behaviour of
SFSMachine ending in Goal within init_progr_len and max_sk_sz; spec/SmtLib.tla checks declarations and sorts
of the emitted text."""
import time

import common
import findings
import sfsproj
import sfsrun
import smtcorpus
import smtparse
import os


def run_smtlib(cases, tag="smtlib"):
    if not cases:
        return {}, {"states": 0, "transitions": 0}
    shards = common.shard_by_weight(cases, [len(c["asserts"]) + 5 for c in cases], min(len(cases), common.NCPU))
    envs = []
    for i, sh in enumerate(shards):
        p = os.path.join(common.workdir(), "%s_%d.json" % (tag, i))
        common.write_json(p, {"cases": sh})
        envs.append({"CASES": p})
    results = common.run_tlc_shards("SmtLib", "SmtLib.cfg", envs, timeout=1800, tag=tag)
    verdicts, st = {}, {"states": 0, "transitions": 0}
    for r, sh in zip(results, shards):
        if not r.ok:
            raise common.MachineryError("SmtLib TLC run failed:\n" + r.out[-2000:])
        cons = r.tagged("CONSUMED")
        if not cons or cons[0][1] != len(sh):
            raise common.MachineryError("SmtLib did not consume every case")
        st["states"] += r.distinct
        st["transitions"] += r.generated
        for t in r.tagged("VERDICT"):
            verdicts[t[1]] = t[3]
    return verdicts, st


def run(tier):
    t0 = time.time()
    recs, cnt, setnames = smtcorpus.collect(tier)
    traces, texts, viol = [], [], []
    seen_text = {}
    for r in recs:
        smt = r["smt"]
        if "exc" in smt and smt.get("stage") == "encode":
            continue
        ps = sfsproj.proj_sfs(r["sfs"])
        for m in smt.get("models", []):
            traces.append({"id": len(traces) + 1, "sfs": ps, "ids": sfsproj.proj_ids(m), "maxlen": ps["b0"], "maxstack": ps["bs"],
                           "_r": r, "_m": m})
        if smt.get("smt2"):
            h = common.stable_hash(smt["smt2"])
            if h not in seen_text:
                seen_text[h] = True
                pj = smtparse.project(smt["smt2"])
                texts.append({"id": len(texts) + 1, "sorts": pj["sorts"], "decls": pj["decls"], "asserts": pj["asserts"], "softs": pj["softs"],
                              "_r": r, "_other": pj["other"]})
        if smt.get("solver_errors"):
            viol.append(({"block": r["block"], "options": " ".join(r["argv"][4:]), "what": smt["solver_errors"][:2], "clause": "solver rejects"},
                         ("violates", "solver rejects the emitted text", 0)))
    tv, tst = sfsrun.run_traces([{k: v for k, v in c.items() if not k.startswith("_")} for c in traces], tag="c06")
    sv, sst = run_smtlib([{k: v for k, v in c.items() if not k.startswith("_")} for c in texts])
    for c in traces:
        if c["id"] in tv:
            r = c["_r"]
            viol.append(({"block": r["block"], "sub": r["sfs"].get("original_instrs"), "options": " ".join(r["argv"][4:]), "model": c["_m"],
                          "clause": tv[c["id"]][1]}, ("violates", tv[c["id"]][1], tv[c["id"]][0])))
    for c in texts:
        if c["id"] in sv:
            r = c["_r"]
            viol.append(({"block": r["block"], "sub": r["sfs"].get("original_instrs"), "options": " ".join(r["argv"][4:]), "clause": "smtlib: " + sv[c["id"]]},
                         ("violates", "smtlib: " + sv[c["id"]], 0)))

    def keys(d):
        opts = d.get("options", "")
        ks = ["%s | %s | %s" % (d.get("sub", d.get("block")), opts, d.get("clause", d.get("what")))]
        cl = str(d.get("clause", ""))
        for flag in ("-push-basic", "-pop-uninterpreted", "-empty", "l_vars"):
            if flag in opts:
                ks.append("%s|%s" % (flag, cl.split(":")[0]))
        return ks
    out = findings.settle("C06", viol, lambda d: dict(d, key=keys(d)[0]), keys)
    multi = len({c["_r"]["name"] + c["_r"]["block"] + " ".join(c["_r"]["argv"]) for c in traces}) if traces else 0
    if not traces:
        raise common.MachineryError("vacuity guard: no model was enumerated")
    cov = {"states": tst["states"] + sst["states"], "transitions": tst["transitions"] + sst["transitions"],
           "traces_validated_against_impl": len(traces),
           "samples": [{"sub_block": c["_r"]["sfs"].get("original_instrs"), "options": " ".join(c["_r"]["argv"][4:]), "model": c["_m"]}
                       for c in traces[:3] + traces[-2:]],
           "evaluations": cnt["encoded"], "distinct_nontrivial": multi,
           "rule": "one evaluation = one (specification, encoder option set) problem built by the real encoder; non-trivial = satisfiable, "
                   "with every enumerated model validated; traces = decoded models",
           "smt2_files_checked": len(texts), "driver": cnt, "option_sets": setnames, "violating": len(viol),
           "model_cap_hits": cnt["encoded"] - cnt["complete"], "exhaustive": False}
    return {"level": "model_checking", "coverage": cov, "violations": out, "wall": time.time() - t0,
            "assumptions": ["z3 4.8.12 stands in for the Max-SMT solver; it only finds assignments, TLC judges them",
                            "model enumeration is capped per instance; instances that hit the cap are only partially enumerated",
                            "specifications with init_progr_len above the bound are not encoded here"]}
