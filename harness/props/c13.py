"""C13 - determinism: two runs on the same input with the same options give identical specifications
(identifiers included), greedy sequences and output files, whatever the process, the temporary directory,
the string-hash seed and the machine load.

(G) inputs: TLC-generated memory-heavy blocks (spec/SeqGen.tla over gen.mem_vocab, where the dependency code
    iterates over sets), the hand-written blocks, a seeded sample of real blocks; whole example files.
(D) every (input list, option set) is run in separate processes with PYTHONHASHSEED 0 (reference), 1, 2,
    random, and 3 under background CPU load pinned to the same CPU; each process has its own scratch
    directory and its own /tmp/gasol_<uuid>.  worker_c12.py `events` records one event list per input.
    Whole files are run through the real command line (gasol_asm.py ... -greedy -o .. -csv ..) and the
    bytes of the output file are hashed.
(V) spec/Lockstep.tla walks every run against the reference run event for event and reports the first
    difference (position and component).
The quantifier over seeds and processes is enumerated, not explored: TLC's part is equality over recorded
traces (DESIGN.md section 9)."""
import csv
import hashlib
import io
import json
import os
import resource
import subprocess
import sys
import threading
import time

if __name__ == "__main__":
    _h = os.path.dirname(os.path.dirname(os.path.abspath(__file__)))
    sys.path[:0] = [_h, os.path.join(_h, "props")]

import common
import corpus
import findings
import gen
import pool

JOBS = min(common.NCPU, int(os.environ.get("VERIF_C13_JOBS", "5")))
OPTSETS = {"greedy": ["-greedy"], "storage": ["-greedy", "-storage"], "partition": ["-greedy", "-partition"],
           "size": ["-greedy", "-size"], "norules": ["-greedy", "-no-simplification"], "encoding": ["-backend", "-solver", "z3"]}
TIERS = {"quick": {"optsets": ["greedy", "storage", "encoding"], "sim": (120, 7), "real": 120, "files": 1, "enc_limit": 150},
         "thorough": {"optsets": ["greedy", "storage", "partition", "size", "norules", "encoding"], "sim": (600, 8), "real": 1200, "files": 4,
                      "enc_limit": 1000}}
VARIANTS = [("seed0", {"PYTHONHASHSEED": "0"}, False), ("seed1", {"PYTHONHASHSEED": "1"}, False),
            ("seed2", {"PYTHONHASHSEED": "2"}, False), ("random", {"PYTHONHASHSEED": "random"}, False),
            ("seed3+load", {"PYTHONHASHSEED": "3"}, True)]
BATCH = 60
TIME_COLUMNS = ("solver_time_in_sec",)


# ---------------------------------------------------------------------------------------------
# inputs

def build_inputs(tier, seed):
    cfg = TIERS[tier]
    n, depth = cfg["sim"]
    mem = []
    for v, share in ((gen.mem_vocab(), 0.5), (gen.mem_vocab(small=True) + gen.sto_vocab(), 0.5)):
        b, _ = gen.enumerate_blocks(v, [["*"] * (depth - 1)], 5, simulate=(int(n * share), depth), seed=seed)
        mem += b
    hand = corpus.hand_blocks()
    # constants whose folding does not terminate are the business of C10, not of this property
    hand = [t for t in hand if not any(k in t for k in (" SAR", " EXP"))]
    real = corpus.sample(corpus.real_blocks(limit_files=None if tier == "thorough" else 8), cfg["real"], seed)
    inputs = [{"text": t, "grp": "mem"} for t in mem] + [{"text": t, "grp": "hand"} for t in hand] + \
             [{"items": b["items"], "grp": "real", "src": b["src"]} for b in real]
    return inputs, {"mem": len(mem), "hand": len(hand), "real": len(real)}


# ---------------------------------------------------------------------------------------------
# (D) blocks

class Load:
    """a few busy loops pinned to one CPU for the duration of a run (modest: 2 processes)"""

    def __init__(self, cpu):
        self.cpu, self.ps = cpu, []

    def __enter__(self):
        for _ in range(2):
            p = subprocess.Popen([sys.executable, "-c", "while True: pass"], stdout=subprocess.DEVNULL, stderr=subprocess.DEVNULL)
            try:
                os.sched_setaffinity(p.pid, {self.cpu})
            except OSError:
                pass
            self.ps.append(p)
        return self

    def __exit__(self, *a):
        for p in self.ps:
            p.kill()
            p.wait()


def drive_blocks(inputs, optsets, enc_limit, variants=VARIANTS):
    """returns {(optset, variant label): [per input {"events", "memops", "deps"} | None]} and process info"""
    out, info, errors = {}, {}, []
    jobs = [(o, v) for o in optsets for v in variants]
    lock = threading.Lock()
    it = iter(jobs)
    cpus = sorted(os.sched_getaffinity(0))

    def loop(slot):
        while True:
            with lock:
                job = next(it, None)
            if job is None:
                return
            o, (label, env, load) = job
            ins = inputs[:enc_limit] if o == "encoding" else inputs
            w = pool.Worker(OPTSETS[o], env=env)
            res = []
            try:
                w.start()
                ctx = None
                if load:
                    cpu = cpus[(slot * 3 + 1) % len(cpus)]
                    try:
                        os.sched_setaffinity(w.p.pid, {cpu})
                    except OSError:
                        pass
                    ctx = Load(cpu)
                    ctx.__enter__()
                try:
                    meta = None
                    for i in range(0, len(ins), BATCH):
                        part = [{k: v for k, v in x.items() if k in ("text", "items")} for x in ins[i:i + BATCH]]
                        r = w.call({"cmd": "events", "inputs": part}, timeout=20 * len(part) + 60)
                        if r.get("killed") or "inputs" not in r:
                            # a killed batch is an observation of C10; the whole batch is undecided here and the
                            # process is restarted (the rest of this run then has a shorter history in this variant:
                            # such runs are dropped from the comparison, see below)
                            res += [None] * len(part)
                            with lock:
                                errors.append("%s/%s batch %d: %r" % (o, label, i, {k: r.get(k) for k in ("killed", "why", "worker_exc")}))
                            break
                        res += r["inputs"]
                        meta = {k: r.get(k) for k in ("hashseed", "gasol_path", "cwd", "str_hash")}
                    res += [None] * (len(ins) - len(res))
                finally:
                    if ctx:
                        ctx.__exit__()
                with lock:
                    out[(o, label)] = res
                    info[(o, label)] = meta
            except Exception as e:      # noqa
                with lock:
                    errors.append("%s/%s: %s: %s" % (o, label, type(e).__name__, e))
            finally:
                w.close()

    ts = [threading.Thread(target=loop, args=(k,)) for k in range(max(1, min(JOBS, len(jobs))))]
    for t in ts:
        t.start()
    for t in ts:
        t.join()
    return out, info, errors


# ---------------------------------------------------------------------------------------------
# (D) whole files through the command line

def _limits():
    os.setsid()
    resource.setrlimit(resource.RLIMIT_AS, (4 * 1024 ** 3,) * 2)


def _csv_hash(path):
    if not os.path.exists(path):
        return "absent"
    with open(path, newline="") as f:
        rows = list(csv.reader(f))
    if not rows:
        return "empty"
    drop = {i for i, h in enumerate(rows[0]) if h in TIME_COLUMNS}
    txt = "\n".join(",".join(c for i, c in enumerate(r) if i not in drop) for r in rows)
    return hashlib.sha256(txt.encode()).hexdigest()[:16]


def run_cli(path, label, env, tag, argv=("-greedy",), timeout=1500):
    d = os.path.join(common.workdir(), "cli_%s_%s" % (tag, label.replace("+", "_")))
    os.makedirs(d, exist_ok=True)
    e = dict(os.environ)
    e.update(env)
    out, seq, blk = os.path.join(d, "out.json_solc"), os.path.join(d, "seq.csv"), os.path.join(d, "blocks.csv")
    cmd = [common.VENV_PY, os.path.join(common.REPO, "gasol_asm.py"), path] + list(argv) + ["-o", out, "-csv", seq, "-block-csv", blk]
    t0 = time.time()
    try:
        p = subprocess.run(cmd, cwd=d, env=e, stdout=subprocess.DEVNULL, stderr=subprocess.DEVNULL, timeout=timeout, preexec_fn=_limits)
        rc = p.returncode
    except subprocess.TimeoutExpired:
        return None, time.time() - t0
    ev = [{"k": "exit", "b": 0, "v": str(rc)}]
    if os.path.exists(out):
        with open(out, "rb") as f:
            data = f.read()
        try:
            canon = hashlib.sha256(json.dumps(json.loads(data), sort_keys=True).encode()).hexdigest()[:16]
        except ValueError:
            canon = "not json"
        ev.append({"k": "file_content", "b": 0, "v": canon})
        ev.append({"k": "file_bytes", "b": 0, "v": hashlib.sha256(data).hexdigest()[:16] + ":%d" % len(data)})
    else:
        ev.append({"k": "file_content", "b": 0, "v": "absent"})
    ev.append({"k": "seq_csv", "b": 0, "v": _csv_hash(seq)})
    ev.append({"k": "blocks_csv", "b": 0, "v": _csv_hash(blk)})
    ev.append({"k": "cwd_files", "b": 0, "v": ",".join(sorted(os.listdir(d)))})
    return ev, time.time() - t0


def drive_files(files, variants):
    res, lock = {}, threading.Lock()
    jobs = [(f, v) for f in files for v in variants]
    it = iter(jobs)

    def loop():
        while True:
            with lock:
                job = next(it, None)
            if job is None:
                return
            f, (label, env, load) = job
            ev, wall = run_cli(f, label, env, os.path.basename(f)[:10])
            with lock:
                res[(f, label)] = (ev, wall)

    ts = [threading.Thread(target=loop) for _ in range(max(1, min(JOBS, len(jobs))))]
    for t in ts:
        t.start()
    for t in ts:
        t.join()
    return res


# ---------------------------------------------------------------------------------------------
# (V)

def validate(cases, tag="ls"):
    if not cases:
        return {}, {"states": 0, "transitions": 0, "jvms": 0}
    shards = common.shard_by_weight(cases, [sum(len(r["events"]) for r in c["runs"]) + 1 for c in cases], min(len(cases), JOBS))
    envs = []
    for i, sh in enumerate(shards):
        p = os.path.join(common.workdir(), "%s_cases_%d.json" % (tag, i))
        common.write_json(p, {"cases": sh})
        envs.append({"CASES": p})
    results = common.run_tlc_shards("Lockstep", "Lockstep.cfg", envs, jobs=JOBS, tag=tag)
    verdicts, st = {}, {"states": 0, "transitions": 0, "jvms": len(results), "run_pairs": 0}
    for r, sh in zip(results, shards):
        cons = r.tagged("CONSUMED")
        if not r.ok or not cons or cons[0][1] != len(sh):
            raise common.MachineryError("Lockstep did not consume every case: %r\n%s" % (cons, r.out[-2000:]))
        st["states"] += r.distinct
        st["transitions"] += r.generated
        st["run_pairs"] += cons[0][3]
        for t in r.tagged("VERDICT"):
            verdicts.setdefault(t[1], []).append({"ref": t[2], "run": t[3], "pos": t[4], "component": t[5]})
    return verdicts, st


def input_text(x):
    return x["text"] if "text" in x else " ".join(("%s %s" % (it["name"], it["value"])) if "value" in it else it["name"] for it in x["items"])


def run(tier):
    t0 = time.time()
    seed = common.seed()
    cfg = TIERS[tier]
    inputs, gstats = build_inputs(tier, seed)
    files = sorted(corpus.example_files(), key=os.path.getsize)
    # the smallest file has one tiny contract; take it and then files of moderate size
    files = files[:1] + files[2:2 + cfg["files"] - 1] if cfg["files"] > 1 else files[1:2]
    file_variants = [v for v in VARIANTS if not v[2]]
    fres = {}
    ft = threading.Thread(target=lambda: fres.update(drive_files(files, file_variants)))
    ft.start()
    out, info, errors = drive_blocks(inputs, cfg["optsets"], cfg["enc_limit"])
    ft.join()
    t_drive = time.time() - t0

    cases, meta, undecided = [], {}, 0
    guard_mem = 0
    for o in cfg["optsets"]:
        ref = out.get((o, VARIANTS[0][0]))
        if ref is None:
            raise common.MachineryError("C13: reference run of %s failed: %r" % (o, errors[:3]))
        for i, x in enumerate(inputs[:len(ref)]):
            if ref[i] is None:
                undecided += 1
                continue
            runs = [{"label": VARIANTS[0][0], "events": ref[i]["events"]}]
            for label, _, _ in VARIANTS[1:]:
                r = out.get((o, label))
                if r is None or i >= len(r) or r[i] is None:
                    undecided += 1
                    continue
                runs.append({"label": label, "events": r[i]["events"]})
            if len(runs) < 2:
                continue
            cid = len(cases) + 1
            cases.append({"id": cid, "runs": runs})
            meta[cid] = {"kind": "block", "optset": o, "input": x, "memops": ref[i]["memops"], "deps": ref[i]["deps"]}
            if o != "encoding" and ref[i]["memops"] >= 3 and ref[i]["deps"] >= 1:
                guard_mem += 1
    nfile_runs = 0
    for f in files:
        ref = fres.get((f, VARIANTS[0][0]), (None, 0))[0]
        if ref is None:
            undecided += 1
            continue
        runs = [{"label": VARIANTS[0][0], "events": ref}]
        for label, _, _ in file_variants[1:]:
            ev = fres.get((f, label), (None, 0))[0]
            if ev is None:
                undecided += 1
                continue
            runs.append({"label": label, "events": ev})
        nfile_runs += len(runs)
        cid = len(cases) + 1
        cases.append({"id": cid, "runs": runs})
        meta[cid] = {"kind": "file", "optset": "greedy", "file": os.path.basename(f)}

    verdicts, st = validate(cases)
    viol = []
    for cid, vs in sorted(verdicts.items()):
        m = meta[cid]
        comp = sorted({v["component"] for v in vs})
        c = {"kind": m["kind"], "optset": m["optset"], "options": OPTSETS[m["optset"]], "differences": vs, "components": comp,
             "runs": next(x for x in cases if x["id"] == cid)["runs"]}
        if m["kind"] == "block":
            c["input"] = {k: v for k, v in m["input"].items() if k in ("text", "items")}
            c["input_text"] = input_text(m["input"])
            c["group"] = m["input"]["grp"]
        else:
            c["file"] = m["file"]
        viol.append((c, ("violates", comp, vs[0]["pos"])))
    res = findings.settle("C13", viol, lambda c: c, keysf=keys_of)

    # guards
    hashes = {v: (info.get((cfg["optsets"][0], v)) or {}).get("str_hash") for v, _, _ in VARIANTS}
    if len(set(hashes.values())) < 3:
        raise common.MachineryError("vacuity guard: the hash seeds did not take effect: %r" % hashes)
    tmpdirs = {(info.get((o, v)) or {}).get("gasol_path") for o in cfg["optsets"] for v, _, _ in VARIANTS}
    if guard_mem == 0:
        raise common.MachineryError("vacuity guard: no input with >= 3 memory operations and a dependency")
    if nfile_runs < 2:
        raise common.MachineryError("vacuity guard: no whole-file run pair was compared (%r)" % {k: v[1] for k, v in fres.items()})
    nruns = sum(len(c["runs"]) for c in cases)
    nontrivial = len({(meta[c["id"]]["optset"], input_text(meta[c["id"]]["input"])) for c in cases
                      if meta[c["id"]]["kind"] == "block" and meta[c["id"]]["memops"] >= 2})
    samples = []
    for c in cases[:2] + cases[-1:]:
        m = meta[c["id"]]
        samples.append({"input": input_text(m["input"])[:300] if m["kind"] == "block" else m["file"], "options": OPTSETS[m["optset"]],
                        "runs": [r["label"] for r in c["runs"]], "events_reference_run": c["runs"][0]["events"][:6]})
    cov = {"states": st["states"], "transitions": st["transitions"], "traces_validated_against_impl": nruns, "samples": samples,
           "evaluations": nruns, "distinct_nontrivial": nontrivial,
           "rule": "one evaluation = one run of one input in one process environment; a case = all runs of one (input, option set); "
                   "distinct_nontrivial = distinct (option set, block) with at least 2 memory/storage operations in the specification",
           "cases": len(cases), "run_pairs_compared": st["run_pairs"], "corpus": gstats, "option_sets": {o: OPTSETS[o] for o in cfg["optsets"]},
           "environments": [v for v, _, _ in VARIANTS], "str_hash_per_environment": hashes, "distinct_tmp_dirs": len(tmpdirs),
           "whole_files": [os.path.basename(f) for f in files], "whole_file_runs": nfile_runs,
           "whole_file_wall_s": {"%s/%s" % (os.path.basename(k[0])[:12], k[1]): round(v[1], 1) for k, v in fres.items()},
           "inputs_with_3_memops_and_dependency": guard_mem, "undecided": undecided, "killed_batches": errors[:5],
           "violating_cases": len(viol), "drive_wall_s": round(t_drive, 1), "exhaustive": False}
    return {"level": "model_checking", "coverage": cov, "violations": res, "wall": time.time() - t0,
            "level_note": "thin TLA+ layer: TLC compares recorded traces event by event (one state per compared event) and names the first "
                          "difference; seeds, processes and load are enumerated by the harness, there is no state space to explore",
            "assumptions": [
                "the quantifier over PYTHONHASHSEED and process instances is sampled: seeds 0, 1, 2, one random seed, and seed 3 under background "
                "CPU load pinned to the same CPU; every process has its own scratch directory and its own /tmp/gasol_<uuid>",
                "all runs of one option set process the same inputs in the same order (the same history, cf. C12)",
                "specifications are compared as canonical JSON text (keys sorted, list order kept) with identifiers; the order of dictionary "
                "keys is recorded as a separate event (sfs_keyorder) because it reaches the output files",
                "statistics are compared without solver_time_in_sec; output files of whole-file runs byte for byte",
                "whole-file runs use the real command line with -greedy; the Max-SMT path is not run (no OptiMathSAT), its encoding files are "
                "compared under -backend -solver z3",
                "a batch killed for exceeding its budget is undecided here (termination is C10)"]}


def keys_of(c):
    comp = ",".join(c["components"])
    what = c["input_text"] if c["kind"] == "block" else c["file"]
    return ["%s|%s|%s" % (c["optset"], comp, what), "%s|%s" % (comp, what), comp]


# ---------------------------------------------------------------------------------------------

def replay(path):
    with open(path) as f:
        rep = json.load(f)
    c = rep["case"]
    if c["kind"] == "file":
        f = [x for x in corpus.example_files() if os.path.basename(x) == c["file"]][0]
        fres = drive_files([f], [v for v in VARIANTS if not v[2]])
        runs = [{"label": l, "events": ev[0]} for (ff, l), ev in sorted(fres.items()) if ev[0] is not None]
        runs.sort(key=lambda r: r["label"] != "seed0")
    else:
        out, info, errors = drive_blocks([c["input"]], [c["optset"]], 10)
        runs = [{"label": l, "events": out[(c["optset"], l)][0]["events"]} for l, _, _ in VARIANTS if out.get((c["optset"], l)) and out[(c["optset"], l)][0]]
        print("input:", c["input_text"])
    print("options:", c["options"])
    verdicts, _ = validate([{"id": 1, "runs": runs}], tag="lsrep")
    for r in runs:
        print("run", r["label"])
        for i, e in enumerate(r["events"]):
            print("   %2d %-14s b%d %s" % (i + 1, e["k"], e["b"], e["v"][:100]))
    for v in verdicts.get(1, []):
        print("VERDICT", v)
    common.cleanup()
    return 1 if verdicts else 0


def selftest():
    """trace corruption: Lockstep accepts recorded runs and rejects a corrupted copy at the corrupted position"""
    import copy
    text = "PUSH 0 MLOAD PUSH 20 MSTORE PUSH 0 MLOAD PUSH 1 ADD PUSH 0 MSTORE PUSH 20 MLOAD"
    out, info, errors = drive_blocks([{"text": text}], ["greedy"], 10, variants=VARIANTS[:2])
    runs = [{"label": l, "events": out[("greedy", l)][0]["events"]} for l, _, _ in VARIANTS[:2]]
    good = {"id": 1, "runs": runs}
    cases, expect = [good], {1: ("recorded runs (seed 0, seed 1) of a memory block", None)}

    def corrupt(what, fn, exp):
        c = copy.deepcopy(good)
        c["id"] = len(cases) + 1
        fn(c["runs"][1]["events"])
        cases.append(c)
        expect[c["id"]] = (what, exp)

    kinds = [e["k"] for e in runs[0]["events"]]
    i_sfs, i_gr = kinds.index("sfs"), kinds.index("greedy")

    def f1(ev):
        ev[i_sfs]["v"] = ("0" if ev[i_sfs]["v"][0] != "0" else "1") + ev[i_sfs]["v"][1:]

    def f2(ev):
        ev[i_gr]["v"] = ev[i_gr]["v"].replace("MSTORE_0", "MSTORE_1", 1)

    def f3(ev):
        ev.pop()

    def f4(ev):
        ev[0], ev[1] = ev[1], ev[0]

    corrupt("one character of the specification hash of the second run changed", f1, (i_sfs + 1, "sfs"))
    corrupt("an identifier in the greedy sequence of the second run renamed", f2, (i_gr + 1, "greedy"))
    corrupt("last event of the second run dropped", f3, (len(kinds), "length"))
    corrupt("first two events of the second run swapped", f4, (1, "kind"))
    verdicts, _ = validate(cases, tag="lsself")
    ok = True
    for cid in sorted(expect):
        what, exp = expect[cid]
        got = [(v["pos"], v["component"]) for v in verdicts.get(cid, [])]
        print("%-75s %s %s" % (what, "REJECTED" if got else "accepted", got))
        ok = ok and (got == ([exp] if exp else []))
    print("selftest:", "ok" if ok else "FAILED")
    common.cleanup()
    return 0 if ok else 1


if __name__ == "__main__":
    if len(sys.argv) > 1 and sys.argv[1] == "selftest":
        sys.exit(selftest())
    print("usage: c13.py selftest   (the check itself: bin/check C13 --tier quick|thorough)")
