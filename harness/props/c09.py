"""C09 - non-optimizable code and metadata are preserved; emitted items are well formed.

(G) spec/SkeletonGen.tla enumerates document shapes, spec/SeqGen.tla block bodies (pseudo-pushes next to
    fragments the optimizer rewrites, split instructions, stores); harness/skeldoc.py splices the bodies
    between tags and jumps/terminals; plus the shipped examples.
(D) the REAL command line tool (`gasol_asm.py <file> -greedy ...`) runs on every whole file; the emitted
    file is read with the plain json module and, in a worker, with the tool's own parser.
(V) spec/SkeletonTrace.tla (over Skeleton.tla / AsmDoc.tla) decides: metadata equal, skeleton of every
    instruction stream equal, every emitted item well formed, the tool's parser re-reads the file to the
    same document."""
import json
import os
import random
import sys
import time

sys.path.insert(0, os.path.join(os.path.dirname(os.path.abspath(__file__)), ".."))
import asmdoc
import common
import corpus
import findings
import gen
import pool
import skeldoc

ASSUMPTIONS = [
    "an item of an emitted block counts as emitted by the optimizer when it is not, with all its fields, an item of the corresponding input block",
    "blocks are delimited by skeleton items only (tag starts, jump/terminal ends, empty blocks allowed), so blocks of input and output correspond whenever the skeletons agree",
    "canonical hex = hex digits of either case, no 0x, no leading zero except the single digit 0, at most 64 digits",
    "an opcode name that already occurs in the input block is accepted as known (the vocabulary of EVM.tla is not all of the EVM)",
    "real value of an operand: tags decimal numerals, PUSH [$] / PUSH #[$] / PUSH data hexadecimal numerals (compared as numbers), PUSHLIB / PUSHIMMUTABLE names (compared as text)",
    "under -storage stores belong to the skeleton; under the default policy and -partition they lie inside optimizable segments",
    "a contract written {\"asm\": null} and one written {} both count as 'without asm'",
    "re-parse equality is judged on documents: parse_asm(emitted).to_json() = emitted, up to the documented PUSH 0 / PUSH0 spelling",
    "a run that ends without an emitted file (uncaught exception, C10) is undecided here, never a C09 violation",
]


# ---------------------------------------------------------------------------------------------
# generate

def gen_bodies(tier, seed):
    v = skeldoc.body_vocab()
    stats = {}
    if tier == "quick":
        b12, r1 = gen.enumerate_blocks(v, [["*"], ["P", "*"], ["*", "P"], ["S", "*"], ["*", "S"]], 6)
        long_, r2 = gen.enumerate_blocks(v, [["*"] * 7], 8, simulate=(100, 8), seed=seed)
        rs = [r1, r2]
        bodies = corpus.sample(b12, 700, seed) + long_
        stats.update({"len<=2": len(b12), "simulated": len(long_)})
    else:
        b12, r1 = gen.enumerate_blocks(v, [["*"], ["*", "*"]], 6)
        b3, r2 = gen.enumerate_blocks(v, [["P", "S", "*"], ["P", "*", "S"], ["*", "P", "S"], ["S", "P", "P"]], 6)
        long_ = []
        rs = [r1, r2]
        for depth in (6, 10, 16):
            b, r = gen.enumerate_blocks(v, [["*"] * (depth - 1)], 8, simulate=(400, depth), seed=seed + depth)
            long_ += b
            rs.append(r)
        bodies = b12 + corpus.sample(b3, 6000, seed) + long_
        stats.update({"len<=2": len(b12), "len3": len(b3), "simulated": len(long_)})
    seen, out = set(), []
    for b in bodies:
        if b not in seen:
            seen.add(b)
            out.append(b)
    stats["bodies"] = len(out)
    return out, rs, stats


def synth_job(label, sh, o, bodies):
    d = os.path.join(common.workdir(), "c09_" + label)
    os.makedirs(d, exist_ok=True)
    path = os.path.join(d, label + ".json_solc")
    common.write_json(path, skeldoc.build_doc(sh, bodies))
    return {"kind": "synth", "input": path, "argv": o["argv"], "dir": d, "opt": o, "shape": sh, "nbodies": len(bodies),
            "bodies": bodies, "label": label}


def plan(tier, seed):
    """-> (jobs, stats, generator TLC results).  A job = one run of the command line tool."""
    w = common.workdir()
    rnd = random.Random(seed)
    sets = skeldoc.optsets()
    byname = {o["name"]: o for o in sets}
    shapes, rsh = skeldoc.gen_shapes()
    bodies, rgen, bstats = gen_bodies(tier, seed)
    per_doc = 80 if tier == "quick" else 150
    rnd.shuffle(bodies)
    chunks = [bodies[i:i + per_doc] for i in range(0, len(bodies), per_doc)]
    # every chunk under the three split policies; criterion and PUSH0 rotate
    groups = []
    for i, ch in enumerate(chunks):
        for j, (pn, _) in enumerate(skeldoc.POLICIES):
            cn = skeldoc.CRITERIA[(i + j) % 3][0]
            zn = skeldoc.PUSH0[(i + j // 2 + i // 3) % 2][0]
            groups.append((byname["greedy-%s-%s-push0%s" % (pn, cn, zn)], ch))
    use = skeldoc.cover_shapes(shapes, len(groups), seed)
    jobs = [synth_job("synth%d" % k, use[k % len(use)], o, bs) for k, (o, bs) in enumerate(groups)]
    files = corpus.example_files()
    if tier == "quick":
        small = sorted(files, key=os.path.getsize)
        real = [(small[0], byname["greedy-default-gas-push0on"]), (small[1], byname["greedy-storage-size-push0off"]),
                (small[2], byname["greedy-partition-length-push0on"])]
    else:
        real = []
        for i, f in enumerate(files):
            for j, (pn, _) in enumerate(skeldoc.POLICIES):
                real.append((f, byname["greedy-%s-%s-push0%s" % (pn, skeldoc.CRITERIA[(i + j) % 3][0], skeldoc.PUSH0[(i + j) % 2][0])]))
    for k, (f, o) in enumerate(real):
        d = os.path.join(w, "c09_r%d" % k)
        jobs.append({"kind": "real", "input": f, "argv": o["argv"], "dir": d, "opt": o, "shape": None, "nbodies": 0,
                     "bodies": [], "label": os.path.basename(f)[:14]})
    stats = dict(bstats)
    stats.update({"shapes_all": len(shapes), "shapes_used": len({json.dumps(j["shape"], sort_keys=True) for j in jobs if j["shape"]}),
                  "synth_docs": len(groups), "real_runs": len(real), "shape_values_missing": skeldoc.shape_coverage([j["shape"] for j in jobs if j["shape"]], shapes)})
    return jobs, stats, [rsh] + rgen


# ---------------------------------------------------------------------------------------------
# drive

MAXDIFFS = 3000


def alone(job):
    """the bodies of a document run one by one through the worker command `opt` under the document's option set:
    -> (bodies that come back, [set-aside records of those that raise or hang])"""
    cmds = []
    for b in job["bodies"]:
        p = skeldoc.Pos()
        cmds.append({"cmd": "opt", "items": [p.item("tag", "1"), p.item("JUMPDEST")] + skeldoc.text_items(p, b) + [p.item("STOP")]})
    rs = pool.run_commands(job["argv"], cmds, 1, 30)
    good, bad = [], []
    for b, r in zip(job["bodies"], rs):
        exc = next((x for x in r.get("blocks", []) if "exc" in x), None)
        if r.get("killed") or "worker_exc" in r or exc:
            bad.append({"body": b, "options": job["opt"]["name"],
                        "why": "killed" if r.get("killed") else "%s in %s" % (exc["exc"]["type"], exc.get("stage")) if exc else "worker"})
        else:
            good.append(b)
    return good, bad
SHARD_BYTES = 12 * 1024 * 1024          # JSON handed to one TLC JVM


def drive(jobs, tier):
    """-> (jobs, results, set-aside bodies).  A synthesized document whose run ends without an emitted file (an exception
    outside the tool's per-block handling or a hang: C10's subject) is split in two halves that are run again, until
    the bodies that take a whole run with them are isolated; those are set aside (counted, never judged)."""
    timeout = 240 if tier == "quick" else 900
    jobs = list(jobs)
    res = [None] * len(jobs)
    todo = list(range(len(jobs)))
    aside = []
    while todo:
        order = sorted(todo, key=lambda i: -(os.path.getsize(jobs[i]["input"])))
        rs = skeldoc.run_cli_many([jobs[i] for i in order], timeout)
        todo = []
        for i, r in zip(order, rs):
            res[i] = r
            j = jobs[i]
            if r["status"] == "ok" or j["kind"] != "synth":
                continue
            if j["nbodies"] <= 1:
                aside.append({"body": (j["bodies"] or [""])[0], "options": j["opt"]["name"], "why": r["status"][:200]})
                continue
            j["split"] = True
            if not j.get("filtered"):
                # first look for the bodies that raise when they are optimized alone (one worker, the run's option set)
                good, bad = alone(j)
                aside += bad
                if bad and good:
                    nj = synth_job(j["label"] + "f", j["shape"], j["opt"], good)
                    nj["filtered"] = True
                    jobs.append(nj)
                    res.append(None)
                    todo.append(len(jobs) - 1)
                    continue
                if not good:
                    continue
            h = j["nbodies"] // 2
            for part, bs in (("a", j["bodies"][:h]), ("b", j["bodies"][h:])):
                nj = synth_job(j["label"] + part, j["shape"], j["opt"], bs)
                nj["filtered"] = True
                jobs.append(nj)
                res.append(None)
                todo.append(len(jobs) - 1)
    keep = [i for i, j in enumerate(jobs) if not j.get("split") and not (j["kind"] == "synth" and res[i]["status"] != "ok" and j["nbodies"] <= 1)]
    jobs, res = [jobs[i] for i in keep], [res[i] for i in keep]
    # the tool's own parser on every emitted file, in a worker with the same PUSH0 setting
    for zn, za in skeldoc.PUSH0:
        idx = [i for i, j in enumerate(jobs) if j["opt"]["push0"] == zn and res[i]["out"]]
        cmds = [{"cmd": "c09_reparse", "path": res[i]["out"], "outpath": os.path.join(jobs[i]["dir"], "reparsed.json")} for i in idx]
        if not cmds:
            continue
        rr = pool.run_commands(["-greedy"] + za, cmds, min(skeldoc.JOBS, 3), 300)
        for i, r in zip(idx, rr):
            res[i]["reparse"] = r
    return jobs, res, aside


def diff_log(a, b):
    """positions where two JSON values are not the same value, typed for SkeletonTrace (no judgement: a listing)"""
    diffs = asmdoc.raw_diffs(a, b)
    out = []
    for path, x, y in diffs[:MAXDIFFS]:
        isitem = len(path) >= 2 and path[-2] == ".code" and isinstance(x, dict) and isinstance(y, dict)
        out.append({"path": " | ".join(path), "what": "item" if isitem else "other",
                    "a": asmdoc.proj_item(x) if isitem else asmdoc.scalar(x), "b": asmdoc.proj_item(y) if isitem else asmdoc.scalar(y)})
    return a == b, len(diffs), out


def make_case(cid, job, r):
    din = skeldoc.proj_file(job["input"])
    c = {"id": cid, "policy": job["opt"]["policy"], "push0": job["opt"]["push0"], "sel": "", "status": r["status"],
         "in": din, "out": skeldoc.EMPTY_DOC, "rstatus": "ok", "requal": True, "rndiff": 0, "rdiffs": []}
    if r["status"] != "ok":
        return c
    try:
        raw_out = skeldoc.load(r["out"])
    except Exception:
        c["out"] = {"version": "-", "extra": ["notjson"], "contracts": []}
        return c
    c["out"] = asmdoc.proj_doc(raw_out)
    rp = r.get("reparse") or {"killed": True}
    if rp.get("killed") or "worker_exc" in rp:
        c["rstatus"] = "raised: worker killed or failed"
    elif rp.get("status") != "ok":
        c["rstatus"] = rp.get("status", "raised: ?")
    else:
        c["requal"], c["rndiff"], c["rdiffs"] = diff_log(raw_out, skeldoc.load(os.path.join(job["dir"], "reparsed.json")))
    return c


# ---------------------------------------------------------------------------------------------
# validate

def validate(cases, tag="c09v"):
    """-> (verdict tuples by case id, undecided ids, guards, TLC stats)"""
    w = common.workdir()
    weights = [skeldoc.doc_weight(c["in"]) + skeldoc.doc_weight(c["out"]) for c in cases]
    shards = common.shard_by_weight(cases, weights, max(skeldoc.JOBS, sum(weights) // SHARD_BYTES + 1))
    envs = []
    for k, sh in enumerate(shards):
        p = os.path.join(w, "%s_cases_%d_%s.json" % (tag, k, common.stable_hash([c["id"] for c in sh])))
        common.write_json(p, {"cases": sh})
        envs.append({"CASES": p})
    rs = common.run_tlc_shards("SkeletonTrace", "SkeletonTrace.cfg", envs, timeout=3000, heap="3g", jobs=skeldoc.JOBS, tag=tag)
    verdicts, undec, guards = {}, {}, [0, 0, 0, 0]
    st = {"states": 0, "transitions": 0, "wall": 0.0, "jvms": len(rs)}
    for r, sh in zip(rs, shards):
        cons = r.tagged("CONSUMED")
        if not r.ok or not cons or cons[-1][1] != len(sh) or r.tagged("MACHINERY"):
            raise common.MachineryError("SkeletonTrace did not accept its batch:\n" + r.out[-2500:])
        for t in r.tagged("VERDICT"):
            verdicts.setdefault(t[1], []).append(t)
        for t in r.tagged("UNDECIDED"):
            undec[t[1]] = t[2]
        g = r.tagged("GUARDS")[-1]
        guards = [a + b for a, b in zip(guards, g[1:5])]
        st["states"] += r.distinct
        st["transitions"] += r.generated
        st["wall"] = max(st["wall"], r.wall)
    return verdicts, undec, guards, st


# ---------------------------------------------------------------------------------------------
# witnesses for the replay files (projection only)

def cut_blocks(items):
    out, cur = [], []
    for it in items:
        if it.get("name") == "tag":
            out.append(cur)
            cur = [it]
        elif it.get("name") in ("JUMP", "JUMPI", "STOP", "RETURN", "REVERT", "INVALID", "SELFDESTRUCT"):
            out.append(cur + [it])
            cur = []
        else:
            cur.append(it)
    return out + [cur]


def stream(doc, contract, path):
    asm = doc["contracts"][contract]["asm"]
    parts = [p for p in path.split("/") if p]
    node = asm
    i = 0
    while i < len(parts):
        if parts[i] == ".data":
            node = node[".data"][parts[i + 1]]
            i += 2
        else:
            i += 1
    return node[".code"]


def brief(items):
    return " ".join(str(it.get("name")) + ("" if "value" not in it else " " + str(it["value"])[:70]) for it in items)


def witness(job, r, t):
    """the input and emitted block a VERDICT tuple <<"VERDICT", id, pos, clause, wit>> points at"""
    pos = t[2]
    w = {"clause": t[3], "position": pos, "tlc_witness": t[4]}
    try:
        if len(pos) >= 4 and t[3] != "skeleton":
            a = cut_blocks(stream(skeldoc.load(job["input"]), pos[0], pos[1]))[pos[2]]
            b = cut_blocks(stream(skeldoc.load(r["out"]), pos[0], pos[1]))[pos[2]]
            w["input_block"], w["emitted_block"], w["emitted_item"] = brief(a), brief(b), b[pos[3]]
    except Exception as e:                                     # a witness is a convenience, never a verdict
        w["witness_error"] = repr(e)
    return w


def sections(doc):
    for cname in sorted(doc.get("contracts") or {}):
        c = doc["contracts"][cname]
        asm = c.get("asm") if isinstance(c, dict) else None
        if asm:
            for path, items in corpus.code_sections(asm):
                yield cname + path, items


def distinct_changed(jobs, res):
    """statistic for the evidence: distinct (policy, PUSH0 setting, input block, emitted block) with emitted # input,
    blocks cut as CutBlocks does, streams whose block counts differ left out"""
    seen = set()

    def sig(b):
        return tuple((str(it.get("name")), str(it.get("value", ""))) for it in b)
    for j, r in zip(jobs, res):
        if r["status"] != "ok":
            continue
        try:
            a, b = dict(sections(skeldoc.load(j["input"]))), dict(sections(skeldoc.load(r["out"])))
        except Exception:
            continue
        for k, items in a.items():
            ba, bb = cut_blocks(items), cut_blocks(b.get(k, []))
            if len(ba) != len(bb):
                continue
            for x, y in zip(ba, bb):
                if x != y:
                    seen.add((j["opt"]["policy"], j["opt"]["push0"], sig(x), sig(y)))
    return len(seen)


def key_of(t):
    """what a known finding is matched on: the clause and the opcode / field it is about"""
    clause, wit = t[3], t[4]
    what = ""
    if clause == "skeleton":
        what = "/".join(str(x) for x in wit[:2])
    elif clause in ("metadata", "reparse"):
        what = "/".join(str(x) for x in wit[-4:-2]) if len(wit) >= 4 else "/".join(str(x) for x in wit)
    elif wit:
        what = str(wit[0])
    return "%s|%s" % (clause, what)


# ---------------------------------------------------------------------------------------------

def run(tier):
    t0 = time.time()
    seed = common.seed()
    jobs, gstats, gens = plan(tier, seed)
    t1 = time.time()
    jobs, res, aside = drive(jobs, tier)
    gstats["bodies_set_aside"], gstats["set_aside_samples"] = len(aside), aside[:5]
    t2 = time.time()
    cases = [make_case(i + 1, j, r) for i, (j, r) in enumerate(zip(jobs, res))]
    if any(c["in"] is None for c in cases):
        raise common.MachineryError("an input file is not JSON")
    verdicts, undec, guards, st = validate(cases)
    for g in gens:
        st["states"] += g.distinct
        st["transitions"] += g.generated
    # one violation record per (case, verdict)
    viol = []
    for i, (j, r) in enumerate(zip(jobs, res)):
        for t in verdicts.get(i + 1, []):
            viol.append(({"job": j, "res": r, "t": t}, ("violates", t[3], t[2])))

    def describe(v):
        j, r, t = v["job"], v["res"], v["t"]
        d = {"input": j["input"] if j["kind"] == "real" else None, "doc": None if j["kind"] == "real" else skeldoc.load(j["input"]),
             "argv": j["argv"], "options": j["opt"]["name"], "shape": j["shape"], "key": key_of(t)}
        d.update(witness(j, r, t))
        return d
    # at most two replay files per root cause (all verdicts are counted in the evidence)
    per_key, shown = {}, []
    for v in viol:
        k = key_of(v[0]["t"])
        per_key[k] = per_key.get(k, 0) + 1
        if per_key[k] <= 2:
            shown.append(v)
    out = findings.settle("C09", shown, describe, lambda v: [key_of(v["t"])])
    ok_synth = sum(1 for j, r in zip(jobs, res) if j["kind"] == "synth" and r["status"] == "ok")
    n_synth = sum(1 for j in jobs if j["kind"] == "synth")
    ok_real = sum(1 for j, r in zip(jobs, res) if j["kind"] == "real" and r["status"] == "ok")
    blocks = sum(skeldoc.count_blocks(skeldoc.load(j["input"])) for j, r in zip(jobs, res) if r["status"] == "ok")
    samples = []
    for i in list(range(2)) + list(range(len(jobs) - 3, len(jobs))):
        if 0 <= i < len(jobs):
            j, r = jobs[i], res[i]
            samples.append({"input": j["label"], "argv": j["argv"], "shape": j["shape"], "bodies": j["nbodies"], "status": r["status"],
                            "cli_wall_s": r["wall"], "verdicts": [[t[3], t[2]] for t in verdicts.get(i + 1, [])][:4]})
    cov = {"states": st["states"], "transitions": st["transitions"],
           "traces_validated_against_impl": len(cases) - len(undec), "samples": samples,
           "evaluations": blocks, "distinct_nontrivial": distinct_changed(jobs, res),
           "rule": "one evaluation = one block of a whole file processed by the real command line tool (runs that emitted a file); "
                   "non-trivial = a block whose emitted form differs from the input; distinct = distinct (split policy, PUSH0 setting, input "
                   "block, emitted block) by opcode names and operands; one trace = one whole-file run judged by SkeletonTrace",
           "changed_blocks_judged": guards[0], "emitted_items_judged": guards[1], "instruction_streams": guards[2], "undecided_runs": len(undec),
           "undecided_samples": [{"input": jobs[i - 1]["label"], "argv": jobs[i - 1]["argv"], "why": w[:200]} for i, w in sorted(undec.items())[:6]],
           "runs": len(jobs), "synth_ok": ok_synth, "real_ok": ok_real, "corpus": gstats,
           "option_sets": sorted({j["opt"]["name"] for j in jobs}),
           "o_flag_honoured_runs": sum(1 for r in res if r.get("honours_o")),
           "violating_verdicts": len(viol), "violating_verdicts_by_key": per_key, "known_findings_hit": out["known_hit"], "new_violations": len(out["new"]),
           "exhaustive": False, "gen_wall_s": round(t1 - t0, 1), "drive_wall_s": round(t2 - t1, 1), "tlc_wall_s": round(st["wall"], 1),
           "level_note": "trace validation of whole-file runs; the generators are exhaustive for bodies of <= 2 fragments (thorough), sampled otherwise"}
    if guards[0] == 0 or guards[1] == 0:
        raise common.MachineryError("vacuity guard: no changed block / no emitted item reached TLC")
    if gstats["shape_values_missing"]:
        raise common.MachineryError("vacuity guard: document shape values never used: %s" % gstats["shape_values_missing"])
    if n_synth and ok_synth * 10 < n_synth * 7:
        raise common.MachineryError("vacuity guard: only %d of %d synthesized documents produced an output file" % (ok_synth, n_synth))
    if ok_real == 0:
        raise common.MachineryError("vacuity guard: no shipped example produced an output file")
    return {"level": "model_checking", "coverage": cov, "violations": out, "wall": time.time() - t0, "assumptions": ASSUMPTIONS}


# ---------------------------------------------------------------------------------------------

def _one(doc_or_path, argv, policy, push0, tag):
    """drive + validate one document; returns (verdict tuples, undecided, job, result)"""
    w = common.workdir()
    d = os.path.join(w, tag)
    os.makedirs(d, exist_ok=True)
    if isinstance(doc_or_path, str):
        path = doc_or_path
    else:
        path = os.path.join(d, tag + ".json_solc")
        common.write_json(path, doc_or_path)
    job = {"kind": "synth", "input": path, "argv": argv, "dir": d, "opt": {"policy": policy, "push0": push0, "argv": argv, "name": tag},
           "shape": None, "nbodies": 0, "bodies": [], "label": tag}
    _, res, _ = drive([job], "quick")
    case = make_case(1, job, res[0])
    verdicts, undec, guards, st = validate([case], tag=tag)
    return verdicts.get(1, []), undec, job, res[0], case


def replay(path):
    with open(path) as f:
        rp = json.load(f)
    c = rp["case"]
    argv = c["argv"]
    policy = "storage" if "-storage" in argv else "partition" if "-partition" in argv else "default"
    push0 = "off" if "-push0" in argv else "on"
    vs, undec, job, r, case = _one(c["doc"] if c.get("doc") else c["input"], argv, policy, push0, "c09replay")
    print("run: %s %s -> %s" % (job["input"], " ".join(argv), r["status"]))
    for t in vs:
        print("VERDICT", json.dumps(t[2:]))
        print(json.dumps(witness(job, r, t), indent=1)[:3000])
    return 1 if vs else 0


def selftest():
    """corrupt recorded fields of a validated run and show that the validator rejects each corruption"""
    import copy
    sh = dict(noasm="empty", nest=2, tophex=True, aux=True, src=True, jt="field", md=True, two=False)
    bodies = ["PUSH [tag] 7 PUSH 0 ADD", "PUSH 1 PUSH 1 SUB", "PUSH 0 MSTORE PUSH 1 PUSH 0 ADD", "PUSH data d2 SWAP1 SWAP1",
              "DUP1 DUP1 ASSIGNIMMUTABLE 689 PUSH ff DUP1 POP", "PUSHIMMUTABLE 689 DUP1 POP", "PUSH ff PUSH 0 ADD", "CALLER DUP1 POP",
              "PUSH 2 PUSH 0 ADD", "GAS PUSH 0 ADD", "PUSH 3 PUSH 1 MUL", "PUSH 4 DUP1 POP"]
    doc = skeldoc.build_doc(sh, bodies)
    vs, undec, job, r, case = _one(doc, ["-greedy"], "default", "on", "c09self")
    print("baseline: status=%s verdicts=%s" % (r["status"], [[t[3], t[2]] for t in vs]))
    base = {json.dumps(t[2:]) for t in vs}

    def code_of(c, which="out"):
        return [x for x in c[which]["contracts"] if x["asmkind"] == "obj"][0]["asm"][0]

    muts = []
    c1 = copy.deepcopy(case)
    a = code_of(c1)["data"][0]["asm"][0]
    j = next(i for i, it in enumerate(a["code"]) if it["name"] == "s:JUMP" and it["jumpType"] != "-")
    a["code"][j]["jumpType"] = "-"
    muts.append(("jumpType dropped from a recorded output jump", c1, "skeleton"))
    c2 = copy.deepcopy(case)
    a = code_of(c2)["data"][0]["asm"][0]
    j = next(i for i, it in enumerate(a["code"]) if it["name"] == "s:PUSH" and it["begin"] == "i:-1")
    a["code"][j]["value"] = "s:00ff"
    muts.append(("an emitted PUSH value turned into 00ff", c2, "PUSH constant is not canonical hex below 2^256"))
    c3 = copy.deepcopy(case)
    code_of(c3)["data"][0]["asm"][0]["auxdata"] = "s:00"
    muts.append((".auxdata changed", c3, "metadata"))
    c4 = copy.deepcopy(case)
    a = code_of(c4)["data"][0]["asm"][0]
    j = next(i for i, it in enumerate(a["code"]) if it["name"] == "s:PUSH [tag]" and it["begin"] == "i:-1")
    a["code"][j]["value"] = "s:99"
    muts.append(("an emitted PUSH [tag] operand changed to a tag that is not in the block", c4, "pseudo-push operand does not occur with this real value in the input block"))
    c5 = copy.deepcopy(case)
    a = code_of(c5)
    j = next(i for i, it in enumerate(a["code"]) if it["name"] == "s:tag")
    del a["code"][j]
    muts.append(("a tag removed from the creation code", c5, "skeleton"))
    c6 = copy.deepcopy(case)
    code_of(c6)["data"][0]["asm"][0]["code"][0]["name"] = "s:PUSH1"
    muts.append(("a recorded output item renamed to PUSH1 (not an assembly item name)", c6, "unknown opcode name"))
    c7 = copy.deepcopy(case)
    it = code_of(c7)["code"][0]
    c7["requal"], c7["rndiff"] = False, c7["rndiff"] + 1
    c7["rdiffs"] = c7["rdiffs"] + [{"path": "contracts | contracts/C.sol:C | asm | .code | 0", "what": "item", "a": it, "b": dict(it, begin="i:12345")}]
    muts.append(("the re-parsed document differs in one begin field", c7, "reparse"))
    ok = True
    for k, (what, cm, expect) in enumerate(muts):
        cm["id"] = 1
        v, _, _, _ = validate([cm], tag="c09self%d" % k)
        new = [t for t in v.get(1, []) if json.dumps(t[2:]) not in base]
        hit = any(t[3] == expect for t in new)
        ok = ok and hit
        print("%-80s -> %s %s" % (what, "REJECTED" if hit else "NOT REJECTED", [[t[3], t[2]] for t in new][:2]))
    common.cleanup()
    return 0 if ok else 1


if __name__ == "__main__":
    sys.exit(selftest())
