"""C17 - instruction-set restrictions chosen by the user are honoured (PUSH0 switch, contract selection).

(G) spec/SeqGen.tla enumerates blocks around zero pushes (spelled in the input, produced by constant folding,
    produced by a rule), plus hand-written item lists with a literal PUSH0, plus real blocks that push zero;
    spec/SkeletonGen.tla gives the shapes of two-contract documents.
(D) every block runs through the real optimize + compare + keep-or-revert pipeline (worker command `opt`) with
    PUSH0 enabled and disabled (`-push0` DISABLES it) under the three criteria; every document runs through the
    real optimize_asm_in_asm_format with `-c <contract>` for each of its contracts (worker command `c17_select`:
    events observed by attribute rebinding, the emitted file, the parsed input serialized after the run).
(V) spec/Push0Trace.tla (over Cost.tla, Skeleton.tla, AsmDoc.tla) decides every clause."""
import json
import os
import random
import sys
import time

sys.path.insert(0, os.path.join(os.path.dirname(os.path.abspath(__file__)), ".."))
import asmdoc
import common
import corpus
import findings
import gen
import pool
import skeldoc

ASSUMPTIONS = [
    "a zero push is the item PUSH0 or a PUSH of the constant zero; 'PUSH0 in a block' (first clause) means an item literally named PUSH0",
    "with PUSH0 enabled the tool's two spellings of a zero push in one output (PUSH0 for parsed items, PUSH 0 for items it emits) are both accepted: the property is judged on the prices, and both spellings assemble to PUSH0",
    "byte widths of pseudo-pushes and the prices of dynamically priced instructions are taken from the tool (Cost.tla lists each one); only the treatment of zero pushes and the PUSH width rule are independent",
    "gas is compared only for blocks without a possible warm access (at most one SLOAD/SSTORE and at most one account access)",
    "with -c the tool writes the selected contract alone (documented in its help text): 'no other contract's code changes' is checked on (a) which contracts' blocks reach the optimizer and (b) the parsed input object serialized after the run; the emitted file must be the selected contract (same metadata, same skeleton, well-formed items)",
    "a name that selects no or several contracts is outside the property (undecided)",
]

OPTSETS_BLOCK = [
    ("gas-on", ["-greedy"]), ("gas-off", ["-greedy", "-push0"]),
    ("size-on", ["-greedy", "-size"]), ("size-off", ["-greedy", "-size", "-push0"]),
    ("length-on", ["-greedy", "-length"]), ("length-off", ["-greedy", "-length", "-push0"]),
    ("storage-gas-on", ["-greedy", "-storage"]), ("storage-size-off", ["-greedy", "-storage", "-size", "-push0"]),
]
OPTSETS_SELECT = [
    {"name": "select-default-gas-on", "argv": ["-greedy"], "policy": "default", "push0": "on"},
    {"name": "select-storage-size-off", "argv": ["-greedy", "-storage", "-size", "-push0"], "policy": "storage", "push0": "off"},
    {"name": "select-partition-length-on", "argv": ["-greedy", "-partition", "-length"], "policy": "partition", "push0": "on"},
]

HAND_ITEMS = [       # a literal PUSH0 in the input (the tool's own spelling of its output with PUSH0 enabled)
    [("PUSH0", None), ("PUSH", "1"), ("ADD", None)],
    [("PUSH0", None), ("PUSH0", None), ("ADD", None), ("PUSH", "1"), ("PUSH", "1"), ("SUB", None)],
    [("PUSH", "0"), ("PUSH0", None), ("MSTORE", None)],
    [("PUSH0", None), ("DUP2", None), ("MUL", None)],
    [("PUSH", "5"), ("PUSH0", None), ("ADD", None), ("PUSH", "0"), ("ADD", None)],
]


# two accesses to one storage slot / account through a zero key, one in a sub-block that is kept and one in a sub-block that is
# rebuilt: the tool's warm/cold accounting must name the key the same way whichever way the zero push is spelled
PINNED_TEXTS = ["PUSH0 SLOAD PUSH0 PUSH0 LOG0 PUSH0 SLOAD PUSH 3 PUSH 3 SUB ADD", "PUSH 0 SLOAD GAS POP PUSH 0 SLOAD PUSH 3 PUSH 3 SUB ADD",
                "PUSH0 BALANCE PUSH0 PUSH0 LOG0 PUSH 0 BALANCE PUSH 1 PUSH 1 SUB ADD", "PUSH 0 SLOAD PUSH0 SLOAD ADD",
                "DUP1 PUSH 0 SSTORE GAS POP PUSH 0 SLOAD PUSH 2 PUSH 2 SUB ADD", "PUSH 0 DUP1 SLOAD SWAP1 SLOAD ADD PUSH 0 ADD",
                # constants at and just above a power of 256: the byte width the tool reports for a PUSH
                "PUSH 80000000 DUP1 ADD DUP1 MUL PUSH 0 ADD", "PUSH 10000000000000000 PUSH 0 ADD", "PUSH 100000000000000 PUSH 0 ADD",
                "PUSH 100000000000000000000000000000000 PUSH 0 ADD", "PUSH 10000000000000000000000000000000000000000 PUSH 0 ADD"]


def _items(pairs):
    p = skeldoc.Pos()
    return [p.item(n, v) for n, v in pairs]


# ---------------------------------------------------------------------------------------------
# blocks

def gen_blocks(tier, seed):
    v = skeldoc.zero_vocab()
    if tier == "quick":
        xs, r1 = gen.enumerate_blocks(v, [["Z"], ["Z", "*"], ["K", "Z"]], 5)
        sim, r2 = gen.enumerate_blocks(v, [["*"] * 6], 6, simulate=(120, 7), seed=seed)
        rs = [r1, r2]
        nreal = 150
    else:
        xs, r1 = gen.enumerate_blocks(v, [["Z"], ["Z", "*"], ["K", "Z"]], 5)
        xs3, r3 = gen.enumerate_blocks(v, [["Z", "*", "*"], ["K", "Z", "*"], ["K", "K", "Z"]], 5)
        xs = xs + corpus.sample(xs3, 3000, seed)
        sim = []
        rs = [r1, r3]
        for depth in (6, 10, 16):
            b, r = gen.enumerate_blocks(v, [["*"] * (depth - 1)], 6, simulate=(300, depth), seed=seed + depth)
            sim += b
            rs.append(r)
        nreal = 1500
    real = [b for b in corpus.real_blocks() if any(it["name"] == "PUSH" and it.get("value") == "0" for it in b["items"])]
    real = corpus.sample(real, nreal, seed)
    cmds = [{"cmd": "opt", "text": t, "src": t} for t in PINNED_TEXTS + xs + sim]
    cmds += [{"cmd": "opt", "items": _items(h), "src": "items: " + " ".join(n + ("" if v is None else " " + v) for n, v in h)} for h in HAND_ITEMS]
    cmds += [{"cmd": "opt", "items": b["items"], "src": b["src"]} for b in real]
    return cmds, rs, {"enumerated": len(xs), "simulated": len(sim), "literal_push0": len(HAND_ITEMS), "real_with_zero_push": len(real)}


SFS_TEXTS = ["PUSH 5 PUSH 5 SUB PUSH 7 MSTORE DUP1 XOR", "PUSH 1 PUSH 1 SUB PUSH 5 ADD DUP2 MUL", "DUP1 DUP1 XOR SWAP1 POP", "PUSH 0 DUP2 MUL SWAP1 POP",
             "PUSH 3 PUSH 3 SUB PUSH 0 SSTORE", "DUP1 DUP1 SUB PUSH 1 SSTORE POP", "PUSH 0 PUSH 0 ADD PUSH 2 ADD"]


def sfs_mode_cases(tier, seed, texts):
    """the -sfs input mode across option sets: specifications written by a run with one PUSH0 setting (front-end only) are optimized
    by optimize_block under the other setting and under the same one; the tool's rebuilt original block, the chosen sequence and the
    tool's prices are judged by the same clauses as the blocks of the pipeline"""
    texts = SFS_TEXTS + corpus.sample(texts, 60 if tier == "quick" else 600, seed)
    first = pool.run_matrix([(["-greedy"], [{"cmd": "sfs", "text": t} for t in texts]), (["-greedy", "-push0"], [{"cmd": "sfs", "text": t} for t in texts])], timeout=30)
    jobs = []
    for wrote, rs in zip(("on", "off"), first):
        dicts = [(b["plain"], b["sfs"]) for r in rs for b in r.get("blocks", []) if b.get("sfs")]
        for reads, argv in (("on", ["-greedy"]), ("off", ["-greedy", "-push0"])):
            jobs.append((wrote, reads, argv, [{"cmd": "opt_sfs", "sfs": d, "_plain": p} for p, d in dicts]))
    res = pool.run_matrix([(argv, [{k: v for k, v in c.items() if not k.startswith("_")} for c in cmds]) for _, _, argv, cmds in jobs], timeout=60)
    cases, seen = [], set()
    cnt = {"specification_dicts": sum(len(j[3]) for j in jobs), "blocks": 0, "exceptions": 0, "cross_mode": 0}
    for (wrote, reads, argv, cmds), rs in zip(jobs, res):
        for cmd, r in zip(cmds, rs):
            if r.get("killed") or "exc" in r or "worker_exc" in r:
                cnt["exceptions"] += 1
                continue
            for b in r.get("blocks", []):
                if "exc" in b or "costs" not in b or b.get("ids") is None:
                    cnt["exceptions"] += 1
                    continue
                cnt["blocks"] += 1
                cnt["cross_mode"] += 1 if wrote != reads else 0
                c = {"kind": "block", "push0": reads, "orig": nv(b["orig"]), "out": nv(b["opt"]),
                     "size": b["costs"]["size"], "gas": b["costs"]["gas"], "length": b["costs"]["length"]}
                k = json.dumps(c, sort_keys=True)
                if k in seen:
                    continue
                seen.add(k)
                c["_opts"], c["_argv"], c["_src"], c["_plain"] = "sfs-mode: written with PUSH0 %s, optimized with PUSH0 %s" % (wrote, reads), argv, cmd["_plain"][:300], b.get("plain", "")
                cases.append(c)
    return cases, cnt


def nv(instrs):
    return [{"n": str(i["name"]), "v": str(i["value"]) if i.get("value") not in (None, "") else ""} for i in instrs]


def block_cases(jobs, results):
    cases, seen = [], set()
    cnt = {"runs": 0, "blocks": 0, "exceptions": 0, "killed": 0}
    for (name, argv, cmds), res in zip(jobs, results):
        push0 = "off" if "-push0" in argv else "on"
        for cmd, r in zip(cmds, res):
            cnt["runs"] += 1
            if r.get("killed") or "worker_exc" in r:
                cnt["killed"] += 1
                continue
            for b in r.get("blocks", []):
                cnt["blocks"] += 1
                if "exc" in b or "costs" not in b:
                    cnt["exceptions"] += 1
                    continue
                c = {"kind": "block", "push0": push0, "orig": nv(b["orig"]), "out": nv(b["opt"]),
                     "size": b["costs"]["size"], "gas": b["costs"]["gas"], "length": b["costs"]["length"]}
                k = json.dumps(c, sort_keys=True)
                if k in seen:
                    continue
                seen.add(k)
                c["_opts"], c["_argv"], c["_src"], c["_plain"] = name, argv, cmd.get("src", "")[:300], b.get("plain", "")
                cases.append(c)
    return cases, cnt


# ---------------------------------------------------------------------------------------------
# contract selection

def select_docs(tier, seed):
    """[(path, [short contract names])], generator TLC result"""
    w = common.workdir()
    shapes, rsh = skeldoc.gen_shapes()
    two = [s for s in shapes if s["two"]]
    n = 3 if tier == "quick" else 12
    use = skeldoc.cover_shapes(two, n, seed)[:max(n, 3)]
    rnd = random.Random(seed)
    bodies = [f["text"] for f in skeldoc.zero_vocab() + skeldoc.body_vocab() if f["text"] != "PUSH0" and "ASSIGNIMMUTABLE" not in f["text"]]
    docs = []
    for k, sh in enumerate(use):
        bs = [" ".join(rnd.sample(bodies, 2)) for _ in range(24)]
        p = os.path.join(w, "c17_sel%d.json_solc" % k)
        common.write_json(p, skeldoc.build_doc(sh, bs))
        docs.append((p, ["C", "D"], sh))
    files = sorted(corpus.example_files(), key=os.path.getsize)
    for f in (files[1:2] if tier == "quick" else files[1:4]):
        d = skeldoc.load(f)
        names = [c.split("/")[-1].split(":")[-1] for c, v in d["contracts"].items() if v and v.get("asm")]
        docs.append((f, names if tier != "quick" else names[:2], None))
    return docs, rsh


def select_cases(tier, seed):
    docs, rsh = select_docs(tier, seed)
    w = common.workdir()
    jobs, meta = [], []
    for k, (path, names, sh) in enumerate(docs):
        o = OPTSETS_SELECT[k % len(OPTSETS_SELECT)]
        cmds = []
        for n in names:
            cmds.append({"cmd": "c17_select", "path": path, "contract": n, "outdir": os.path.join(w, "c17_sel_out_%d_%s" % (k, n))})
            meta.append((path, n, o, sh))
        jobs.append((o["argv"], cmds))
    res = skeldoc.run_matrix_capped(jobs, 600 if tier == "quick" else 1800)
    flat = [r for rs in res for r in rs]
    cases = []
    for (path, n, o, sh), r in zip(meta, flat):
        c = {"kind": "select", "push0": o["push0"], "policy": o["policy"], "sel": n, "in": skeldoc.proj_file(path),
             "after": skeldoc.EMPTY_DOC, "outasm": asmdoc.proj_asm({}), "events": [], "status": "ok"}
        if r.get("killed") or "worker_exc" in r:
            c["status"] = "no result: worker killed or failed"
        else:
            c["status"] = r["status"] if r["status"] != "ok" or r.get("out") else "no output file"
            c["events"] = r.get("events", [])
            if r.get("after"):
                c["after"] = skeldoc.proj_file(r["after"]) or {"version": "-", "extra": ["notjson"], "contracts": []}
            else:
                c["after"] = {"version": "-", "extra": ["not serialized: " + str(r.get("after_status"))], "contracts": []}
            if r.get("out"):
                try:
                    c["outasm"] = asmdoc.proj_asm(skeldoc.load(r["out"]))
                except Exception:
                    c["outasm"] = {"notanassembly": "true"}
        c["_opts"], c["_argv"], c["_src"], c["_shape"] = o["name"], o["argv"] + ["-c", n], path, sh
        cases.append(c)
    return cases, rsh


# ---------------------------------------------------------------------------------------------
# validate

def validate(cases, tag="c17v"):
    w = common.workdir()
    for i, c in enumerate(cases):
        c["id"] = i + 1
    clean = [{k: v for k, v in c.items() if not k.startswith("_")} for c in cases]
    weights = [len(json.dumps(c)) for c in clean]
    shards = common.shard_by_weight(clean, weights, max(skeldoc.JOBS, sum(weights) // (12 * 1024 * 1024) + 1))
    envs = []
    for k, sh in enumerate(shards):
        p = os.path.join(w, "%s_cases_%d_%s.json" % (tag, k, common.stable_hash([c["id"] for c in sh])))
        common.write_json(p, {"cases": sh})
        envs.append({"CASES": p})
    rs = common.run_tlc_shards("Push0Trace", "Push0Trace.cfg", envs, timeout=3000, heap="3g", jobs=skeldoc.JOBS, tag=tag)
    verdicts, undec, guards = {}, {}, [0] * 7
    st = {"states": 0, "transitions": 0, "wall": 0.0, "jvms": len(rs)}
    for r, sh in zip(rs, shards):
        cons = r.tagged("CONSUMED")
        if not r.ok or not cons or cons[-1][1] != len(sh) or r.tagged("MACHINERY"):
            raise common.MachineryError("Push0Trace did not accept its batch:\n" + r.out[-2500:])
        for t in r.tagged("VERDICT"):
            verdicts.setdefault(t[1], []).append(t)
        for t in r.tagged("UNDECIDED"):
            undec[t[1]] = t[2]
        guards = [a + b for a, b in zip(guards, r.tagged("GUARDS")[-1][1:8])]
        st["states"] += r.distinct
        st["transitions"] += r.generated
        st["wall"] = max(st["wall"], r.wall)
    return verdicts, undec, guards, st


def key_of(c, t):
    clause, wit = t[3], t[4]
    if c["kind"] == "block":
        return "block|%s|push0 %s|%s" % (clause, c["push0"], str(wit[0])[:60] if wit else "")
    return "select|%s|%s" % (clause, str(wit[0])[:60] if wit else "")


def plain(items):
    return " ".join(i["n"] + (" " + i["v"] if i["v"] != "" and "JUMP" not in i["n"] else "") for i in items)


def describe(v):
    c, t = v["case"], v["t"]
    d = {"kind": c["kind"], "options": c["_opts"], "argv": c["_argv"], "source": c["_src"], "clause": t[3], "position": t[2],
         "tlc_witness": t[4], "key": key_of(c, t)}
    if c["kind"] == "block":
        d.update({"input": plain(c["orig"]), "emitted": plain(c["out"]), "reported": {k: c[k] for k in ("size", "gas", "length")},
                  "push0": c["push0"], "orig": c["orig"], "out": c["out"]})
    else:
        d.update({"sel": c["sel"], "events": c["events"][:20], "shape": c["_shape"],
                  "doc": skeldoc.load(c["_src"]) if c["_shape"] is not None else None})
    return d


def run(tier):
    t0 = time.time()
    seed = common.seed()
    cmds, gens, gstats = gen_blocks(tier, seed)
    jobs = [(name, argv, [dict(c) for c in cmds]) for name, argv in (OPTSETS_BLOCK[:6] if tier == "quick" else OPTSETS_BLOCK)]
    results = skeldoc.run_matrix_capped([(argv, cs) for _, argv, cs in jobs], 30)
    bcases, cnt = block_cases(jobs, results)
    mcases, mcnt = sfs_mode_cases(tier, seed, [c["text"] for c in cmds if "text" in c])
    if mcnt["cross_mode"] == 0:
        raise common.MachineryError("vacuity guard: the -sfs mode was never driven across PUSH0 settings")
    bcases += mcases
    t1 = time.time()
    scases, rsh = select_cases(tier, seed)
    t2 = time.time()
    cases = bcases + scases
    verdicts, undec, guards, st = validate(cases)
    for g in gens + [rsh]:
        st["states"] += g.distinct
        st["transitions"] += g.generated
    viol = []
    for c in cases:
        for t in verdicts.get(c["id"], []):
            viol.append(({"case": c, "t": t}, ("violates", t[3], t[2])))
    out = findings.settle("C17", viol, describe, lambda v: [key_of(v["case"], v["t"])])
    intro_on, intro_off, gas_skipped, n_undec, sel_events, others_cmp, changed = guards
    samples = []
    for c in bcases[:2] + [x for x in bcases if x["out"] != x["orig"]][:2] + scases[:2]:
        if c["kind"] == "block":
            samples.append({"options": c["_opts"], "input": plain(c["orig"])[:200], "emitted": plain(c["out"])[:200],
                            "reported": {k: c[k] for k in ("size", "gas", "length")}, "verdicts": [t[3] for t in verdicts.get(c["id"], [])]})
        else:
            samples.append({"options": c["_opts"], "file": os.path.basename(c["_src"]), "selected": c["sel"], "events": len(c["events"]),
                            "status": c["status"][:100], "verdicts": [t[3] for t in verdicts.get(c["id"], [])]})
    cov = {"states": st["states"], "transitions": st["transitions"], "traces_validated_against_impl": len(cases) - n_undec,
           "samples": samples, "evaluations": cnt["blocks"] + sel_events, "distinct_nontrivial": changed,
           "rule": "one evaluation = one (block, option set) run of the real optimize+compare+keep-or-revert pipeline, or one block event of a "
                   "whole-document run with -c; non-trivial = emitted block differs from the input; distinct = distinct (flag, input, emitted, reported costs)",
           "block_cases": len(bcases), "select_cases": len(scases), "zero_push_introduced_push0_on": intro_on,
           "zero_push_introduced_push0_off": intro_off, "gas_not_comparable": gas_skipped, "undecided_cases": n_undec,
           "undecided_samples": [{"case": i, "why": w[:160]} for i, w in sorted(undec.items())[:5]],
           "select_events": sel_events, "unselected_contracts_compared": others_cmp, "driver": cnt, "sfs_mode": mcnt, "corpus": gstats,
           "option_sets": [n for n, _, _ in jobs] + [o["name"] for o in OPTSETS_SELECT],
           "violating_verdicts": len(viol), "known_findings_hit": out["known_hit"], "new_violations": len(out["new"]),
           "exhaustive": False, "blocks_wall_s": round(t1 - t0, 1), "select_wall_s": round(t2 - t1, 1), "tlc_wall_s": round(st["wall"], 1),
           "level_note": "trace validation; the zero-push vocabulary is enumerated exhaustively up to 2 (quick) / 3 (thorough) fragments"}
    if changed == 0:
        raise common.MachineryError("vacuity guard: no changed block reached TLC")
    if intro_on == 0 or intro_off == 0:
        raise common.MachineryError("vacuity guard: no block where the optimizer introduced a zero push (PUSH0 on: %d, off: %d)" % (intro_on, intro_off))
    if sel_events == 0 or others_cmp == 0:
        raise common.MachineryError("vacuity guard: contract selection never exercised (events %d, other contracts %d)" % (sel_events, others_cmp))
    return {"level": "model_checking", "coverage": cov, "violations": out, "wall": time.time() - t0, "assumptions": ASSUMPTIONS}


# ---------------------------------------------------------------------------------------------

def replay(path):
    with open(path) as f:
        rp = json.load(f)
    c = rp["case"]
    if c["kind"] == "block":
        case = {"kind": "block", "push0": c["push0"], "orig": c["orig"], "out": c["out"], "size": c["reported"]["size"],
                "gas": c["reported"]["gas"], "length": c["reported"]["length"], "_opts": c["options"], "_argv": c["argv"], "_src": c["source"]}
        print("recorded run: %s\n  input   %s\n  emitted %s\n  reported %s" % (c["options"], c["input"], c["emitted"], c["reported"]))
        verdicts, _, _, _ = validate([case], tag="c17replay")
    else:
        print("selection runs are replayed by `bin/check C17`; recorded: %s -c %s: %s %s" % (c["source"], c["sel"], c["clause"], c["tlc_witness"]))
        return 1
    for t in verdicts.get(1, []):
        print("VERDICT", json.dumps(t[2:]))
    return 1 if verdicts.get(1) else 0


def selftest():
    """corrupt recorded fields of validated runs and show that the validator rejects each corruption"""
    import copy
    cmds = [{"cmd": "opt", "text": "PUSH 1 PUSH 1 SUB PUSH 5 ADD", "src": "self"}, {"cmd": "opt", "text": "PUSH 0 DUP2 MUL SWAP1 POP", "src": "self"}]
    jobs = [("gas-on", ["-greedy"], [dict(c) for c in cmds]), ("size-off", ["-greedy", "-size", "-push0"], [dict(c) for c in cmds])]
    results = skeldoc.run_matrix_capped([(argv, cs) for _, argv, cs in jobs], 60)
    bcases, _ = block_cases(jobs, results)
    sh = dict(noasm="empty", nest=1, tophex=False, aux=True, src=False, jt="value", md=False, two=True)
    p = os.path.join(common.workdir(), "c17_self.json_solc")
    common.write_json(p, skeldoc.build_doc(sh, ["PUSH 1 PUSH 1 SUB", "PUSH 0 ADD", "PUSH 5 DUP1 POP", "PUSH 0 MUL", "CALLER PUSH 0 ADD", "DUP1 DUP1 XOR"]))
    o = OPTSETS_SELECT[0]
    res = pool.run_commands(o["argv"], [{"cmd": "c17_select", "path": p, "contract": "D", "outdir": os.path.join(common.workdir(), "c17_self_out")}], 1, 300)
    r = res[0]
    sc = {"kind": "select", "push0": o["push0"], "policy": o["policy"], "sel": "D", "in": skeldoc.proj_file(p), "after": skeldoc.proj_file(r["after"]),
          "outasm": asmdoc.proj_asm(skeldoc.load(r["out"])), "events": r["events"], "status": r["status"], "_opts": o["name"], "_argv": o["argv"],
          "_src": p, "_shape": sh}
    base_cases = bcases + [sc]
    verdicts, undec, guards, _ = validate(copy.deepcopy(base_cases), tag="c17self")
    print("baseline: %d block cases, 1 selection case (%d events): verdicts=%s undecided=%s" %
          (len(bcases), len(sc["events"]), {k: [t[3] for t in v] for k, v in verdicts.items()}, undec))
    muts = []
    on = next(c for c in bcases if c["push0"] == "on" and c["out"] != c["orig"])
    off = next(c for c in bcases if c["push0"] == "off" and c["out"] != c["orig"])
    m = copy.deepcopy(on)
    m["size"] = [m["size"][0], m["size"][1] + 1]
    muts.append(("recorded size of the emitted side raised by one (PUSH0 on)", m, "size"))
    m = copy.deepcopy(off)
    m["gas"] = [m["gas"][0] - 1, m["gas"][1]]
    muts.append(("recorded gas of the input side lowered by one (PUSH0 off: PUSH1 0 priced as PUSH0)", m, "gas"))
    m = copy.deepcopy(next(c for c in bcases if c["push0"] == "off" and any(it["n"] == "PUSH" and it["v"] == "0" for it in c["out"])))
    j = next(i for i, it in enumerate(m["out"]) if it["n"] == "PUSH" and it["v"] == "0")
    m["out"][j] = {"n": "PUSH0", "v": ""}
    muts.append(("a recorded emitted PUSH 0 turned into PUSH0 although PUSH0 is disabled", m, "push0-off"))
    m = copy.deepcopy(sc)
    m["events"] = m["events"] + [{"contract": "contracts/C.sol:C", "block": "C_initial_block_3", "changed": True}]
    muts.append(("an optimizer event of the unselected contract C added", m, "event"))
    m = copy.deepcopy(sc)
    cc = next(x for x in m["after"]["contracts"] if x["name"] == "contracts/C.sol:C")
    cc["asm"][0]["code"][3]["name"] = "s:CALLER"
    muts.append(("one item of the unselected contract C changed in the document serialized after the run", m, "untouched"))
    m = copy.deepcopy(sc)
    j = next(i for i, it in enumerate(m["outasm"]["code"]) if it["name"] == "s:JUMPI")
    m["outasm"]["code"][j]["begin"] = "i:0"
    muts.append(("begin of a JUMPI of the emitted selected contract changed", m, "emitted: skeleton"))
    ok = True
    for k, (what, cm, expect) in enumerate(muts):
        v, _, _, _ = validate([cm], tag="c17self%d" % k)
        hit = any(t[3] == expect for t in v.get(1, []))
        ok = ok and hit
        print("%-100s -> %s %s" % (what, "REJECTED" if hit else "NOT REJECTED", [[t[3], t[4][:1]] for t in v.get(1, [])][:2]))
    common.cleanup()
    return 0 if ok else 1


if __name__ == "__main__":
    sys.exit(selftest())
