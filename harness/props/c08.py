"""C08 - optimization never makes a block costlier in the chosen criterion.

(D) the real optimize + compare + keep-or-revert pipeline on the block corpus under option sets covering the
three criteria, split modes and back-ends; whole small contracts through the real optimize_asm_contract with the
accumulation into the printed totals recorded.  (V) TLC (spec/CostTrace.tla over EVMCost/EVM): independent
size and length, run-time gas on every grid state; emitted <= input in the criterion; a changed block improves;
reported totals are the sums of the per-block figures."""
import random
import time

import c01
import common
import corpus
import equiv
import findings
import os
import pool

OPTSETS_QUICK = [
    ("greedy-gas", ["-greedy"]), ("greedy-size", ["-greedy", "-size"]), ("greedy-length", ["-greedy", "-length"]),
    ("greedy-size-storage", ["-greedy", "-size", "-storage"]), ("greedy-gas-partition-nopush0", ["-greedy", "-partition", "-push0"]),
    ("ubgreedy-z3-gas", ["-ub-greedy", "-solver", "z3", "-tout", "1"]), ("ubgreedy-z3-size", ["-ub-greedy", "-solver", "z3", "-size", "-tout", "1"]),
    ("z3-length", ["-solver", "z3", "-length", "-tout", "1"]),
]


# blocks of the thorough corpus: equal size but longer was accepted under -size (repaired); a SWAPk SWAPk pair left by greedy
# makes the emitted block dearer on states where two storage keys coincide (known finding)
PINNED = ["PUSH 0 SSTORE DUP1 PUSH 0 SSTORE ADD PUSH 0 MSTORE PUSH 1 SSTORE DUP1 PUSH 1 SLOAD PUSH 0 SLOAD",
          "SSTORE PUSH 1 MSTORE DUP1 PUSH 0 SSTORE RETURNDATASIZE SSTORE PUSH 20 MSTORE PUSH 1 ISZERO SUB PUSH 1 ADD PUSH 0 MLOAD ADD PUSH 0 SSTORE PUSH 0 MLOAD",
          "PUSH 0 MSTORE DUP1 SLOAD POP DUP1 PUSH 0 SSTORE DUP1 PUSH 1 SSTORE PUSH 1 ADD SSTORE PUSH 0 SLOAD"]


def crit_of(argv):
    return "size" if "-size" in argv else "length" if "-length" in argv else "gas"


def run_cost(cases, cap, tag="cost", timeout=7200):
    ws = [equiv.weight(c, cap) if c["kind"] == "block" else 1 for c in cases]
    shards = common.shard_by_weight(cases, ws, min(len(cases), common.NCPU * 3))
    envs = []
    for i, sh in enumerate(shards):
        p = os.path.join(common.workdir(), "%s_%d.json" % (tag, i))
        common.write_json(p, {"cap": cap, "seed": common.seed(), "cases": sh})
        envs.append({"CASES": p})
    results = common.run_tlc_shards("CostTrace", "CostTrace.cfg", envs, timeout=timeout, tag=tag)
    verdicts, st = {}, {"states": 0, "transitions": 0, "evaluated": 0}
    for r in results:
        if not r.ok:
            raise common.MachineryError("CostTrace TLC run failed:\n" + r.out[-2500:])
        ev = r.tagged("EVALUATED")
        if not ev or ev[0][1] != ev[0][2]:
            raise common.MachineryError("CostTrace did not evaluate every state")
        st["states"] += r.distinct
        st["transitions"] += r.generated
        st["evaluated"] += ev[0][1]
        for t in r.tagged("VERDICT"):
            verdicts.setdefault(t[1], []).append([t[2], t[3]])
    return verdicts, st


def run(tier):
    t0 = time.time()
    seed = common.seed()
    groups, gstats = c01.build_corpus(tier, seed)
    sets = OPTSETS_QUICK if tier == "quick" else OPTSETS_QUICK + [
        ("greedy-length-storage-norules", ["-greedy", "-length", "-storage", "-no-simplification"]),
        ("greedy-size-partition", ["-greedy", "-size", "-partition"]), ("greedy-gas-storage", ["-greedy", "-storage"]),
        ("z3-size", ["-solver", "z3", "-size", "-tout", "1"]), ("z3-gas-storage", ["-solver", "z3", "-storage", "-tout", "1"])]
    jobs = []
    for i, (name, argv) in enumerate(sets):
        smt = "-greedy" not in argv
        cmds = list(groups["H"])
        if tier == "quick":
            cmds += corpus.sample(groups["Xrule"], 60 if smt else 500, seed + i) + corpus.sample(groups["Xvoc"], 40 if smt else 400, seed + i)
            cmds += corpus.sample(groups["S"], 0 if smt else 60, seed + i) + corpus.sample(groups["R"], 40 if smt else 250, seed + i)
        else:
            cmds += corpus.sample(groups["Xrule"], 150 if smt else 10 ** 6, seed + i) + corpus.sample(groups["Xvoc"], 80 if smt else 6000, seed + i)
            cmds += corpus.sample(groups["Xchain"], 100 if smt else 3000, seed + i)
            cmds += corpus.sample(groups["S"], 20 if smt else 600, seed + i) + corpus.sample(groups["R"], 80 if smt else 10 ** 6, seed + i)
        cmds += [{"cmd": "opt", "text": t} for t in PINNED]
        if crit_of(argv) == "gas" and not smt:
            cmds += groups["Xwarm"]          # warm/cold pricing: account and storage accesses on shared values
        elif crit_of(argv) == "gas":
            cmds += corpus.sample(groups["Xwarm"], 60, seed + i)
        jobs.append((name, argv, [dict(c) for c in cmds]))
    # whole small contracts for the totals
    rnd = random.Random(seed)
    real = corpus.real_blocks()
    ncontracts = 12 if tier == "quick" else 80
    tot_cmds = []
    for _ in range(ncontracts):
        bl = [real[rnd.randrange(len(real))]["items"] for _ in range(rnd.randint(2, 5))]
        br = [real[rnd.randrange(len(real))]["items"] for _ in range(rnd.randint(2, 5))]
        tot_cmds.append({"cmd": "totals", "init": [it for b in bl for it in b], "run": [it for b in br for it in b]})
    tot_jobs = [(argv, [dict(c) for c in tot_cmds]) for _, argv in sets[:3]]
    results = pool.run_matrix([(argv, cmds) for _, argv, cmds in jobs] + tot_jobs, timeout=40)
    cases, index = [], {}
    cnt = {"blocks": 0, "changed": 0, "killed": 0, "exceptions": 0, "contracts": 0, "contract_exceptions": 0}
    for (name, argv, cmds), res in zip(jobs, results[:len(jobs)]):
        crit = crit_of(argv)
        for cmd, r in zip(cmds, res):
            if r.get("killed"):
                cnt["killed"] += 1
                continue
            for b in r.get("blocks", []):
                cnt["blocks"] += 1
                if "exc" in b:
                    cnt["exceptions"] += 1
                    continue
                ko, kn = c01.instr_key(b["orig"]), c01.instr_key(b["opt"])
                if ko == kn:
                    continue
                cnt["changed"] += 1
                key = (ko, kn, crit)
                if key in index:
                    continue
                index[key] = True
                cases.append({"kind": "block", "id": len(cases) + 1, "orig": equiv.strip(b["orig"]), "opt": equiv.strip(b["opt"]), "crit": crit,
                              "_plain": b["plain"], "_opt": name, "_o": b["orig"], "_n": b["opt"], "_tool": b.get("costs")})
    for (argv, cmds), res in zip(tot_jobs, results[len(jobs):]):
        for r in res:
            if r.get("killed"):
                cnt["killed"] += 1
                continue
            cnt["contracts"] += 1
            if "exc" in r or "totals" not in r:
                cnt["contract_exceptions"] += 1
                continue
            cases.append({"kind": "totals", "id": len(cases) + 1, "rows": [{k: row[k] for k in ("og", "ng", "os", "ns", "ol", "nl")} for row in r["rows"]],
                          "totals": r["totals"], "_opt": " ".join(argv), "_n": len(r["rows"])})
    verdicts, st = run_cost([{k: v for k, v in c.items() if not k.startswith("_")} for c in cases], 32 if tier == "quick" else 128)
    viol, undec = [], 0
    for c in cases:
        vl = verdicts.get(c["id"], [])
        bad = [v for v in vl if v[1] != "undecided"]
        if bad:
            if c["kind"] == "block":
                d = {"orig": c01.plain_of(c["_o"]), "opt": c01.plain_of(c["_n"]), "criterion": c["crit"], "options": c["_opt"], "clause": bad[0][1],
                     "tool_costs": c["_tool"]}
            else:
                d = {"rows": c["rows"], "totals": c["totals"], "options": c["_opt"], "clause": bad[0][1]}
            d["_states"] = sorted({v[0] for v in bad})
            viol.append((d, ("violates", bad[0][1], bad[0][0], len(bad))))
        elif vl:
            undec += 1
    def keys(d):
        ks = ["%s => %s | %s | %s" % (d.get("orig"), d.get("opt"), d.get("criterion"), d.get("clause"))]
        toks = (d.get("opt") or "").split()
        swap_pair = any(a == b and a.startswith("SWAP") for a, b in zip(toks, toks[1:]))
        # grid states 1 and 2 are the generic ones (all stack words distinct and unrelated to the constants of the block)
        if d.get("clause") == "gas grew" and swap_pair and min(d.get("_states") or [0]) > 2:
            ks.append("gas|alias-states-only|swap-pair")
        return ks
    out = findings.settle("C08", viol, lambda d: dict({k: v for k, v in d.items() if k != "_states"},
                                                      key="%s => %s | %s | %s" % (d.get("orig"), d.get("opt"), d.get("criterion"), d.get("clause")),
                                                      failing_states=d.get("_states", [])[:8]), keys)
    nblock = len([c for c in cases if c["kind"] == "block"])
    ntot = len(cases) - nblock
    if nblock == 0 or ntot == 0:
        raise common.MachineryError("vacuity guard: no changed block or no contract totals reached TLC")
    cov = {"states": st["states"], "transitions": st["transitions"], "traces_validated_against_impl": len(cases),
           "samples": [{"orig": c01.plain_of(c["_o"]), "opt": c01.plain_of(c["_n"]), "criterion": c["crit"], "options": c["_opt"]}
                       for c in [x for x in cases if x["kind"] == "block"][:3]] +
                      [{"totals": c["totals"], "blocks": c["_n"], "options": c["_opt"]} for c in [x for x in cases if x["kind"] == "totals"][:2]],
           "evaluations": cnt["blocks"] + cnt["contracts"], "distinct_nontrivial": nblock,
           "rule": "one evaluation = one (block, option set) run of the real pipeline or one contract run; non-trivial = emitted block differs from the input; "
                   "distinct (input, emitted, criterion)",
           "grid_states_evaluated": st["evaluated"], "contract_totals_checked": ntot, "undecided_cases": undec, "driver": cnt,
           "option_sets": [n for n, _ in sets], "violating": len(viol), "exhaustive": False}
    return {"level": "model_checking", "coverage": cov, "violations": out, "wall": time.time() - t0,
            "assumptions": ["run-time gas under the schedule of spec/EVMCost.tla: no memory expansion, no refunds, SSTORE reset price",
                            "'improves' is evaluated with gas on the generic grid state; monotonicity on every grid state",
                            "pseudo-push widths by the tool's convention (equal on both sides)"]}
