"""C14 - splitting partitions the block; rebuilding with nothing optimized is identity.

(G) spec/SeqGen.tla enumerates block bodies (all small blocks over a vocabulary with split instructions and
    stores; chunked long blocks around the 22-instruction threshold of -partition), the harness wraps them
    (tag/JUMPDEST first, jump/terminal last);
(D) harness/worker_c14.py runs the REAL front-end (both reporters) and the REAL rebuild_optimized_asm_block
    (nothing replaced; each single sub-block replaced by a marker) under each of the three split policies,
    one worker option set per policy;
(V) spec/AsmTrace.tla computes every verdict from the definitions of spec/Asm.tla."""
import concurrent.futures as cf
import json
import os
import re
import sys
import threading
import time

sys.path.insert(0, os.path.dirname(os.path.dirname(os.path.abspath(__file__))))
import common
import findings
import gen
import gen_c14
import pool

POLICIES = [("default", []), ("storage", ["-storage"]), ("partition", ["-partition"])]
STAT_NAMES = ["ge2_subblocks", "consecutive_splits", "empty_subblock", "partitioned_at_store", "keys_checked",
              "rebuilds_compared", "replace_undecided", "diag_split_instruction_inside_subblock"]

# hand-picked layouts; bodies are wrapped like the generated ones
HAND = ["ASSIGNIMMUTABLE 7 PUSH 1 PUSH 2 ADD", "PUSH 1 PUSH 2 ASSIGNIMMUTABLE 7 PUSH 1 POP ASSIGNIMMUTABLE 8",
        "PUSH 1 PUSH 10 ADD PUSH 1 PUSH 100 GAS PUSH 1 PUSH 10", "PUSH 10 GAS PUSH 1", "PUSH 0 GAS PUSH 0 PUSH 0 LOG0 PUSH 0",
        "PUSH #[$] 00 DUP1 PUSH [$] 00 PUSH 0 CODECOPY PUSH 0 PUSH 1 ADD", "PUSH data a1 PUSH 1 ADD GAS PUSHSIZE PUSHDEPLOYADDRESS ADD",
        "PUSHLIB abc PUSH 1 LOG1 PUSHLIB abd PUSHLIB abc POP", "PUSH [tag] 2 GAS PUSH [tag] 2 GAS",
        "GAS", "GAS GAS", "MSTORE", "MSTORE MSTORE", "LOG1 LOG1", "PUSH 1", "POP GAS POP", "DUP1 SWAP1 GAS SWAP1 SWAP1",
        "PUSH 1 PUSH 2 PUSH 3 PUSH 4 PUSH 5 PUSH 6 PUSH 7 CALL PUSH 1 PUSH 2 PUSH 3 PUSH 4 PUSH 5 PUSH 6 STATICCALL ADD",
        "DUP16 SWAP16 MSTORE DUP16 GAS SWAP16 SSTORE"]
# blocks as the tool's parser builds them that are not of the form tag/JUMPDEST* body end?: SELFDESTRUCT is in the
# tool's end_block set (not optimizable) but does not end a block in its parser
HAND_RAW = ["PUSH 1 SELFDESTRUCT PUSH 1", "tag 1 JUMPDEST PUSH 1 SELFDESTRUCT PUSH 1 JUMP", "PUSH 1 PUSH 1 SELFDESTRUCT PUSH 1 GAS PUSH 1 STOP",
            "tag 1 JUMPDEST SELFDESTRUCT PUSH 1 GAS POP", "PUSH 1 PUSH 2 ADD SELFDESTRUCT"]


# ---------------------------------------------------------------------------------------------
# (G)

def stride(items, n, seed):
    """deterministic sample: every len/n-th element starting at an offset derived from the seed"""
    items = list(items)
    if n is None or len(items) <= n:
        return items
    step = len(items) / float(n)
    off = (seed * 7919) % max(1, int(step))
    return [items[min(len(items) - 1, int(off + i * step))] for i in range(n)]


def build_corpus(tier, seed):
    quick = tier == "quick"
    tlc = {"states": 0, "transitions": 0, "runs": 0}
    stats = {}
    lock = threading.Lock()

    def enum(vocab, shapes, maxin, simulate=None, sd=0):
        texts, r = gen.enumerate_blocks(vocab, shapes, maxin, simulate=simulate, seed=seed + sd, timeout=2400)
        with lock:
            tlc["states"] += r.distinct
            tlc["transitions"] += r.generated
            tlc["runs"] += 1
        return texts

    sv, xv, lv = gen_c14.small_vocab(), gen_c14.small_vocab(extra=True), gen_c14.long_vocab()
    nex = 3 if quick else 4
    plan = {"small": (sv, [gen_c14.stars(n) for n in range(1, nex + 2)], 9, None, 0),
            "corner": (xv, gen_c14.CORNER_SHAPES, 9, None, 0),
            "S6": (xv, [gen_c14.stars(5), gen_c14.stars(6)], 9, (500 if quick else 6000, 7), 2),
            "Lone": (lv, gen_c14.LONG_ONE, 16, None, 0),
            # instructions reaching 8..16 deep around stores and split instructions (operand indices across s(9)/s(10))
            "deep": (gen.deep_vocab(), [gen_c14.stars(2), gen_c14.stars(3)], 17, None, 0)}
    if quick:
        plan["Lmulti"] = (lv, gen_c14.LONG_TWO + gen_c14.LONG_MIX, 16, (2000, 11), 4)
    else:
        plan["Ltwo"] = (lv, gen_c14.LONG_TWO, 16, None, 0)
        plan["Lmix"] = (lv, gen_c14.LONG_MIX, 16, None, 0)
    with cf.ThreadPoolExecutor(max_workers=min(common.NCPU, len(plan))) as ex:
        futs = {k: ex.submit(enum, *v) for k, v in plan.items()}
        got = {k: f.result() for k, f in futs.items()}

    def window(ts):
        return [t for t in ts if 18 <= gen_c14.length(t) <= 30]
    groups = {}
    groups["Xsmall"] = [t for t in got["small"] if gen_c14.length(t) <= nex]                 # exhaustive
    nxt = [t for t in got["small"] if gen_c14.length(t) == nex + 1]
    stats["X%d_space" % (nex + 1)] = len(nxt)
    groups["X%d" % (nex + 1)] = stride(nxt, 1000 if quick else 20000, seed)
    stats["Xcorner_space"] = len(got["corner"])
    groups["Xcorner"] = stride(got["corner"], 800 if quick else 9000, seed + 1)
    groups["S6"] = got["S6"]
    groups["Xdeep"] = [t for t in got["deep"] if gen_c14.length(t) <= 2] + \
        stride([t for t in got["deep"] if gen_c14.length(t) > 2], 400 if quick else 6000, seed + 7)
    one = window(got["Lone"])
    stats["Lone_space"] = len(one)
    groups["Lone"] = stride(one, 360 if quick else None, seed + 3)
    if quick:
        groups["Lmulti"] = window(got["Lmulti"])[:450]
    else:
        two, mix = window(got["Ltwo"]), window(got["Lmix"])
        stats["Ltwo_space"], stats["Lmix_space"] = len(two), len(mix)
        groups["Lmulti"] = stride(two, 8000, seed + 5) + stride(mix, 5000, seed + 6)
    blocks, seen = [], set()

    def add(t, g):
        if t not in seen:
            seen.add(t)
            blocks.append({"text": t, "group": g})
    for g, texts in groups.items():
        for i, body in enumerate(texts):
            add(gen_c14.wrap(body, i + seed), g)             # one wrapper each, rotating (not counted in the length)
            if g == "Xsmall" and (quick or gen_c14.length(body) <= 3):
                add(body, g)
    for i, body in enumerate(HAND):
        for t in (body, gen_c14.wrap(body, 3), gen_c14.wrap(body, 1)):
            add(t, "H")
    for t in HAND_RAW:
        add(t, "Hraw")
    for g in list(groups) + ["H", "Hraw"]:
        stats[g] = sum(1 for b in blocks if b["group"] == g)
    return blocks, stats, tlc


# ---------------------------------------------------------------------------------------------
# (D)

def drive(blocks, policies=POLICIES, timeout=30):
    jobs = []
    for name, argv in policies:
        cmds = [{"cmd": "c14", "items": gen_c14.items_of(b["text"])} for b in blocks]
        jobs.append((["-greedy"] + argv, cmds))
    return pool.run_matrix(jobs, total_workers=max(len(policies), common.NCPU), timeout=timeout)


def new_counters():
    return {"commands": 0, "killed": 0, "nothing_to_optimize": 0, "frontend_exc": 0, "get_subblocks_exc": 0, "cases": 0,
            "reporters_differ": 0, "worker_exc": 0}


def case_of(rec, pname, text, group, cnt):
    """one block record of the worker -> typed case for AsmTrace (projection and interning only)"""
    table, items = {}, []

    def ix(seq):
        out = []
        for it in seq:
            k = json.dumps(it, sort_keys=True)
            if k not in table:
                items.append(it)
                table[k] = len(items)            # 1-based: TLA+ sequences
            out.append(table[k])
        return out
    has2 = rec.get("subs2") is not None
    if not has2:
        cnt["get_subblocks_exc"] += 1
    rbs = [{"which": 1, "k": x["k"], "exc": x["exc"], "out": ix(x["out"])} for x in rec["rb"]]
    if "rb2" in rec:
        cnt["reporters_differ"] += 1
        rbs += [{"which": 2, "k": x["k"], "exc": x["exc"], "out": ix(x["out"])} for x in rec["rb2"]]
    block, marker = ix(rec["block"]), ix(rec["marker"])
    return {"id": 0, "name": rec["name"], "policy": pname, "items": items, "block": block, "marker": marker,
            "subs": rec["subs"], "has2": has2, "subs2": rec["subs2"] if has2 else [], "keys": rec["keys"], "rbs": rbs,
            "_text": text, "_group": group, "_plain": rec["plain"], "_input": rec["input"]}


def collect(blocks, results, policies=POLICIES, cnt=None):
    cases = []
    cnt = new_counters() if cnt is None else cnt
    for (pname, _), res in zip(policies, results):
        for b, r in zip(blocks, res):
            cnt["commands"] += 1
            if r.get("killed"):
                cnt["killed"] += 1
                continue
            if "worker_exc" in r:
                cnt["worker_exc"] += 1
                cnt.setdefault("worker_exc_sample", r["worker_exc"]["msg"] + " :: " + b["text"][:100])
                continue
            for rec in r["blocks"]:
                if "skip" in rec:
                    cnt["nothing_to_optimize"] += 1
                elif "exc" in rec:
                    cnt["frontend_exc"] += 1          # tolerated by the pipeline: property C10, undecided here
                    cnt.setdefault("frontend_exc_sample", "%s: %s" % (pname, rec["plain"][:160]))
                else:
                    c = case_of(rec, pname, b["text"], b["group"], cnt)
                    c["id"] = len(cases) + 1
                    cases.append(c)
    cnt["cases"] += len(cases)
    return cases, cnt


# ---------------------------------------------------------------------------------------------
# (V)

def validate(cases, tag="asm", jobs=None, timeout=3000, per_shard=6000):
    """returns ({id: [position, clause]}, summed STATS, tlc statistics)"""
    stats = [0] * len(STAT_NAMES)
    st = {"states": 0, "transitions": 0, "jvms": 0, "wall": 0.0}
    if not cases:
        return {}, stats, st
    jobs = jobs or common.NCPU
    pub = [{k: v for k, v in c.items() if not k.startswith("_")} for c in cases]
    nsh = max(min(len(pub), jobs), (len(pub) + per_shard - 1) // per_shard)
    shards = common.shard_by_weight(pub, [len(c["block"]) * (3 + len(c["rbs"])) for c in pub], nsh)
    envs = []
    for i, sh in enumerate(shards):
        p = os.path.join(common.workdir(), "%s_cases_%d.json" % (tag, i))
        common.write_json(p, {"cases": sh})
        envs.append({"CASES": p})
    t0 = time.time()
    results = common.run_tlc_shards("AsmTrace", "AsmTrace.cfg", envs, timeout=timeout, jobs=jobs, tag=tag)
    st["wall"] = time.time() - t0
    verdicts = {}
    for r, sh, e in zip(results, shards, envs):
        if not r.ok:
            raise common.MachineryError("AsmTrace TLC run failed:\n" + r.out[-3000:])
        cons = r.tagged("CONSUMED")
        if not cons or cons[0][1] != len(sh) or cons[0][2] != len(sh):
            raise common.MachineryError("AsmTrace did not consume every case: %r" % (cons,))
        s = r.tagged("STATS")
        if len(s) != 1:
            raise common.MachineryError("AsmTrace printed no STATS line")
        stats = [a + b for a, b in zip(stats, s[0][1])]
        st["states"] += r.distinct
        st["transitions"] += r.generated
        st["jvms"] += 1
        for t in r.tagged("VERDICT"):
            verdicts[t[1]] = [t[2], t[3]]
        os.remove(e["CASES"])
    return verdicts, stats, st


# ---------------------------------------------------------------------------------------------
# violations: canonical key = (clause class, shrunk block).  Shrinking is delta debugging with the real code
# and TLC in the loop: every candidate is judged by AsmTrace, never by Python.

def clause_class(clause):
    m = re.match(r"(.*?: [A-Za-z]*(Error|Exception))", clause)
    return re.sub(r"\d+", "#", m.group(1) if m else clause)[:160]


class Bench:
    """one persistent worker per policy for the many small batches of the shrinker"""

    def __init__(self):
        self.w = {n: pool.Worker(["-greedy"] + a) for n, a in POLICIES}
        self.cache = {}

    def close(self):
        for w in self.w.values():
            w.close()

    def judge(self, texts_pol):
        """[(text, policy)] -> list of clause classes (None = no violation / undecided)"""
        todo = sorted(set(tp for tp in texts_pol if tp not in self.cache))
        per = {n: [t for t, p in todo if p == n] for n, _ in POLICIES}
        res = {}

        def loop(n):
            res[n] = [self.w[n].call({"cmd": "c14", "items": gen_c14.items_of(t), "id": i}, 30) for i, t in enumerate(per[n])]
        ts = [threading.Thread(target=loop, args=(n,)) for n in per if per[n]]
        for t in ts:
            t.start()
        for t in ts:
            t.join()
        cases = []
        for n, _ in POLICIES:
            if per[n]:
                cs, _cnt = collect([{"text": t, "group": "shrink"} for t in per[n]], [res[n]], [(n, [])])
                for c in cs:
                    c["id"] = len(cases) + 1
                    cases.append(c)
        verdicts, _s, _st = validate(cases, tag="shr")
        for tp in todo:
            self.cache[tp] = None
        for c in cases:
            if c["id"] in verdicts and self.cache[(c["_text"], c["policy"])] is None:
                self.cache[(c["_text"], c["policy"])] = clause_class(verdicts[c["id"]][1])
        return [self.cache[tp] for tp in texts_pol]


def ddmin(bench, todo, rounds=12):
    """todo: [(id, tokens, policy, wanted class)] -> {id: minimal tokens}: removes instructions while AsmTrace still
    reports the same clause class under the same policy (1-minimal unless the round limit is hit)"""
    cur = {i: list(t) for i, t, _, _ in todo}
    pol = {i: p for i, _, p, _ in todo}
    want = {i: w for i, _, _, w in todo}
    active = {i for i in cur if len(cur[i]) > 1}
    for _ in range(rounds):
        if not active:
            break
        cands = [(i, j) for i in sorted(active) for j in range(len(cur[i]))]
        verd = bench.judge([(" ".join(cur[i][:j] + cur[i][j + 1:]), pol[i]) for i, j in cands])
        good = {}
        for (i, j), v in zip(cands, verd):
            if v == want[i]:
                good.setdefault(i, []).append(j)
        # optimistic: drop all individually removable instructions at once; verify; else drop only the first
        combos = []
        for i, js in sorted(good.items()):
            toks = [t for j, t in enumerate(cur[i]) if j not in set(js)]
            if toks and len(js) > 1:
                combos.append((i, toks))
        verd2 = bench.judge([(" ".join(toks), pol[i]) for i, toks in combos]) if combos else []
        okc = {i for (i, _), v in zip(combos, verd2) if v == want[i]}
        for i, toks in combos:
            if i in okc:
                cur[i] = toks
        for i in list(active):
            if i not in good:
                active.discard(i)                      # 1-minimal
            elif i not in okc:
                j = good[i][0]
                cur[i] = cur[i][:j] + cur[i][j + 1:]
            if len(cur[i]) <= 1:
                active.discard(i)
    return cur


def is_subseq(small, big):
    it = iter(big)
    return all(any(x == y for y in it) for x in small)


MAX_WAVES = 2          # shrinking effort is bounded: a defect that hits most blocks must not stall the check
MAX_LISTED = 40        # replay files written per run (every violating case is still counted in the evidence)


def label(viol):
    """{case id: minimal block text} for the cases that could be labelled within the effort bound.  The shortest
    unlabelled cases of every clause class are shrunk; a case that contains an already found minimal block of its
    class (as a subsequence) takes that label (the label only groups violations that TLC has already established,
    it decides nothing)."""
    info = {c["id"]: (gen.tokens(c["_text"]), c["policy"], clause_class(v[1])) for c, v in viol}
    mins, lab = {}, {}
    bench = Bench()
    try:
        for _wave in range(MAX_WAVES + 1):
            wave, per_class = [], {}
            for cid in sorted((i for i in info if i not in lab), key=lambda i: (len(info[i][0]), i)):
                toks, p, cl = info[cid]
                hit = [m for m in mins.get(cl, []) if is_subseq(m, toks)]
                if hit:
                    lab[cid] = " ".join(min(hit, key=lambda m: (len(m), m)))
                elif per_class.get(cl, 0) < 4 and len(wave) < 12:
                    per_class[cl] = per_class.get(cl, 0) + 1
                    wave.append((cid, toks, p, cl))
            if not wave or _wave == MAX_WAVES:
                break
            for cid, toks in ddmin(bench, wave).items():
                lab[cid] = " ".join(toks)
                cl = info[cid][2]
                if tuple(toks) not in mins.setdefault(cl, []):
                    mins[cl].append(tuple(toks))
    finally:
        bench.close()
    return lab


def settle(viol):
    """one finding per (clause class, shrunk block); every violating case is accounted for in the summary, at most
    MAX_LISTED findings are written as replay files (shrunk ones first, then the shortest unshrunk blocks)"""
    if not viol:
        return {"known_hit": 0, "known_lines": [], "new": []}, [], 0
    mins = label(viol)
    bykey = {}
    for c, v in viol:
        shrunk = c["id"] in mins
        key = clause_class(v[1]) + " | " + (mins[c["id"]] if shrunk else "(not shrunk) " + c["_text"])
        e = bykey.setdefault(key, {"case": c, "verdict": v, "policies": set(), "min": mins.get(c["id"]), "n": 0, "shrunk": shrunk})
        if len(c["block"]) < len(e["case"]["block"]):
            e["case"], e["verdict"] = c, v
        e["policies"].add(c["policy"])
        e["n"] += 1
    order = sorted(bykey.items(), key=lambda ke: (not ke[1]["shrunk"], len(ke[1]["case"]["block"]), ke[0]))
    info, items = {}, []
    for k, e in order[:MAX_LISTED]:
        info[e["case"]["id"]] = (k, e)
        items.append((e["case"], ("violates", e["verdict"][1], e["verdict"][0])))

    def describe(c):
        k, e = info[c["id"]]
        return {"block": c["_text"], "plain": c["_plain"], "policy": sorted(e["policies"]), "clause": e["verdict"][1],
                "position": e["verdict"][0], "minimal_block": e["min"], "subs": c["subs"], "cases_this_run": e["n"], "key": k}
    def keys(c):
        k, e = info[c["id"]]
        toks = c["_text"].split()
        ks = [k]
        # input class: a block-ending instruction (SELFDESTRUCT) followed by further instructions (dead code)
        if "SELFDESTRUCT" in toks[:-1] and "rebuild raised" in k:
            ks.append("rebuild raised | block-ending instruction inside the block")
        return ks
    out = findings.settle("C14", items, describe, keys)
    summary = [{"key": k, "policies": sorted(e["policies"]), "cases": e["n"], "example": e["case"]["_text"][:200],
                "clause": e["verdict"][1]} for k, e in order[:MAX_LISTED]]
    rest = order[MAX_LISTED:]
    if rest:
        # never silently drop a violation: the overflow is itself a (new) violation with one example
        k, e = rest[0]
        out["new"].append(common.save_replay("C14", "overflow", {"property": "C14", "key": "overflow", "verdict": ["violates", e["verdict"][1], e["verdict"][0]],
                                                                 "case": {"block": e["case"]["_text"], "policy": sorted(e["policies"]), "clause": e["verdict"][1],
                                                                          "not_listed": len(rest), "more": [x[1]["case"]["_text"][:200] for x in rest[1:20]]}}))
    return out, summary, len(rest)


# ---------------------------------------------------------------------------------------------

def run(tier):
    t0 = time.time()
    seed = common.seed()
    blocks, gstats, gtlc = build_corpus(tier, seed)
    t_gen = time.time() - t0
    cnt = new_counters()
    stats = [0] * len(STAT_NAMES)
    st = {"states": 0, "transitions": 0, "jvms": 0}
    viol, nontrivial, by_policy, samples, ncases = [], set(), {p: 0 for p, _ in POLICIES}, [], 0
    t_drive = t_val = 0.0
    chunk = 6000
    for lo in range(0, len(blocks), chunk):
        part = blocks[lo:lo + chunk]
        t1 = time.time()
        results = drive(part)
        t_drive += time.time() - t1
        cases, cnt = collect(part, results, cnt=cnt)
        del results
        for c in cases:
            ncases += 1
            c["id"] = ncases
        t1 = time.time()
        verdicts, s, s2 = validate(cases, tag="asm%d" % lo)
        t_val += time.time() - t1
        stats = [a + b for a, b in zip(stats, s)]
        for k in st:
            st[k] += s2[k]
        for c in cases:
            by_policy[c["policy"]] += 1
            if len(c["subs"]) >= 2:
                nontrivial.add(common.stable_hash([c["_plain"], c["policy"]]))
            if c["id"] in verdicts:
                viol.append((c, verdicts[c["id"]]))
        if len(samples) < 4:
            pick = [c for c in cases if len(c["subs"]) >= 3][:2] + \
                   [c for c in cases if c["policy"] == "partition" and c["_group"].startswith("L") and len(c["subs"]) >= 2][:2]
            samples += [{"block": c["_plain"], "policy": c["policy"], "sub_blocks": c["subs"],
                         "keys": [[k["key"], k["src"], k["tgt"]] for k in c["keys"]],
                         "verdict": verdicts.get(c["id"], [0, "ok"])[1]} for c in pick]
        del cases
    if cnt["worker_exc"]:
        raise common.MachineryError("the worker failed on generated input: %s" % cnt.get("worker_exc_sample"))
    sd = dict(zip(STAT_NAMES, stats))
    t1 = time.time()
    out, summary, unlisted = settle(viol)
    t_shrink = time.time() - t1
    if min(by_policy.values()) == 0:
        raise common.MachineryError("vacuity guard: a split policy produced no case: %r" % by_policy)
    if sd["consecutive_splits"] == 0 or sd["empty_subblock"] == 0 or sd["partitioned_at_store"] == 0 or sd["rebuilds_compared"] == 0:
        raise common.MachineryError("vacuity guard: consecutive splits / empty sub-block / partitioned long block missing: %r" % sd)
    cov = {"states": st["states"] + gtlc["states"], "transitions": st["transitions"] + gtlc["transitions"],
           "traces_validated_against_impl": ncases, "samples": samples[:4],
           "evaluations": cnt["commands"], "distinct_nontrivial": len(nontrivial),
           "rule": "one evaluation = one (block, split policy) run of the real front-end (two reporters) and of the real "
                   "rebuild_optimized_asm_block (1 + number of sub-blocks calls); distinct non-trivial = distinct (block, policy) "
                   "with at least 2 reported sub-blocks; states/transitions = TLC statistics of SeqGen (generation) and AsmTrace (validation)",
           "exhaustive": False,
           "exhaustive_part": "all blocks up to length %d over the %d-instruction vocabulary (input depth <= 9)%s" % (
               3 if tier == "quick" else 4, len(gen_c14.SMALL), "" if tier == "quick" else ", all one-store long blocks of length 18..30"),
           "validator_counters": sd, "driver": cnt, "corpus": gstats, "cases_by_policy": by_policy,
           "violating_cases": len(viol), "violation_classes": summary, "violation_classes_not_listed": unlisted, "known_findings_hit": out["known_hit"],
           "new_violations": len(out["new"]), "undecided": cnt["killed"] + cnt["frontend_exc"] + sd["replace_undecided"],
           "wall_split_s": {"generate": round(t_gen, 1), "drive": round(t_drive, 1), "validate": round(t_val, 1), "shrink": round(t_shrink, 1)},
           "tlc_jvms": st["jvms"] + gtlc["runs"]}
    return {"level": "model_checking", "coverage": cov, "violations": out, "wall": time.time() - t0,
            "level_note": "a reported split is accepted when it is A valid split for the policy (cuts only at allowed instructions); the "
                          "-partition heuristic's choice is not prescribed; stack propagation is checked on stack sizes only",
            "assumptions": [
                "a split instruction may be reported by its opcode alone (ASSIGNIMMUTABLE without operand); all other entries exact",
                "stack propagation: |src_k| <= height available after the previous sub-blocks and split instruction, "
                "|tgt_k| - |src_k| = net effect of the sub-block's own instructions (variable identity is not observable after renaming)",
                "replacing a sub-block is specified only when its segment consists of optimizable items (otherwise undecided)",
                "an exception of the front-end is tolerated by the pipeline and belongs to C10: undecided here",
                "sub-blocks without a specification (empty or identity) are legal: only 'every key names one reported sub-block, "
                "and is about that sub-block's instructions' is demanded"]}


def replay(path):
    with open(path) as f:
        d = json.load(f)
    case = d["case"]
    pols = [(n, a) for n, a in POLICIES if n in case["policy"]]
    bad = 0
    for text in (case["block"], case.get("minimal_block")):
        if not text:
            continue
        blocks = [{"text": text, "group": "replay"}]
        cases, cnt = collect(blocks, drive(blocks, pols), pols)
        verdicts, stats, st = validate(cases, tag="rep")
        for c in cases:
            v = verdicts.get(c["id"])
            print("%s | policy=%s sub-blocks=%r -> %s" % (c["_plain"], c["policy"], c["subs"], v if v else "ok"))
        bad += len(verdicts)
    return 1 if bad else 0


def selftest():
    """corrupt one recorded field of an accepted case and show that AsmTrace rejects each corruption"""
    import copy
    blocks = [{"text": "tag 1 JUMPDEST PUSH 1 PUSH 2 ADD GAS POP PUSH 3 GAS GAS ADD JUMP", "group": "selftest"}]
    cases, cnt = collect(blocks, drive(blocks, POLICIES[:1]), POLICIES[:1])
    base = cases[0]
    muts = [("unchanged", lambda c: None, None)]

    def m_swap(c):
        c["subs"][1][1], c["subs"][1][2] = c["subs"][1][2], c["subs"][1][1]
    muts.append(("swap two instructions in a recorded sub-block", m_swap, "split"))

    def m_cut(c):
        c["subs"] = [c["subs"][0][:2], c["subs"][0][1:]] + c["subs"][1:]
    muts.append(("additional cut at PUSH 2 (not a split instruction)", m_cut, "split"))

    def m_marker(c):
        dead = [i + 1 for i, it in enumerate(c["items"]) if it["v"] == "dead"]
        c["rbs"][2]["out"] = [i for i in c["rbs"][2]["out"] if i not in dead]
    muts.append(("drop the marker PUSH from a recorded rebuild result", m_marker, "rebuild differs"))

    def m_field(c):
        it = dict(c["items"][c["rbs"][0]["out"][3] - 1])
        it["b"] += 1
        c["items"].append(it)
        c["rbs"][0]["out"][3] = len(c["items"])
    muts.append(("change the begin field of one item in the all-None rebuild result", m_field, "rebuild differs"))

    def m_dup(c):
        c["rbs"][3]["out"].insert(8, c["rbs"][3]["out"][8])
    muts.append(("split instruction emitted twice in a recorded rebuild result", m_dup, "rebuild differs"))

    def m_key(c):
        c["keys"][0]["key"] = c["name"] + "_7"
    muts.append(("rename a specification key to a sub-block that does not exist", m_key, "keys"))

    def m_orig(c):
        c["keys"][1]["orig"] = c["keys"][1]["orig"] + ["GAS"]
    muts.append(("a specification that also covers its closing split instruction", m_orig, "keys"))

    def m_src(c):
        c["keys"][2]["src"] += 3
        c["keys"][2]["tgt"] += 3
    muts.append(("specification of the last sub-block starts from 3 more elements than the stack holds", m_src, "keys"))

    def m_tgt(c):
        c["keys"][1]["tgt"] += 1
    muts.append(("target stack one element too large", m_tgt, "keys"))

    def m_exc(c):
        c["rbs"][1]["exc"], c["rbs"][1]["out"] = "AssertionError: ", []
    muts.append(("a rebuild call that raised", m_exc, "rebuild raised"))
    batch = []
    for i, (name, f, expect) in enumerate(muts):
        c = copy.deepcopy(base)
        c["id"] = i + 1
        f(c)
        batch.append(c)
    verdicts, stats, st = validate(batch, tag="self", jobs=1)
    ok = True
    for i, (name, f, expect) in enumerate(muts):
        v = verdicts.get(i + 1)
        good = (v is None) if expect is None else (v is not None and v[1].startswith(expect))
        ok = ok and good
        print("%-88s -> %s%s" % (name, "accepted" if v is None else "REJECTED at %s: %s" % (v[0], v[1]), "" if good else "   <-- UNEXPECTED"))
    common.cleanup()
    return 0 if ok else 1


if __name__ == "__main__":
    sys.exit(selftest())
