"""C01 - optimized blocks are observationally equivalent to the original.

(G) TLC (SeqGen) enumerates / simulates blocks; (D) the real optimizer runs on every block under
several option sets (optimize, compare, keep-or-revert as optimize_asm_contract does); (V) TLC
(EVMEquiv over EVM/Words/Grid) decides equivalence of (input block, emitted block) on the grid."""
import time

import common
import corpus
import equiv
import findings
import gen
import pool

OPTSETS_QUICK = [
    ("greedy", ["-greedy"]),
    ("greedy-size-storage-nopush0", ["-greedy", "-size", "-storage", "-push0"]),
    ("greedy-length-partition-norules", ["-greedy", "-length", "-partition", "-no-simplification"]),
    ("ubgreedy-z3-storage", ["-ub-greedy", "-solver", "z3", "-storage", "-tout", "1"]),
    ("z3-size-partition-nopush0", ["-solver", "z3", "-size", "-partition", "-push0", "-tout", "1"]),
    ("z3-length-norules", ["-solver", "z3", "-length", "-no-simplification", "-tout", "1"]),
]


def all_optsets():
    out = []
    for split in ([], ["-storage"], ["-partition"]):
        for crit in ([], ["-size"], ["-length"]):
            for rules in ([], ["-no-simplification"]):
                for p0 in ([], ["-push0"]):
                    for be in (["-greedy"], ["-ub-greedy", "-solver", "z3", "-tout", "1"], ["-solver", "z3", "-tout", "1"]):
                        argv = be + split + crit + rules + p0
                        out.append(("+".join(a.lstrip("-") for a in argv if a not in ("1",)), argv))
    return out


def is_smt(argv):
    return "-greedy" not in argv


def build_corpus(tier, seed):
    """returns list of (group, cmd) where cmd is a worker 'opt' command without id"""
    groups = {}
    hand = corpus.hand_blocks()
    groups["H"] = [{"cmd": "opt", "text": t} for t in hand]
    gstats = {}
    if tier == "quick":
        rb, r1 = gen.enumerate_blocks(gen.rule_vocab(gen.C5), gen.RULE_SHAPES_BASIC, 3)
        rc, r2 = gen.enumerate_blocks(gen.rule_vocab(gen.C3), gen.RULE_SHAPES_CTX, 3)
        xs = []
        for name, v in (("mem", gen.mem_vocab(small=True)), ("sto", gen.sto_vocab()), ("env", gen.env_vocab()),
                        ("split", gen.split_vocab()), ("stack", gen.stack_vocab())):
            b, r = gen.enumerate_blocks(v, [["*"], ["*", "*"]], 4)
            gstats[name] = len(b)
            xs += b
        b, r = gen.enumerate_blocks(gen.mem3_vocab(), [["*", "*", "*"]], 4)
        gstats["mem3"] = len(b)
        mem3 = b
        sim = []
        for name, v, n in (("mem", gen.mem_vocab(), 40), ("sto", gen.sto_vocab(), 30),
                           ("mixed", gen.mem_vocab(small=True) + gen.sto_vocab() + gen.split_vocab() + gen.stack_vocab(), 50)):
            b, r = gen.enumerate_blocks(v, [["*"] * 10], 5, simulate=(n, 11), seed=seed)
            sim += b
        real = corpus.sample(corpus.real_blocks(), 300, seed)
        rc = corpus.sample(rc, 500, seed)
        chain = []
        pairs, _ = gen.enumerate_blocks(gen.rule_vocab(gen.C3), [["S", "T", "B", "O"], ["T", "U", "O"]], 3)
    else:
        rb, r1 = gen.enumerate_blocks(gen.rule_vocab(gen.C9), gen.RULE_SHAPES_BASIC, 3)
        rc, r2 = gen.enumerate_blocks(gen.rule_vocab(gen.C5), gen.RULE_SHAPES_CTX, 3)
        chain, r3 = gen.enumerate_blocks(gen.rule_vocab(gen.C3), gen.RULE_SHAPES_CHAIN, 3)
        xs = []
        for name, v in (("mem", gen.mem_vocab()), ("sto", gen.sto_vocab()), ("env", gen.env_vocab()),
                        ("split", gen.split_vocab()), ("stack", gen.stack_vocab())):
            b, r = gen.enumerate_blocks(v, [["*"], ["*", "*"], ["*", "*", "*"]], 4)
            gstats[name] = len(b)
            xs += b
        sim = []
        for name, v, n in (("mem", gen.mem_vocab(), 600), ("sto", gen.sto_vocab(), 400),
                           ("mixed", gen.mem_vocab(small=True) + gen.sto_vocab() + gen.split_vocab() + gen.stack_vocab(), 1000)):
            for depth in (9, 15, 25):
                b, r = gen.enumerate_blocks(v, [["*"] * (depth - 1)], 6, simulate=(n // 3, depth), seed=seed + depth)
                sim += b
        real = corpus.real_blocks()
        pairs = []
    deep = gen.deep_blocks(400 if tier == "quick" else 4000, seed)
    gstats["deep"] = len(deep)
    xs += deep
    warm = gen.warm_blocks(700, 900, seed) if tier == "quick" else gen.warm_blocks(10 ** 6, 8000, seed)
    gstats["warm"] = len(warm)
    groups["Xwarm"] = [{"cmd": "opt", "text": t} for t in warm]
    cat = gen.rule_pattern_blocks()
    gstats["rule_catalogue_blocks"] = len(cat)
    groups["Xcat"] = [{"cmd": "opt", "text": t} for t in cat]
    shared = gen.shared_use_blocks(250, seed)
    gstats["rule_shared_use"] = len(shared)
    groups["Xpair"] = [{"cmd": "opt", "text": t} for t in pairs + shared] + [{"cmd": "opt", "text": t} for t in (mem3 if tier == "quick" else [])]
    gstats["rule_pairs"] = len(pairs)
    gstats.update({"rule_basic": len(rb), "rule_ctx": len(rc), "rule_chain": len(chain), "sim": len(sim), "real": len(real),
                   "hand": len(hand)})
    groups["Xrule"] = [{"cmd": "opt", "text": t} for t in rb + rc]
    groups["Xchain"] = [{"cmd": "opt", "text": t} for t in chain]
    groups["Xvoc"] = [{"cmd": "opt", "text": t} for t in xs]
    groups["S"] = [{"cmd": "opt", "text": t} for t in sim]
    groups["R"] = [{"cmd": "opt", "items": b["items"], "src": b["src"]} for b in real]
    return groups, gstats


def plan(tier, groups, seed):
    """which corpus groups run under which option sets"""
    jobs = []
    if tier == "quick":
        for i, (name, argv) in enumerate(OPTSETS_QUICK):
            cmds = []
            cmds += groups["H"]
            if is_smt(argv):
                cmds += corpus.sample(groups["Xrule"], 80, seed + i)
                cmds += corpus.sample(groups["Xcat"], 60, seed + i)
                cmds += corpus.sample(groups["Xvoc"], 40, seed + i)
                cmds += corpus.sample(groups["R"], 40, seed + i)
            else:
                cmds += groups["Xrule"] if i < 2 else corpus.sample(groups["Xrule"], 400, seed + i)
                cmds += corpus.sample(groups["Xvoc"], 2500, seed) if i == 0 else corpus.sample(groups["Xvoc"], 300, seed + i)
                cmds += groups["Xpair"] if i == 0 else corpus.sample(groups["Xpair"], 300, seed + i)
                cmds += groups["Xcat"] if i < 2 else corpus.sample(groups["Xcat"], 150, seed + i)
                cmds += corpus.sample(groups["Xwarm"], 300, seed + i)
                cmds += groups["S"]
                cmds += groups["R"]
            jobs.append((name, argv, [dict(c) for c in cmds]))
    else:
        sets = all_optsets()
        for i, (name, argv) in enumerate(sets):
            cmds = []
            cmds += groups["H"]
            if is_smt(argv):
                cmds += corpus.sample(groups["Xrule"], 50, seed + i)
                cmds += corpus.sample(groups["Xcat"], 40, seed + i)
                cmds += corpus.sample(groups["Xvoc"], 30, seed + i)
                cmds += corpus.sample(groups["R"], 30, seed + i)
            else:
                basic = len(argv) <= 2          # -greedy alone or with one more flag
                cmds += groups["Xrule"] if basic else corpus.sample(groups["Xrule"], 400, seed + i)
                cmds += corpus.sample(groups["Xchain"], 5000 if basic else 200, seed + i)
                cmds += groups["Xcat"] if basic else corpus.sample(groups["Xcat"], 150, seed + i)
                cmds += corpus.sample(groups["Xvoc"], 6000 if basic else 200, seed + i)
                cmds += corpus.sample(groups["Xwarm"], 2000 if basic else 100, seed + i)
                cmds += groups["S"] if basic else corpus.sample(groups["S"], 100, seed + i)
                cmds += corpus.sample(groups["R"], 2500 if basic else 250, seed + i)
            jobs.append((name, argv, [dict(c) for c in cmds]))
    return jobs


def instr_key(instrs):
    return tuple((i["op"], i["k"], tuple(i["w"])) for i in instrs)


def collect_cases(jobs, results):
    """changed (orig, emitted) pairs, deduplicated; plus counters"""
    cases, index = [], {}
    cnt = {"runs": 0, "blocks": 0, "changed": 0, "exceptions": 0, "killed": 0, "reverted": 0}
    for (name, argv, cmds), res in zip(jobs, results):
        for cmd, r in zip(cmds, res):
            cnt["runs"] += 1
            if r.get("killed"):
                cnt["killed"] += 1
                continue
            for b in r.get("blocks", []):
                cnt["blocks"] += 1
                if "exc" in b:
                    cnt["exceptions"] += 1
                    continue
                if b.get("eq") is False:
                    cnt["reverted"] += 1
                ko, kn = instr_key(b["orig"]), instr_key(b["opt"])
                if ko == kn:
                    continue
                cnt["changed"] += 1
                key = (ko, kn)
                if key not in index:
                    index[key] = len(cases)
                    cases.append({"id": len(cases) + 1, "orig": b["orig"], "opt": b["opt"], "plain": b["plain"],
                                  "opts": [name], "src": cmd.get("src", cmd.get("text", ""))[:200]})
                elif name not in cases[index[key]]["opts"]:
                    cases[index[key]]["opts"].append(name)
    return cases, cnt


def file_level_cases(files, argvs, first_id):
    """the real command line on whole files: every block of the emitted file against the block at the same position of
    the input file (read with the json module only).  Returns (cases, counters)."""
    import json
    import os
    import subprocess
    cases, cnt = [], {"files": 0, "file_runs_failed": 0, "file_blocks": 0, "file_changed": 0, "file_misaligned": 0}
    for f in files:
        for argv in argvs:
            d = os.path.join(common.workdir(), "cli_%d" % (len(cases) + cnt["files"] + cnt["file_runs_failed"]))
            os.makedirs(d, exist_ok=True)
            try:
                subprocess.run([common.VENV_PY, os.path.join(common.VERIF, "harness", "cli_run.py"), common.REPO, f] + argv, cwd=d,
                               stdout=subprocess.DEVNULL, stderr=subprocess.DEVNULL, timeout=900)
            except subprocess.TimeoutExpired:
                cnt["file_runs_failed"] += 1
                continue
            out = os.path.join(d, os.path.basename(f).split(".")[0] + "_optimized.json_solc")
            if not os.path.exists(out):
                cnt["file_runs_failed"] += 1
                continue
            cnt["files"] += 1
            din, dout = json.load(open(f)), json.load(open(out))
            for cname, c in din["contracts"].items():
                a_in = (c or {}).get("asm")
                a_out = (dout.get("contracts", {}).get(cname) or {}).get("asm")
                if not a_in or not a_out:
                    continue
                secs_out = dict(corpus.code_sections(a_out))
                for path, items in corpus.code_sections(a_in):
                    bi, bo = corpus.split_blocks(items), corpus.split_blocks(secs_out.get(path, []))
                    if len(bi) != len(bo):
                        cnt["file_misaligned"] += 1        # a skeleton matter (C09); nothing to compare block by block
                        continue
                    for x, y in zip(bi, bo):
                        cnt["file_blocks"] += 1
                        ix, iy = [equiv.item_to_instr(i) for i in x], [equiv.item_to_instr(i) for i in y]
                        for i in ix + iy:
                            if i["op"] == "PUSH" and not i["w"]:
                                i["op"] = "PUSH0"          # the two spellings of a zero push
                        if instr_key(ix) == instr_key(iy):
                            continue
                        cnt["file_changed"] += 1
                        cases.append({"id": first_id + len(cases), "orig": ix, "opt": iy, "plain": "", "opts": ["file:" + " ".join(argv)],
                                      "src": os.path.basename(f)[:14] + ":" + cname.split(":")[-1] + ":" + path})
    return cases, cnt


def plain_of(instrs):
    return " ".join((i["name"] + (" " + i["value"] if i["value"] != "" and "JUMP" not in i["name"] else "")) for i in instrs)


def run(tier):
    t0 = time.time()
    seed = common.seed()
    cap = 48 if tier == "quick" else 256
    groups, gstats = build_corpus(tier, seed)
    jobs = plan(tier, groups, seed)
    results = pool.run_matrix([(argv, cmds) for _, argv, cmds in jobs], timeout=20)
    t_drive = time.time() - t0
    cases, cnt = collect_cases(jobs, results)
    # whole files through the real command line (the emitted file is the observation point)
    files = sorted(corpus.example_files(), key=lambda f: __import__("os").path.getsize(f))
    fsel = files[:1] + files[3:4] if tier == "quick" else files[:6]
    fargv = [["-greedy"]] if tier == "quick" else [["-greedy"], ["-greedy", "-storage", "-size"], ["-greedy", "-partition", "-push0"]]
    fcases, fcnt = file_level_cases(fsel, fargv, len(cases) + 1)
    have = {(instr_key(c["orig"]), instr_key(c["opt"])) for c in cases}
    for c in fcases:
        if (instr_key(c["orig"]), instr_key(c["opt"])) not in have:
            c["id"] = len(cases) + 1
            cases.append(c)
    cnt.update(fcnt)
    verdicts, st = equiv.run_equiv(cases, cap)
    viol, undec = [], 0
    for c in cases:
        cl = equiv.classify(verdicts.get(c["id"], []))
        if cl[0] == "violates":
            viol.append((c, cl))
        elif cl[0] == "undecided":
            undec += 1
    def keys(c):
        ks = [plain_of(c["orig"]) + " => " + plain_of(c["opt"])]
        if findings.misaligned_overlap(plain_of(c["orig"])):
            ks.append("misaligned-overlap")
        return ks
    out = findings.settle("C01", viol, lambda c: {"orig": plain_of(c["orig"]), "opt": plain_of(c["opt"]), "opts": c["opts"]}, keys)
    samples = [{"orig": plain_of(c["orig"]), "opt": plain_of(c["opt"]), "options": c["opts"][:3],
                "verdict": equiv.classify(verdicts.get(c["id"], []))[0]} for c in cases[:3] + cases[-3:]]
    cov = {"states": st["states"], "transitions": st["transitions"],
           "traces_validated_against_impl": len(cases), "samples": samples,
           "evaluations": cnt["blocks"], "distinct_nontrivial": len(cases),
           "rule": "one evaluation = one (block, option set) run of the real optimize+compare+keep-or-revert pipeline; "
                   "non-trivial = emitted block differs from the input block; distinct = distinct (input, emitted) instruction lists",
           "grid_states_evaluated": st["evaluated"], "grid_cap": cap, "undecided_cases": undec,
           "option_sets": [n for n, _, _ in jobs][:120], "corpus": gstats, "driver": cnt,
           "violating_cases": len(viol), "known_findings_hit": out["known_hit"], "new_violations": len(out["new"]),
           "exhaustive": False, "drive_wall_s": round(t_drive, 1), "tlc_wall_s": round(st["wall"], 1), "tlc_jvms": st["jvms"]}
    if cnt["changed"] == 0:
        raise common.MachineryError("vacuity guard: no changed block reached TLC")
    return {"level": "model_checking", "coverage": cov, "violations": out, "wall": time.time() - t0,
            "assumptions": ["grid of boundary states, not all 2^256 states", "gas exhaustion not modelled (OOG => undecided)",
                            "hash and environment functions generic (DESIGN.md section 6)",
                            "z3 4.8.12 stands in for the Max-SMT solver"]}
