"""C12 - a block's result does not depend on what was processed before it.

(G) spec/Histories.tla enumerates the (target, history) pairs: all histories over the 12-block pool
    (harness/histpool.py) up to a length, plus a strided sample one block longer, per option set; and, for
    the blocks of one real contract in their order, every block after all the blocks before it ("prefix").
(D) every history runs in its own process: a worker that has imported the tool and run the prelude of
    execute_gasol but has not processed any block forks one child per sequence (worker_c12.py `seqs`);
    the child processes history + target with the real per-block pipeline and returns, for every block of
    the sequence, the projected result (strings).  Each worker finally runs one sequence itself (`seq`),
    which is an observation from an exec'd fresh process ("exec") that cross-checks the forked ones.
(V) spec/HistoryIndep.tla judges  result(B | h) = result(B | <<>>)  per component over the recorded table.
(M) spec/HistoryModel.tla: the abstract process with a history variable no action reads.
Python only projects, schedules and reads TLC's VERDICT lines."""
import json
import os
import queue
import sys
import threading
import time

if __name__ == "__main__":
    _h = os.path.dirname(os.path.dirname(os.path.abspath(__file__)))
    sys.path[:0] = [_h, os.path.join(_h, "props")]

import common
import corpus
import findings
import histpool
import pool

JOBS = min(common.NCPU, int(os.environ.get("VERIF_C12_JOBS", "5")))
COMPS = ["sfs", "optimized", "stats", "exception", "cmp", "enc"]
OPTSETS = {"greedy": ["-greedy"], "storage": ["-greedy", "-storage"], "partition": ["-greedy", "-partition"],
           "norules": ["-greedy", "-no-simplification"], "size": ["-greedy", "-size"],
           "encoding": ["-backend", "-solver", "z3"]}


def P(optset, mode="own", full=1, stride=0, extras=0, kind="pool", nblocks=0):
    return {"optset": optset, "mode": mode, "full": full, "stride": stride, "nextra": extras, "kind": kind, "nblocks": nblocks}


PLANS = {
    "quick": [P("greedy", full=1, stride=13), P("greedy", "same", full=1, stride=0), P("storage", full=0, stride=5), P("partition", full=0, stride=5),
              P("norules", full=0, stride=5), P("greedy", "contract", full=0, stride=5), P("encoding", full=0, stride=5),
              P("greedy", "contract", kind="prefix", nblocks=16)],
    "thorough": [P("greedy", full=2, stride=13, extras=12), P("greedy", "same", full=1, stride=13), P("storage", "same", full=1, stride=0),
                 P("storage", full=1, stride=5), P("partition", full=1, stride=5),
                 P("norules", full=1, stride=13), P("size", full=0, stride=5), P("greedy", "contract", full=1, stride=13),
                 P("storage", "contract", full=0, stride=5), P("encoding", full=1, stride=13),
                 P("greedy", "contract", kind="prefix", nblocks=100), P("storage", "contract", kind="prefix", nblocks=40),
                 P("partition", "contract", kind="prefix", nblocks=40)],
}
BATCH = 16
CHUNK = 64
CHILD_TIMEOUT = 60
NP = len(histpool.POOL)


# ---------------------------------------------------------------------------------------------
# (G)

_gen_cache = {}


def gen_histories(npool, ntargets, full, stride, phase, kind):
    key = (npool, ntargets, full, stride, phase, kind)
    if key not in _gen_cache:
        p = os.path.join(common.workdir(), "hist_%s.json" % common.stable_hash(list(key)))
        common.write_json(p, {"npool": npool, "ntargets": ntargets, "full": full, "stride": stride, "phase": phase, "kind": kind})
        r = common.run_tlc("Histories", "Histories.cfg", {"GEN": p}, tag="hist")
        if not r.ok:
            raise common.MachineryError("Histories failed: " + r.out[-1500:])
        pairs = [(t[1], tuple(t[2]), t[3]) for t in r.tagged("H")]
        if len(set(pairs)) != len(pairs) or not pairs:
            raise common.MachineryError("Histories: duplicate or no pairs")
        _gen_cache[key] = (pairs, r)
    return _gen_cache[key]


def cover(pairs):
    """fewest sequences (history + target) such that every requested pair is a prefix of one of them:
    a run of B1..Bn observes result(Bi | B1..Bi-1) for every i"""
    need = sorted({h + (t,) for t, h, _ in pairs}, key=lambda s: (-len(s), s))
    have, chosen = set(), []
    for s in need:
        if s in have:
            continue
        chosen.append(s)
        for i in range(1, len(s) + 1):
            have.add(s[:i])
    return chosen


def items_text(items):
    words = []
    for it in items:
        nm = it["name"]
        if nm in ("tag", "JUMPDEST"):
            continue
        if nm == "PUSH [tag]":
            words.append("PUSH [tag] %s" % it["value"])
        elif nm == "PUSH" or nm.startswith("PUSH ") or nm in ("PUSHLIB", "PUSHIMMUTABLE", "ASSIGNIMMUTABLE"):
            if "value" not in it:
                return None
            words.append("%s %s" % (nm, it["value"]))
        else:
            words.append(nm)
    return " ".join(words)


def extras_for(n, seed):
    """seeded sample of real blocks (as plain text) used as extra targets"""
    if not n:
        return []
    out = []
    for b in corpus.sample(corpus.real_blocks(limit_files=6, min_opt=4), n, seed):
        t = items_text(b["items"])
        if t:
            out.append({"text": t, "src": b["src"]})
    return out


def contract_blocks(n, seed):
    """the first n consecutive blocks of the run-time code of one shipped contract, as item lists"""
    import json as _j
    files = corpus.example_files()
    f = files[seed % len(files)]
    with open(f) as fh:
        d = _j.load(fh)
    best = None
    for cname, c in sorted(d["contracts"].items()):
        asm = c.get("asm") if c else None
        if not asm:
            continue
        for path, items in corpus.code_sections(asm):
            bl = corpus.split_blocks(items)
            if path != ".code" and (best is None or len(bl) > len(best[1])):
                best = (os.path.basename(f)[:16] + ":" + cname.split(":")[-1] + ":" + path, bl)
    if best is None:
        raise common.MachineryError("no run-time code in " + f)
    src, bl = best
    return [{"items": b, "raw": True, "label": "%s#%d" % (src, i)} for i, b in enumerate(bl[:n])]


def build(tier, seed):
    plans = []
    for pl in PLANS[tier]:
        p = dict(pl)
        if p["kind"] == "pool":
            blocks = [{"text": t, "name": "p%d" % (i + 1), "tag": 2001 + i, "label": histpool.NAMES[i]} for i, t in enumerate(histpool.TEXTS)]
            for k, e in enumerate(extras_for(p["nextra"], seed)):
                blocks.append({"text": e["text"], "name": "x%d" % (k + 1), "tag": 3001 + k, "label": "real:" + e["src"]})
            npool, nt = NP, len(blocks)
            phase = seed % p["stride"] if p["stride"] else 0
        else:
            blocks = contract_blocks(p["nblocks"], seed)
            npool = nt = len(blocks)
            p["full"], p["stride"], phase = npool - 1, 0, 0
        p["blocks"] = blocks
        p["pairs"], p["gen"] = gen_histories(npool, nt, p["full"], p["stride"], phase, p["kind"])
        p["seqs"] = cover(p["pairs"])
        plans.append(p)
    return plans


def label(p, t):
    return p["blocks"][t - 1]["label"]


def text_of(b):
    return b["text"] if "text" in b else items_text(b["items"])


# ---------------------------------------------------------------------------------------------
# (D)

def drive(work, detail=False):
    """work: list of (optset name, [ {sid, blocks (list of block specs), mode} ]).  Returns {sid: run} and
    {sid: exec run}.  One Worker life per chunk of at most CHUNK sequences; JOBS workers at a time."""
    chunks = []
    for oname, seqs in work:
        seqs = sorted(seqs, key=lambda s: -len(s["blocks"]))
        for i in range(0, len(seqs), CHUNK):
            chunks.append((oname, seqs[i:i + CHUNK]))
    chunks.sort(key=lambda c: -sum(len(s["blocks"]) + 30 for s in c[1]))
    q = queue.Queue()
    for c in chunks:
        q.put(c)
    runs, execs, errors = {}, {}, []
    lock = threading.Lock()

    def mk(s):
        return {"sid": s["sid"], "mode": s["mode"], "detail": detail, "blocks": s["blocks"]}

    def loop():
        while True:
            try:
                oname, seqs = q.get_nowait()
            except queue.Empty:
                return
            w = pool.Worker(OPTSETS[oname])
            try:
                for i in range(0, len(seqs), BATCH):
                    part = seqs[i:i + BATCH]
                    r = w.call({"cmd": "seqs", "child_timeout": CHILD_TIMEOUT, "seqs": [mk(s) for s in part]},
                               timeout=CHILD_TIMEOUT * len(part) + 60)
                    if r.get("killed"):
                        with lock:
                            for s in part:
                                runs[s["sid"]] = {"killed": True}
                        continue
                    if "runs" not in r or not r.get("pristine_after"):
                        with lock:
                            errors.append("seqs failed on %s: %r" % (oname, {k: r.get(k) for k in ("error", "worker_exc", "pristine_after")}))
                        return
                    with lock:
                        for run in r["runs"]:
                            runs[run["sid"]] = run
                # the worker itself is an exec'd fresh process: let it run one sequence of this chunk
                s = min(seqs, key=lambda x: (len(x["blocks"]) < 2, len(x["blocks"])))
                m = mk(s)
                m["cmd"] = "seq"
                r = w.call(m, timeout=CHILD_TIMEOUT * 2)
                with lock:
                    execs[s["sid"]] = r
            except Exception as e:          # noqa
                with lock:
                    errors.append("%s: %s" % (type(e).__name__, e))
            finally:
                w.close()

    ts = [threading.Thread(target=loop) for _ in range(max(1, min(JOBS, len(chunks))))]
    for t in ts:
        t.start()
    for t in ts:
        t.join()
    if errors:
        raise common.MachineryError("C12 drive: " + "; ".join(errors[:3]))
    return runs, execs


# ---------------------------------------------------------------------------------------------
# (V)

def validate(tables, tag="hi"):
    """tables: list of {comps, base, obs}; one HistoryIndep TLC run per table.  Returns per table the VERDICT tuples."""
    envs = []
    for i, t in enumerate(tables):
        p = os.path.join(common.workdir(), "%s_table_%d.json" % (tag, i))
        common.write_json(p, t)
        envs.append({"CASES": p})
    res = common.run_tlc_shards("HistoryIndep", "HistoryIndep.cfg", envs, jobs=JOBS, tag=tag)
    out, st = [], {"states": 0, "transitions": 0, "jvms": len(res)}
    for r, t in zip(res, tables):
        cons = r.tagged("CONSUMED")
        if not r.ok or not cons or cons[0][1] != len(t["obs"]) or cons[0][2] != len(t["obs"]):
            raise common.MachineryError("HistoryIndep did not accept the table: %r\n%s" % (cons, r.out[-2000:]))
        st["states"] += r.distinct
        st["transitions"] += r.generated
        out.append(r.tagged("VERDICT"))
    return out, st


def model_check():
    r = common.run_tlc("HistoryModel", "HistoryModel.cfg", {}, tag="hm")
    if not r.ok:
        raise common.MachineryError("HistoryModel: ResultIndependentOfHistory does not hold on the abstract model:\n" + r.out[-1500:])
    return r


# ---------------------------------------------------------------------------------------------

def tabulate(plan, runs, execs):
    """recorded runs -> table for HistoryIndep (+ bookkeeping for the guards)"""
    want = {(t, h): cls for t, h, cls in plan["pairs"]}
    obs, base = [], {}
    guard = {"hist_rules": 0, "hist_split": 0, "hist_raised": 0, "hist_changed": 0}
    undecided = 0

    def add(seq, results, origin):
        for i in range(len(seq)):
            t, h = seq[i], tuple(seq[:i])
            if (t, h) not in want or i >= len(results):
                continue
            r = results[i]["r"]
            cls = want[(t, h)]
            if not h:
                cls = "fresh" if origin == "fork" else "exec"
                if t not in base and origin == "fork":
                    base[t] = r
                    continue
            obs.append({"t": t, "h": list(h), "cls": cls, "r": r})
            if h and cls == "other":
                fl = [results[j]["f"] for j in range(i)]
                guard["hist_rules"] += any(f["rules"] for f in fl)
                guard["hist_split"] += any(f["subs"] >= 2 for f in fl)
                guard["hist_raised"] += any(f["raised"] for f in fl)
                guard["hist_changed"] += any(f["changed"] for f in fl)

    for s in plan["sruns"]:
        run = runs.get(s["sid"])
        if run is None or run.get("killed") or "results" not in run:
            undecided += 1
            continue
        add(s["seq"], run["results"], "fork")
    for s in plan["sruns"]:
        run = execs.get(s["sid"])
        if run is not None and "results" in run:
            add(s["seq"], run["results"], "exec")
    nt = len(plan["blocks"])
    missing = [t for t in range(1, nt + 1) if t not in base]
    if missing:
        raise common.MachineryError("C12: no fresh-process result for targets %r of plan %s/%s" % (missing, plan["optset"], plan["mode"]))
    return {"comps": COMPS, "base": [base[t] for t in range(1, nt + 1)], "obs": obs}, guard, undecided


def run(tier):
    t0 = time.time()
    seed = common.seed()
    mc = model_check()
    plans = build(tier, seed)
    sid = 0
    work = {}
    for p in plans:
        p["sruns"] = []
        for s in p["seqs"]:
            sid += 1
            p["sruns"].append({"sid": sid, "seq": s, "mode": p["mode"], "blocks": [p["blocks"][i - 1] for i in s]})
        work.setdefault(p["optset"], []).extend(p["sruns"])
    t1 = time.time()
    runs, execs = drive(sorted(work.items()))
    t_drive = time.time() - t1
    tables, guards, und = [], [], 0
    for p in plans:
        tb, g, u = tabulate(p, runs, execs)
        tables.append(tb); guards.append(g); und += u
    verdicts, st = validate(tables)

    # classification of TLC's verdicts
    viol, selfd, unstable = [], [], set()
    for pi, vs in enumerate(verdicts):
        for _, i, t, h, comp, cls in vs:
            if cls in ("fresh", "exec"):
                unstable.add((pi, t, comp))
    groups = {}
    for pi, vs in enumerate(verdicts):
        for _, i, t, h, comp, cls in vs:
            if cls in ("fresh", "exec"):
                continue
            if (pi, t, comp) in unstable:
                und += 1
            elif cls == "self":
                selfd.append("%s/%s/%s: %s after %s" % (plans[pi]["optset"], plans[pi]["mode"], comp, label(plans[pi], t),
                                                         [label(plans[pi], x) for x in h]))
            else:
                groups.setdefault((pi, t, comp), []).append(tuple(h))
    for (pi, t, comp), hs in sorted(groups.items()):
        p = plans[pi]
        hmin = min(hs, key=lambda h: (len(h), h))
        same = sorted({h for h in hs if len(h) == len(hmin)})
        c = {"optset": p["optset"], "options": OPTSETS[p["optset"]], "mode": p["mode"], "kind": p["kind"], "component": comp,
             "target": label(p, t), "target_text": text_of(p["blocks"][t - 1]),
             "history": [label(p, i) for i in hmin] if len(hmin) <= 4 else ["%d blocks: %s .. %s" % (len(hmin), label(p, hmin[0]), label(p, hmin[-1]))],
             "history_texts": [text_of(p["blocks"][i - 1]) for i in hmin[:4]],
             "other_minimal_histories": [[label(p, i) for i in h] for h in same[1:8]] if len(hmin) <= 4 else [],
             "violating_histories": len(hs),
             "blocks": [p["blocks"][i - 1] for i in hmin] + [p["blocks"][t - 1]]}
        c["diff"] = explain(c)
        viol.append((c, ("violates", comp, list(hmin))))
    out = findings.settle("C12", viol, lambda c: c, keysf=keys_of)

    nobs = sum(len(tb["obs"]) for tb in tables)
    g = {k: sum(x[k] for x in guards) for k in guards[0]}
    if nobs == 0 or g["hist_rules"] == 0 or g["hist_split"] == 0 or g["hist_raised"] == 0:
        raise common.MachineryError("vacuity guard: no history in which an earlier block fired a rule / was split / raised: %r" % g)
    distinct_pairs = len({(pi, o["t"], tuple(o["h"])) for pi, tb in enumerate(tables) for o in tb["obs"] if o["h"]})
    gens = {id(p["gen"]): p["gen"] for p in plans}.values()
    samples = []
    for p, tb in zip(plans[:2], tables[:2]):
        for o in [x for x in tb["obs"] if len(x["h"]) >= 1][:2]:
            samples.append({"options": OPTSETS[p["optset"]], "mode": p["mode"], "target": label(p, o["t"]),
                            "target_text": text_of(p["blocks"][o["t"] - 1]),
                            "history": [label(p, i) for i in o["h"]], "result": o["r"], "base": tb["base"][o["t"] - 1]})
    cov = {"states": st["states"] + sum(r.distinct for r in gens) + mc.distinct,
           "transitions": st["transitions"] + sum(r.generated for r in gens) + mc.generated,
           "traces_validated_against_impl": nobs, "samples": samples,
           "evaluations": sum(len(p["sruns"]) for p in plans), "distinct_nontrivial": distinct_pairs,
           "rule": "one evaluation = one process (history + target); one validated trace = one observed result(B | h) "
                   "compared by TLC with result(B | <<>>) in 6 components; distinct_nontrivial = distinct (option set, mode, target, "
                   "non-empty history) pairs",
           "plans": [{"options": OPTSETS[p["optset"]], "mode": p["mode"], "kind": p["kind"],
                      "all_histories_up_to": p["full"] if p["kind"] == "pool" else None,
                      "sampled_length": (p["full"] + 1) if p["stride"] else None, "stride": p["stride"],
                      "pairs": len(p["pairs"]), "processes": len(p["sruns"]), "blocks": len(p["blocks"])} for p in plans],
           "guards": g, "undecided": und, "self_history_differences_diagnostic": len(selfd), "self_history_examples": selfd[:10],
           "fresh_process_results_not_reproducible": sorted("%s/%s/%s/%s" % (plans[pi]["optset"], plans[pi]["mode"], label(plans[pi], t), comp)
                                                            for pi, t, comp in unstable),
           "exec_fresh_cross_checks": len(execs), "violating_groups": len(viol), "drive_wall_s": round(t_drive, 1),
           "abstract_model": {"module": "HistoryModel", "states": mc.distinct, "invariant": "ResultIndependentOfHistory"},
           "exhaustive": False,
           "exhaustive_subspaces": ["all histories over the 12-block pool up to the length given per plan (all_histories_up_to)"]}
    return {"level": "model_checking", "coverage": cov, "violations": out, "wall": time.time() - t0,
            "level_note": "TLC enumerates the histories and decides every comparison; the state space of the validator is one state per "
                          "observation (equality of recorded strings) - the exploration is in the enumeration of histories, not in the model",
            "assumptions": [
                "a history starts in a child forked from a worker that has imported the tool and run the prelude of execute_gasol but has "
                "processed no block (checked in the worker: the lazily created front-end globals do not exist); such a child is taken as a "
                "fresh process; one exec'd fresh process per worker cross-checks this (class exec)",
                "same options within a history (one option set per process, as the property says)",
                "result = specification dictionaries with identifiers, sub-block list, raw optimized block, emitted block, log ids, greedy ids, "
                "statistics rows without solver_time_in_sec, block row, change of the running totals, exception types; file names and the "
                "temporary directory are not part of it; in contract mode the block name (which contains the position) is replaced by @",
                "histories that contain the target itself are outside the quantifier (sequences of other blocks): counted as a diagnostic",
                "a (target, component) whose fresh-process result is itself not reproducible is undecided here (it belongs to C13)",
                "quick: -greedy: all histories of length <= 1 plus 1/13 of length 2; other option sets and contract mode: 1/5 of length 1; "
                "16 blocks of a real contract each after its predecessors.  thorough: -greedy: all of length <= 2 plus 1/13 of length 3 and "
                "12 real blocks as extra targets; other option sets: all of length <= 1 plus 1/5 or 1/13 of length 2 (-size and -storage in "
                "contract mode: 1/5 of length 1); 100/40/40 consecutive blocks of a real contract (the exact plans are listed under coverage.plans)",
                "the SMT back-end is not run (no OptiMathSAT); the connector registry is reached only through the encoding files of -backend"]}


def keys_of(c):
    """candidate keys, most specific first: a finding may be listed for one (history, target) pair, for a target
    whatever the history, or for a culprit block whatever the target (all per component)"""
    h = ",".join(c["history"])
    return ["%s|%s|%s|%s<-%s" % (c["optset"], c["mode"], c["component"], c["target"], h),
            "%s|%s<-%s" % (c["component"], c["target"], h),
            "%s|%s<-*" % (c["component"], c["target"]),
            "%s|*<-%s" % (c["component"], c["history"][-1] if c["history"] else "")]


# ---------------------------------------------------------------------------------------------
# explanation of a difference, replay, selftest

def jdiff(a, b, path="", out=None, limit=12):
    out = [] if out is None else out
    if len(out) >= limit:
        return out
    if isinstance(a, dict) and isinstance(b, dict):
        for k in sorted(set(a) | set(b), key=str):
            if k not in a or k not in b:
                out.append([path + "/" + str(k), json.dumps(a.get(k, "<absent>"))[:160], json.dumps(b.get(k, "<absent>"))[:160]])
            else:
                jdiff(a[k], b[k], path + "/" + str(k), out, limit)
    elif isinstance(a, list) and isinstance(b, list) and len(a) == len(b):
        for i, (x, y) in enumerate(zip(a, b)):
            jdiff(x, y, "%s[%d]" % (path, i), out, limit)
    elif a != b:
        out.append([path, json.dumps(a)[:200], json.dumps(b)[:200]])
    return out


def _strip_names(obs):
    """block names contain the position in contract mode: drop them from the detail before diffing"""
    for o in obs:
        nm = o.pop("name", None)
        if nm:
            txt = json.dumps(o).replace(nm, "@")
            o.clear()
            o.update(json.loads(txt))
    return obs


def _detail_runs(c):
    """re-run target alone and history + target (each forked from a fresh worker) with full detail"""
    bl = c["blocks"]
    seqs = [{"sid": 1, "mode": c["mode"], "blocks": bl[-1:]}, {"sid": 2, "mode": c["mode"], "blocks": bl}]
    runs, _ = drive([(c["optset"], seqs)], detail=True)
    return runs[1]["results"][0], runs[2]["results"][len(bl) - 1]


def explain(c):
    try:
        a, b = _detail_runs(c)
        return jdiff(_strip_names(a["detail"]), _strip_names(b["detail"]))
    except Exception as e:      # diagnostic only
        return [["explain failed", type(e).__name__, str(e)[:200]]]


def replay(path):
    with open(path) as f:
        rep = json.load(f)
    c = rep["case"]
    base, obs = _detail_runs(c)
    n = len(c["blocks"]) - 1
    table = {"comps": COMPS, "base": [base["r"]], "obs": [{"t": 1, "h": list(range(2, n + 2)), "cls": "other", "r": obs["r"]}]}
    vs, _ = validate([table], tag="hirep")
    print("options:", c["options"], "mode:", c["mode"])
    print("target :", c["target"], "=", c["target_text"])
    for nm, tx in zip(c["history"], c["history_texts"]):
        print("history:", nm, "=", tx)
    for k in COMPS:
        print("  %-10s fresh=%s after-history=%s" % (k, base["r"][k], obs["r"][k]))
    for v in vs[0]:
        print("VERDICT component", v[4], "differs")
    for d in jdiff(_strip_names(base["detail"]), _strip_names(obs["detail"]), limit=30):
        print("  diff", d[0], "\n      fresh:        ", d[1], "\n      after history:", d[2])
    common.cleanup()
    return 1 if vs[0] else 0


def selftest():
    """(a) trace corruption: HistoryIndep accepts a recorded table and rejects each single-field corruption, naming the component;
    (b) the abstract model with one global that is not reset violates ResultIndependentOfHistory."""
    import copy
    pb = [{"text": t, "name": "p%d" % (i + 1)} for i, t in enumerate(histpool.TEXTS)]
    seqs = [{"sid": 1, "mode": "own", "blocks": [pb[1]]}, {"sid": 2, "mode": "own", "blocks": [pb[0], pb[6], pb[1]]}]
    runs, _ = drive([("greedy", seqs)])
    base, obs = runs[1]["results"][0]["r"], runs[2]["results"][2]["r"]
    good = {"comps": COMPS, "base": [base, base], "obs": [{"t": 2, "h": [1, 7], "cls": "other", "r": obs}]}
    tables, expect = [good], [("recorded table (target `rules` after `stores`, `failing`)", None)]
    for k in ("sfs", "optimized", "stats", "exception"):
        tb = copy.deepcopy(good)
        tb["obs"][0]["r"][k] = ("0" if obs[k][0] != "0" else "1") + obs[k][1:]
        tables.append(tb)
        expect.append(("one character of the recorded `%s` field changed" % k, k))
    vs, _ = validate(tables, tag="hiself")
    ok = True
    for (what, comp), v in zip(expect, vs):
        got = sorted(x[4] for x in v)
        exp = [] if comp is None else [comp]
        print("%-70s %s %s" % (what, "REJECTED" if got else "accepted", got))
        ok = ok and got == exp
    r = common.run_tlc("HistoryModel", "HistoryModelLeaky.cfg", {}, tag="hmleak")
    refuted = "Invariant ResultIndependentOfHistory is violated" in r.out
    print("%-70s %s" % ("abstract model with a global that survives the block (Leaky = TRUE)", "REFUTED by TLC" if refuted else "not refuted"))
    ok = ok and refuted and model_check().ok
    print("selftest:", "ok" if ok else "FAILED")
    common.cleanup()
    return 0 if ok else 1


if __name__ == "__main__":
    if len(sys.argv) > 1 and sys.argv[1] == "selftest":
        sys.exit(selftest())
    print("usage: c12.py selftest   (the check itself: bin/check C12 --tier quick|thorough)")
