"""C11 - log replay reproduces the optimized code; tampered logs are rejected or harmless.

(M) spec/Pipeline.tla with WithReplay (PipelineReplay*.cfg): ReplayReproduces and TamperedLogErrorsOrEquivalent
    hold for every log that differs from the written one in at most MaxTamper entries (sound checker assumed).
(G) spec/LogMutate.tla enumerates all single mutations of the recorded logs (id substitution by ids of the same
    and of other blocks, deletion, duplication, adjacent transposition, insertion, dropped / emptied / exchanged
    entries, truncation).
(D) the REAL command line: `gasol_asm.py <in> <opts> -log -dest-log <log> -o <out1>` and then
    `gasol_asm.py <in> <opts> -optimize-from-log <log> -o <out2>` (harness/cli_run.py) on synthesized documents
    and on the smaller shipped examples; every mutant log is replayed by the real optimize_asm_from_log in a
    worker process (command `c10`, mode replay, events recorded by rebinding) and a sample of them through the
    command line as well.
(V) spec/ReplayVerdict.tla classifies every outcome (reproduced / rejected / accepted / violates ...);
    spec/PipelineTrace.tla validates every recorded replay trace against Pipeline's replay actions;
    spec/EVMEquiv.tla compares every block of an accepted mutant's output that differs from the input block
    with that input block on the grid (a violation always carries the witness grid state).
Python only prepares inputs and reads TLC's verdict lines."""
import concurrent.futures as cf
import hashlib
import json
import os
import resource
import subprocess
import sys
import time

sys.path.insert(0, os.path.dirname(os.path.dirname(os.path.abspath(__file__))))
import common
import corpus
import equiv
import findings
import pipedoc
import pipetrace
import pool
import c10

JOBS = min(common.NCPU, 4)
CLI = os.path.join(os.path.dirname(os.path.dirname(os.path.abspath(__file__))), "cli_run.py")
EXTRA_IDS = ["POP", "SWAP1", "DUP1", "NOP", "ADD"]

# -push0 DISABLES PUSH0: the replay has to honour it exactly as the run that wrote the log did
OPTSETS = {"quick": [["-greedy"], ["-greedy", "-storage"], ["-greedy", "-partition", "-size"], ["-greedy", "-push0"]],
           "thorough": [["-greedy"], ["-greedy", "-storage"], ["-greedy", "-partition", "-size"], ["-greedy", "-size"],
                        ["-greedy", "-storage", "-size"], ["-greedy", "-partition"], ["-greedy", "-push0"],
                        ["-greedy", "-size", "-push0"]]}
REPLAY_ACTIONS = ["ReplayFromLog", "ReplayBlockOK", "ReplayReject", "ReplayFinish"]
MODEL_REPLAY_ACTIONS = ["aReplayFromLog", "aReplayBlockOK", "aReplayReject", "aReplayFinish"]

BODIES = ["DUP1 MUL SWAP1 POP PUSH 0 ADD", "DUP2 DUP1 ADD PUSH 0 ADD SWAP2 POP POP",   # a commutative operation on one value taken twice
          "PUSH 20 PUSH 0 MSTORE8 PUSH 0 ADD PUSH 1 PUSH 2 SSTORE", "PUSH 80 PUSH 40 MSTORE PUSH 0 ADD", "CALLER PUSH 1 SSTORE PUSH 1 MUL",
          "PUSH 0 ADD PUSH 1 MUL", "DUP1 PUSH 0 MSTORE PUSH 1 PUSH 2 ADD SWAP1 SSTORE", "SWAP1 SWAP1 DUP2 DUP2 ADD SWAP1 POP PUSH 0 ADD",
          "PUSH 3 PUSH 4 ADD POP CALLER POP", "DUP2 DUP2 ADD PUSH 0 MSTORE PUSH 1 PUSH 0 ADD PUSH 20 MSTORE POP",
          "CALLER PUSH 0 SSTORE PUSH 1 PUSH 1 SSTORE", "PUSH 1 SWAP1 POP PUSH 0 SLOAD ADD", "ISZERO ISZERO ISZERO",
          "DUP1 SWAP1 POP PUSH 5 PUSH 7 MUL ADD", "DUP3 DUP3 SWAP1 POP POP PUSH 2 PUSH 3 MUL SWAP1 SUB",
          "PUSH 0 DUP2 ADD PUSH 40 MSTORE PUSH 40 MLOAD PUSH 1 ADD", "DUP1 DUP1 XOR SWAP1 POP CALLVALUE ADD"]


# --------------------------------------------------------------------------------------------
# inputs

def build_inputs(tier, seed):
    import random
    rnd = random.Random(seed + 11)
    shapes = [(2, 2), (2, 2), (2, 2), (1, 2)] if tier == "quick" else [(2, 2), (1, 3), (2, 3), (3, 3), (1, 1, 2), (2, 2, 2), (3, 1), (2, 4)]
    inputs = []
    nxt = [0]

    def body():
        nxt[0] += 1
        return BODIES[(nxt[0] - 1) % len(BODIES)] if nxt[0] <= len(BODIES) or nxt[0] % 2 else rnd.choice(BODIES)
    closing = ["ISZERO ISZERO ISZERO", "", "DUP1 SWAP1 POP PUSH 5 PUSH 7 MUL ADD", "PUSH 3 PUSH 4 ADD POP CALLER POP"]
    for i, sh in enumerate(shapes):
        # every section ends with a block without stores: after STOP memory is not observable, so a store body in the
        # last position could never witness a difference
        secs = [[body() for k in range(n)] + [closing[(i + j) % len(closing)]] for j, n in enumerate(sh)]
        inputs.append({"name": "synth%d" % i, "doc": pipedoc.make_doc(secs), "synth": True, "desc": secs})
    # two contracts with one short name in different files: block names (and so log keys) are derived from the short name
    da = pipedoc.make_doc([["PUSH 1 PUSH 2 ADD ADD"], ["PUSH 0 ADD PUSH 1 MUL"]], "verif/a.sol:T")
    db = pipedoc.make_doc([["SWAP1 POP PUSH 0 ADD PUSH 0 ADD"], ["DUP1 SWAP1 POP PUSH 5 PUSH 7 MUL ADD"]], "verif/b.sol:T")
    da["contracts"].update(db["contracts"])
    inputs.append({"name": "samename", "doc": da, "synth": True, "samename": True, "desc": "two contracts named T in a.sol and b.sol"})
    files = sorted(corpus.example_files(), key=os.path.getsize)[:1 if tier == "quick" else 3]
    for f in files:
        with open(f) as fh:
            inputs.append({"name": os.path.basename(f)[:14], "doc": json.load(fh), "synth": False, "desc": os.path.basename(f), "path": f})
    return inputs


def pairs_of(tier, inputs):
    sets = OPTSETS[tier]
    out = []
    for i, inp in enumerate(inputs):
        if tier == "quick":
            out.append((inp, sets[i % len(sets)] if inp["synth"] else sets[0]))
            if inp["synth"] and "-push0" not in out[-1][1]:
                out.append((inp, ["-greedy", "-push0"]))        # every synthesized document also with PUSH0 disabled
        else:
            for o in (sets if inp["synth"] else sets[:3]):
                out.append((inp, o))
    return out


# --------------------------------------------------------------------------------------------
# the real command line

def _limits():
    os.setsid()
    resource.setrlimit(resource.RLIMIT_AS, (4 * 1024 ** 3, 4 * 1024 ** 3))


def cli(args, cwd, timeout):
    """-> (rc, last line of stderr); rc -9 = killed after `timeout`"""
    cmd = [common.VENV_PY, CLI, common.REPO] + args
    env = dict(os.environ, PYTHONHASHSEED=os.environ.get("PYTHONHASHSEED", "0"))
    try:
        p = subprocess.run(cmd, cwd=cwd, stdout=subprocess.DEVNULL, stderr=subprocess.PIPE, timeout=timeout, preexec_fn=_limits, env=env)
        lines = [l for l in p.stderr.decode("utf8", "replace").splitlines() if l.strip()]
        return p.returncode, (lines[-1][:200] if lines and p.returncode != 0 else "")
    except subprocess.TimeoutExpired:
        return -9, "killed after %ds" % timeout


def find_output(cwd, asked, default):
    """the tool ignores -o (parse_args never reads it): look at the requested path first, then at the default name"""
    for p in (asked, default):
        fp = os.path.join(cwd, p)
        if os.path.exists(fp):
            with open(fp, "rb") as f:
                return f.read()
    return None


def sha(b):
    return hashlib.sha256(b).hexdigest() if b is not None else ""


def cli_optimize(doc, opts, cwd, timeout):
    os.makedirs(cwd, exist_ok=True)
    with open(os.path.join(cwd, "in.json_solc"), "w") as f:
        json.dump(doc, f)
    rc, err = cli(["in.json_solc"] + opts + ["-log", "-dest-log", "run.log", "-o", "out1.json_solc"], cwd, timeout)
    out1 = find_output(cwd, "out1.json_solc", "in_optimized.json_solc")
    log = None
    lp = os.path.join(cwd, "run.log")
    if os.path.exists(lp):
        with open(lp) as f:
            log = json.load(f)
    return {"rc1": rc, "err1": err, "out1": out1, "log": log}


def cli_replay(doc, opts, log, cwd, timeout):
    os.makedirs(cwd, exist_ok=True)
    with open(os.path.join(cwd, "in.json_solc"), "w") as f:
        json.dump(doc, f)
    with open(os.path.join(cwd, "replay.log"), "w") as f:
        json.dump(log, f)
    for p in ("out2.json_solc", "in_optimized_from_log.json_solc"):
        if os.path.exists(os.path.join(cwd, p)):
            os.remove(os.path.join(cwd, p))
    rc, err = cli(["in.json_solc"] + opts + ["-optimize-from-log", "replay.log", "-o", "out2.json_solc"], cwd, timeout)
    out2 = find_output(cwd, "out2.json_solc", "in_optimized_from_log.json_solc")
    return {"rc2": rc, "err2": err, "out2": out2}


# --------------------------------------------------------------------------------------------
# (G) mutants

def log_entries(log, names):
    idx = {n: i + 1 for i, n in enumerate(names)}
    out = []
    for name, ids in log.items():
        blk = idx.get(name.rpartition("_")[0], 0)
        out.append({"name": name, "blk": blk, "ids": [str(x) for x in ids]})
    return out


def enumerate_mutants(logs):
    """logs: [(entries, first, last)] -> [[mutant]] per log, TLCResult (one JVM for all logs)"""
    p = os.path.join(common.workdir(), "logmutate.json")
    common.write_json(p, {"logs": [{"entries": e, "first": f, "last": l} for e, f, l in logs], "extra": EXTRA_IDS})
    r = common.run_tlc("LogMutate", "LogMutate.cfg", {"LOG": p}, workers=1, timeout=3000, heap="4g", tag="lm")
    if not r.ok:
        raise common.MachineryError("LogMutate failed:\n" + r.out[-2000:])
    seen, muts = set(), [[] for _ in logs]
    for t in r.tagged("M"):
        k = json.dumps(t)
        if k not in seen:
            seen.add(k)
            muts[t[1] - 1].append({"e": t[2], "kind": t[3], "i": t[4], "id": t[5], "e2": t[6], "ids": t[7]})
    return muts, r


def apply_mutant(log, entries, m):
    """the mutated log (an ordered dict like the one the tool wrote)"""
    names = [e["name"] for e in entries]
    out = {}
    for j, n in enumerate(names):
        e = j + 1
        if m["kind"] == "truncate" and e >= m["e"]:
            break
        if e == m["e"]:
            if m["kind"] == "dropentry":
                continue
            out[n] = list(m["ids"])
        elif m["kind"] == "moveto" and e == m["e2"]:
            out[n] = list(entries[m["e"] - 1]["ids"])
        else:
            out[n] = list(log[n])
    return out


# --------------------------------------------------------------------------------------------
# (V)

def judge_outcomes(cases):
    """ReplayVerdict -> {id: class}"""
    st = {"states": 0, "transitions": 0}
    if not cases:
        return {}, st
    p = os.path.join(common.workdir(), "replay_outcomes_%d.json" % len(cases))
    common.write_json(p, {"cases": cases})
    r = common.run_tlc("ReplayVerdict", "ReplayVerdict.cfg", {"CASES": p}, workers=1, timeout=1800, tag="rv")
    cons = r.tagged("CONSUMED")
    if not r.ok or not cons or cons[0][1] != len(cases):
        raise common.MachineryError("ReplayVerdict TLC run failed:\n" + r.out[-3000:])
    st["states"], st["transitions"] = r.distinct, r.generated
    return {t[1]: t[2] for t in r.tagged("OUTCOME")}, st


def run_equiv_few(cases, cap, tag):
    """equiv.run_equiv with one JVM per core at most (the batches of this property are small: JVM start-up dominates)"""
    if not cases:
        return {}, {"states": 0, "transitions": 0, "evaluated": 0, "expected": 0, "jvms": 0, "wall": 0.0}
    stripped = [{"id": c["id"], "orig": equiv.strip(c["orig"]), "opt": equiv.strip(c["opt"])} for c in cases]
    shards = common.shard_by_weight(stripped, [equiv.weight(c, cap) for c in cases], min(len(cases), JOBS))
    envs = []
    for i, sh in enumerate(shards):
        p = os.path.join(common.workdir(), "%s_cases_%d.json" % (tag, i))
        common.write_json(p, {"cap": cap, "seed": common.seed(), "cases": sh})
        envs.append({"CASES": p})
    verdicts, stats = {}, {"states": 0, "transitions": 0, "evaluated": 0, "expected": 0, "jvms": len(shards), "wall": 0.0}
    for r in common.run_tlc_shards("EVMEquiv", "EVMEquiv.cfg", envs, jobs=JOBS, tag=tag):
        ev = r.tagged("EVALUATED")
        if not r.ok or not ev or ev[0][1] != ev[0][2]:
            raise common.MachineryError("EVMEquiv TLC run failed:\n" + r.out[-3000:])
        stats["evaluated"] += ev[0][1]
        stats["expected"] += ev[0][2]
        stats["states"] += r.distinct
        stats["transitions"] += r.generated
        stats["wall"] = max(stats["wall"], r.wall)
        for t in r.tagged("VERDICT"):
            verdicts.setdefault(t[1], []).append([t[2], t[3]])
    return verdicts, stats


def judge_items(cases):
    """ReplayItems on (orig, opt) instruction lists -> {id: [position, clause]}"""
    import re
    st = {"states": 0, "transitions": 0}
    if not cases:
        return {}, st

    def pj(i):
        return {"op": i["op"], "k": i["k"], "w": i["w"], "idshape": bool(re.fullmatch(r".*_[0-9]+", i["name"]))}
    p = os.path.join(common.workdir(), "replay_items_%d.json" % len(cases))
    common.write_json(p, {"cases": [{"id": c["id"], "orig": [pj(i) for i in c["orig"]], "opt": [pj(i) for i in c["opt"]]} for c in cases]})
    r = common.run_tlc("ReplayItems", "ReplayItems.cfg", {"CASES": p}, workers=1, timeout=1800, tag="ri")
    cons = r.tagged("CONSUMED")
    if not r.ok or not cons or cons[0][1] != len(cases):
        raise common.MachineryError("ReplayItems TLC run failed:\n" + r.out[-3000:])
    st["states"], st["transitions"] = r.distinct, r.generated
    return {t[1]: [t[2], t[3]] for t in r.tagged("VERDICT")}, st


def changed_blocks(doc_in, doc_out):
    """[(position, input items, output items)] for every block of the output that differs from the input block.
    When the two documents do not have the same block structure, whole code sections are compared instead."""
    a, b = pipedoc.doc_blocks(doc_in), pipedoc.doc_blocks(doc_out)
    if len(a) == len(b) and all(x[0] == y[0] and x[1] == y[1] for x, y in zip(a, b)):
        return [(i + 1, x[2], y[2]) for i, (x, y) in enumerate(zip(a, b))
                if [pipedoc.proj_item(it) for it in x[2]] != [pipedoc.proj_item(it) for it in y[2]]]
    sa, sb = {}, {}
    for c, p, items in a:
        sa.setdefault((c, p), []).extend(items)
    for c, p, items in b:
        sb.setdefault((c, p), []).extend(items)
    return [(-(i + 1), sa[k], sb.get(k, [])) for i, k in enumerate(sa)
            if [pipedoc.proj_item(it) for it in sa[k]] != [pipedoc.proj_item(it) for it in sb.get(k, [])]]


# --------------------------------------------------------------------------------------------

def run(tier):
    t0 = time.time()
    seed = common.seed()
    cap = 48 if tier == "quick" else 256
    work = os.path.join(common.workdir(), "cli")
    inputs = build_inputs(tier, seed)
    pairs = pairs_of(tier, inputs)
    ex_model = cf.ThreadPoolExecutor(max_workers=1)
    fmodel = ex_model.submit(c10.model_runs, tier, True)

    # (D) the logging run and the replay of its own log through the command line
    def roundtrip(x):
        i, (inp, opts) = x
        cwd = os.path.join(work, "rt%d" % i)
        tmo = 120 if inp["synth"] else 900
        a = cli_optimize(inp["doc"], opts, cwd, tmo)
        b = cli_replay(inp["doc"], opts, a["log"], cwd, tmo) if a["log"] is not None else {"rc2": -1, "err2": "no log", "out2": None}
        a.update(b)
        return a
    with cf.ThreadPoolExecutor(max_workers=JOBS) as ex:
        rts = list(ex.map(roundtrip, enumerate(pairs)))
    t_rt = time.time() - t0

    # in-process run of the same inputs: block names (log entry -> block), cross-check of the log
    by_opts = {}
    for i, (inp, opts) in enumerate(pairs):
        by_opts.setdefault(tuple(opts), []).append(i)
    names, inproc_log_same = {}, 0
    jobs = [(list(o), [{"cmd": "c10", "doc": pairs[i][0]["doc"]} for i in idxs]) for o, idxs in by_opts.items()]
    for (o, idxs), rr in zip(by_opts.items(), pool.run_matrix(jobs, total_workers=JOBS, timeout=900)):
        for i, r in zip(idxs, rr):
            if "names" not in r:
                raise common.MachineryError("in-process run of %s failed: %r" % (pairs[i][0]["name"], {k: r[k] for k in r if k != "events"}))
            names[i] = r["names"]
            inproc_log_same += int(r.get("log") == rts[i]["log"])

    # (G) mutants of every recorded log
    gen_stats = [0, 0]
    mutants = []                      # {pair, m, log}
    budget = 80 if tier == "quick" else 150
    todo = []
    for i, (inp, opts) in enumerate(pairs):
        log = rts[i]["log"]
        if not log or inp.get("samename") or (tier == "thorough" and i % 3):      # thorough: every third (input, options) pair is mutated
            continue
        entries = log_entries(log, names[i])
        last = len(entries) if inp["synth"] else min(len(entries), 2 if tier == "quick" else 14)
        todo.append((i, entries, last))
    allm, r = enumerate_mutants([(e, 1, l) for _, e, l in todo])
    gen_stats = [r.distinct, r.generated]
    for (i, entries, _), muts in zip(todo, allm):
        seen = {json.dumps(rts[i]["log"])}
        mine = []
        for m in muts:
            ml = apply_mutant(rts[i]["log"], entries, m)
            k = json.dumps(ml)
            if k in seen:
                continue
            seen.add(k)
            mine.append({"pair": i, "m": m, "log": ml})
        # the few structural mutants are all kept; the many substitutions / insertions are sampled
        few = [x for x in mine if x["m"]["kind"] not in ("subst", "insert")]
        many = [x for x in mine if x["m"]["kind"] in ("subst", "insert")]
        mutants += few + corpus.sample(many, max(10, budget - len(few)), seed + i)
    n_enumerated = len(mutants)
    t_gen = time.time() - t0

    # (D) every mutant through the real optimize_asm_from_log in a worker process, with the event trace
    jobs, where = [], []
    for o, idxs in by_opts.items():
        cmds = [{"cmd": "c10", "mode": "replay", "doc": pairs[i][0]["doc"], "log": rts[i]["log"]} for i in idxs if rts[i]["log"] is not None]
        ref = [("control", i) for i in idxs if rts[i]["log"] is not None]
        for j, mu in enumerate(mutants):
            if mu["pair"] in idxs:
                cmds.append({"cmd": "c10", "mode": "replay", "doc": pairs[mu["pair"]][0]["doc"], "log": mu["log"]})
                ref.append(("mutant", j))
        jobs.append((list(o), cmds))
        where.append(ref)
    results = pool.run_matrix(jobs, total_workers=JOBS, timeout=900)
    outcomes, tcases, tmeta = [], [], []
    killed = 0
    for ref, rr in zip(where, results):
        for (kind, j), r in zip(ref, rr):
            if r.get("killed") or "events" not in r:
                killed += 1
                continue
            pi = j if kind == "control" else mutants[j]["pair"]
            cid = len(outcomes) + 1
            outcomes.append({"id": cid, "kind": "mutant", "rc1": 0, "has1": True, "h1": "", "rc2": 1 if r["raised"] else 0, "has2": bool(r["file"]),
                             "h2": "", "err": r["raised"][:150]})
            tcases.append(pipetrace.make_case(cid, r, pairs[pi][0]["doc"], None, known=True))
            tmeta.append({"kind": kind, "j": j, "pair": pi, "r": r, "via": "worker"})
    # (D) a sample of the mutants, and all mutants of the real files, through the command line too
    n_cli = 12 if tier == "quick" else 300
    synth_m = [j for j, mu in enumerate(mutants) if pairs[mu["pair"]][0]["synth"]]
    real_m = [j for j, mu in enumerate(mutants) if not pairs[mu["pair"]][0]["synth"]]
    chosen = corpus.sample(synth_m, n_cli, seed) + corpus.sample(real_m, 4 if tier == "quick" else 120, seed)

    def cli_mut(j):
        mu = mutants[j]
        inp, opts = pairs[mu["pair"]]
        return j, cli_replay(inp["doc"], opts, mu["log"], os.path.join(work, "m%d" % j), 120 if inp["synth"] else 900)
    with cf.ThreadPoolExecutor(max_workers=JOBS) as ex:
        cli_res = list(ex.map(cli_mut, chosen))
    cli_meta = []
    for j, b in cli_res:
        cid = len(outcomes) + 1
        outcomes.append({"id": cid, "kind": "mutant", "rc1": 0, "has1": True, "h1": "", "rc2": b["rc2"], "has2": b["out2"] is not None,
                         "h2": sha(b["out2"]), "err": b["err2"][:150]})
        cli_meta.append({"id": cid, "j": j, "pair": mutants[j]["pair"], "b": b, "via": "cli"})
    rt_ids = {}
    for i, a in enumerate(rts):
        cid = len(outcomes) + 1
        rt_ids[cid] = i
        outcomes.append({"id": cid, "kind": "roundtrip", "rc1": a["rc1"], "has1": a["out1"] is not None, "h1": sha(a["out1"]),
                         "rc2": a["rc2"], "has2": a["out2"] is not None, "h2": sha(a["out2"]), "err": (a["err1"] or a["err2"])[:150]})
    t_drive = time.time() - t0

    # (V)
    classes, rv_st = judge_outcomes(outcomes)
    t_rv = time.time() - t0
    tverd, tends, tst = pipetrace.run_traces(tcases, jobs=2 if tier == "quick" else JOBS, tag="c11trace")
    t_trace = time.time() - t0
    taken = set()
    for e in tends.values():
        taken.update(e[3])
    # equivalence of what accepted replays wrote
    eq_cases, eq_meta, seen_eq = [], [], {}
    n_acc = n_rej = 0

    def add_eq(doc_in, doc_out, info, ref_out=None):
        """blocks of an accepted mutant's output that differ from the input block; blocks that equal the output of the
        untampered run are that run's business (C01), not the mutation's"""
        untouched = set()
        if ref_out is not None:
            untouched = {json.dumps([pipedoc.proj_items(b), pos]) for pos, _, b in changed_blocks(doc_in, ref_out)}
        for pos, a, b in changed_blocks(doc_in, doc_out):
            if json.dumps([pipedoc.proj_items(b), pos]) in untouched:
                continue
            pa, pb = pipedoc.proj_items(a), pipedoc.proj_items(b)
            k = json.dumps([pa, pb])
            if k in seen_eq:
                eq_meta[seen_eq[k]]["count"] += 1
                continue
            seen_eq[k] = len(eq_cases)
            eq_cases.append({"id": len(eq_cases) + 1, "orig": pa, "opt": pb})
            eq_meta.append(dict(info, block=pos, orig=pipedoc.block_text(a), emitted=pipedoc.block_text(b), count=1))
    ref_docs = {}
    for i, a in enumerate(rts):
        if a["out1"] is not None:
            try:
                ref_docs[i] = json.loads(a["out1"])
            except ValueError:
                pass
    groups = {}

    def flag(key, clause, example):
        g = groups.setdefault(key, {"key": key, "clause": clause, "count": 0, "examples": []})
        g["count"] += 1
        if len(g["examples"]) < 3:
            g["examples"].append(example)
    for cs, m in zip(tcases, tmeta):
        cl = classes.get(cs["id"], "")
        mu = mutants[m["j"]] if m["kind"] == "mutant" else None
        inp, opts = pairs[m["pair"]]
        info = {"input": inp["name"], "options": opts, "mutation": {k: mu["m"][k] for k in ("e", "kind", "i", "id", "e2")} if mu else "none (control)",
                "via": "worker"}
        if m["kind"] == "control":
            # the untampered log replayed in-process must be accepted and equal what the logging run wrote
            same = m["r"]["file"] and rts[m["pair"]]["out1"] is not None and \
                pipetrace.file_blocks(m["r"]["out_doc"]) == pipetrace.file_blocks(json.loads(rts[m["pair"]]["out1"]))
            if cl != "accepted" or not same:
                flag("roundtrip: two contracts with one short name" if inp.get("samename") else "replay of the untampered log (in-process) is not reproduced: " + inp["name"], "ReplayReproduces",
                     dict(info, outcome=cl, raised=m["r"]["raised"], doc=inp["doc"] if inp["synth"] else inp["desc"], log=rts[m["pair"]]["log"]))
            continue
        if cl == "accepted":
            n_acc += 1
            add_eq(inp["doc"], m["r"]["out_doc"], dict(info, log=mu["log"], doc=inp["doc"] if inp["synth"] else inp["desc"]), ref_docs.get(m["pair"]))
        elif cl == "rejected":
            n_rej += 1
        else:
            flag("replay outcome: " + cl, cl, dict(info, raised=m["r"]["raised"], log=mu["log"], doc=inp["doc"] if inp["synth"] else inp["desc"]))
        if cs["id"] in tverd:
            v = tverd[cs["id"]]
            flag("replay trace rejected: " + str(v[1])[:80], v[1], dict(info, position=v[0], log=mu["log"], raised=m["r"]["raised"],
                                                                       doc=inp["doc"] if inp["synth"] else inp["desc"],
                                                                       trace=c10.abbreviate(m["r"]["events"])[:600]))
    cli_acc = cli_rej = agree = 0
    inproc_class = {m["j"]: classes.get(cs["id"], "") for cs, m in zip(tcases, tmeta) if m["kind"] == "mutant"}
    for m in cli_meta:
        cl = classes.get(m["id"], "")
        mu = mutants[m["j"]]
        inp, opts = pairs[m["pair"]]
        info = {"input": inp["name"], "options": opts, "mutation": {k: mu["m"][k] for k in ("e", "kind", "i", "id", "e2")}, "via": "cli"}
        agree += int(inproc_class.get(m["j"]) == cl)
        if m["b"]["rc2"] == -9:
            killed += 1
            continue
        if cl == "accepted":
            cli_acc += 1
            try:
                add_eq(inp["doc"], json.loads(m["b"]["out2"]), dict(info, log=mu["log"], doc=inp["doc"] if inp["synth"] else inp["desc"]), ref_docs.get(m["pair"]))
            except ValueError:
                flag("replay wrote an unreadable output", "output is not JSON", dict(info, log=mu["log"]))
        elif cl == "rejected":
            cli_rej += 1
        else:
            flag("replay outcome: " + cl, cl, dict(info, rc=m["b"]["rc2"], err=m["b"]["err2"], log=mu["log"], doc=inp["doc"] if inp["synth"] else inp["desc"]))
    n_rt_ok = n_rt_und = 0
    for cid, i in rt_ids.items():
        cl = classes.get(cid, "")
        inp, opts = pairs[i]
        if cl == "reproduced":
            n_rt_ok += 1
        elif cl.startswith("undecided"):
            n_rt_und += 1
        else:
            flag("roundtrip: two contracts with one short name" if inp.get("samename") else "%s [%s %s]" % (cl, inp["name"], " ".join(opts)), cl,
                 {"input": inp["name"], "options": opts, "rc1": rts[i]["rc1"], "rc2": rts[i]["rc2"], "err": rts[i]["err1"] or rts[i]["err2"],
                  "doc": inp["doc"] if inp["synth"] else inp["desc"], "log": rts[i]["log"], "via": "cli"})
    t_pre = time.time() - t0
    verdicts, est = run_equiv_few(eq_cases, cap, "c11eq")
    t_eq = time.time() - t0
    undecided = 0
    iverd, ist = judge_items(eq_cases)
    for c, m in zip(eq_cases, eq_meta):
        cl = equiv.classify(verdicts.get(c["id"], []))
        if c["id"] in iverd:
            flag("replay accepts a foreign id and emits it verbatim as an instruction", "TamperedLogErrorsOrEquivalent",
                 dict(m, witness_position=iverd[c["id"]][0], clause=iverd[c["id"]][1]))
        elif cl[0] == "violates":
            what = "memory/storage contents" if cl[1] in ("mem", "sto") else cl[1]
            flag("replay accepts a mutated log and emits a distinguishable block: " + what,
                 "TamperedLogErrorsOrEquivalent", dict(m, witness_grid_state=cl[2], clause=cl[1], distinguishing_states=cl[3]))
        elif cl[0] == "undecided":
            undecided += 1
    model = fmodel.result()
    ex_model.shutdown()
    missing = [a for a in MODEL_REPLAY_ACTIONS if model["coverage"].get(a, 0) == 0]
    if missing:
        raise common.MachineryError("vacuity guard: replay actions never taken by the model: %r" % missing)
    missing = [a for a in REPLAY_ACTIONS if a not in taken]
    if missing:
        raise common.MachineryError("vacuity guard: replay actions never taken by any validated trace: %r" % missing)
    if n_rej == 0 or n_acc == 0:
        raise common.MachineryError("vacuity guard: need at least one rejected and one accepted mutant (rejected %d, accepted %d)" % (n_rej, n_acc))
    if n_rt_ok + len([g for g in groups if g.startswith("violates: replay of the untampered")]) == 0:
        raise common.MachineryError("vacuity guard: no log round trip was judged")

    viol = [(g, ("violates", g["clause"], g["count"])) for g in groups.values()]
    out = findings.settle("C11", viol, lambda g: g, keysf=lambda g: [g["key"]])
    kinds = {}
    for cs, m in zip(tcases, tmeta):
        if m["kind"] == "mutant":
            k = mutants[m["j"]]["m"]["kind"]
            kinds.setdefault(k, {"accepted": 0, "rejected": 0, "other": 0})
            c = classes.get(cs["id"], "")
            kinds[k][c if c in ("accepted", "rejected") else "other"] += 1
    samples = []
    for cs, m in [x for x in zip(tcases, tmeta) if x[1]["kind"] == "mutant"][:3]:
        mu = mutants[m["j"]]
        samples.append({"input": pairs[m["pair"]][0]["name"], "options": pairs[m["pair"]][1], "mutation": mu["m"], "log": mu["log"],
                        "outcome": classes.get(cs["id"]), "raised": m["r"]["raised"][:120], "trace": c10.abbreviate(m["r"]["events"])[:400]})
    for c, m in list(zip(eq_cases, eq_meta))[:3]:
        samples.append({"accepted_mutant_block": {"orig": m["orig"], "emitted": m["emitted"], "mutation": m["mutation"],
                                                  "verdict": equiv.classify(verdicts.get(c["id"], []))[0]}})
    for i, a in list(enumerate(rts))[:2]:
        samples.append({"roundtrip": {"input": pairs[i][0]["name"], "options": pairs[i][1], "log": a["log"] if pairs[i][0]["synth"] else "(%d entries)" % len(a["log"] or {}),
                                      "sha256_out1": sha(a["out1"])[:16], "sha256_out2": sha(a["out2"])[:16]}})
    cov = {"states": model["states"] + gen_stats[0] + rv_st["states"] + tst["states"] + est["states"] + ist["states"],
           "transitions": model["transitions"] + gen_stats[1] + rv_st["transitions"] + tst["transitions"] + est["transitions"] + ist["transitions"],
           "traces_validated_against_impl": len(tcases), "samples": samples,
           "evaluations": len(outcomes), "distinct_nontrivial": n_enumerated,
           "rule": "one evaluation = one replay run (command line or worker process) of a (input, options, log); distinct_nontrivial = distinct mutated "
                   "logs (LogMutate output after removing mutants that leave the log unchanged or coincide)",
           "model": model["runs"], "model_action_coverage": {k: model["coverage"].get(k, 0) for k in MODEL_REPLAY_ACTIONS},
           "inputs": [{"name": inp["name"], "options": o, "log_entries": len(rts[i]["log"] or {})} for i, (inp, o) in enumerate(pairs)],
           "roundtrips_cli": len(rts), "roundtrips_reproduced": n_rt_ok, "roundtrips_undecided": n_rt_und,
           "inprocess_log_equals_cli_log": inproc_log_same,
           "mutants": n_enumerated, "mutants_rejected": n_rej, "mutants_accepted": n_acc, "mutants_by_kind": kinds,
           "mutants_cli": len(cli_meta), "mutants_cli_rejected": cli_rej, "mutants_cli_accepted": cli_acc, "cli_agrees_with_worker": agree,
           "killed_or_unanswered": killed,
           "equivalence_cases": len(eq_cases), "equivalence_undecided": undecided, "grid_states_evaluated": est["evaluated"], "grid_cap": cap,
           "trace_actions_taken": sorted(taken), "traces_rejected": len(tverd),
           "violation_classes": {k: g["count"] for k, g in groups.items()},
           "known_findings_hit": out["known_hit"], "new_violations": len(out["new"]),
           "exhaustive": False, "roundtrip_wall_s": round(t_rt, 1), "generate_wall_s": round(t_gen - t_rt, 1),
           "drive_wall_s": round(t_drive - t_gen, 1), "validate_wall_s": round(time.time() - t0 - t_drive, 1),
           "verdict_tlc_wall_s": round(t_rv - t_drive, 1), "trace_tlc_wall_s": round(t_trace - t_rv, 1), "equiv_tlc_wall_s": round(t_eq - t_pre, 1)}
    return {"level": "model_checking", "coverage": cov, "violations": out, "wall": time.time() - t0,
            "assumptions": [
                "equivalence of an accepted mutant's blocks is decided on the grid of boundary machine states (EVMEquiv), not on all 2^256 states; "
                "undecided verdicts (out of gas, unsupported construct such as an id emitted verbatim as an instruction) never alarm",
                "only the -greedy back-end (the Max-SMT solvers are not installed); the tool ignores -o, the output is looked for at the requested "
                "path and at the default name",
                "replay(I,O,L') = error covers every non-zero exit without an output file (ValueError of the verification, or any other exception)",
                "the abstract model assumes a sound deterministic checker (C05) and explores replay only after fault-free runs",
                "all mutants are replayed by the real optimize_asm_from_log in a worker process; a sample of them also through the command line"]}


# --------------------------------------------------------------------------------------------

def replay(path):
    with open(path) as f:
        rep = json.load(f)
    g = rep["case"]
    ex = g["examples"][0]
    print("C11 replay: %s (%d case(s))" % (g["key"], g["count"]))
    if not isinstance(ex.get("doc"), dict):
        fn = [f for f in corpus.example_files() if os.path.basename(f) == ex.get("doc")]
        if not fn:
            print("input not available")
            return 2
        with open(fn[0]) as f:
            doc = json.load(f)
    else:
        doc = ex["doc"]
    cwd = os.path.join(common.workdir(), "replay")
    b = cli_replay(doc, ex["options"], ex["log"], cwd, 900)
    print("options %s\nlog %s\nexit code %s %s output %s" % (ex["options"], json.dumps(ex["log"])[:600], b["rc2"], b["err2"], "written" if b["out2"] is not None else "none"))
    cls, _ = judge_outcomes([{"id": 1, "kind": "mutant", "rc1": 0, "has1": True, "h1": "", "rc2": b["rc2"], "has2": b["out2"] is not None,
                              "h2": sha(b["out2"]), "err": b["err2"][:150]}])
    print("ReplayVerdict: %s" % cls.get(1))
    bad = 0
    if b["out2"] is not None:
        cases, texts = [], []
        for pos, x, y in changed_blocks(doc, json.loads(b["out2"])):
            cases.append({"id": len(cases) + 1, "orig": pipedoc.proj_items(x), "opt": pipedoc.proj_items(y)})
            texts.append((pos, pipedoc.block_text(x), pipedoc.block_text(y)))
        v, _ = run_equiv_few(cases, 256, "c11replay")
        for c, t in zip(cases, texts):
            cl = equiv.classify(v.get(c["id"], []))
            print("block %d: %s\n   ->    %s\n   EVMEquiv: %r" % (t[0], t[1], t[2], cl))
            bad += int(cl[0] == "violates")
    return 1 if bad or str(cls.get(1, "")).startswith("violates") else 0


def selftest():
    """(a) a corrupted replay trace is rejected by PipelineTrace; (b) an output with a block that differs in
    behaviour is reported by the equivalence judgement; (c) a changed byte is reported by ReplayVerdict"""
    import copy
    doc = pipedoc.make_doc([["PUSH 0 ADD PUSH 1 MUL", "DUP1 PUSH 0 MSTORE PUSH 1 PUSH 2 ADD SWAP1 SSTORE"], ["SWAP1 SWAP1 DUP2 DUP2 ADD SWAP1 POP PUSH 0 ADD", ""]])
    r0 = pool.run_commands(["-greedy", "-storage"], [{"cmd": "c10", "doc": doc}], nworkers=1, timeout=120)[0]
    log = r0["log"]
    bad = dict(log)
    k = sorted(bad)[-1]
    bad[k] = bad[k][:-1]
    rr = pool.run_commands(["-greedy", "-storage"], [{"cmd": "c10", "mode": "replay", "doc": doc, "log": log},
                                                   {"cmd": "c10", "mode": "replay", "doc": doc, "log": bad}], nworkers=2, timeout=120)
    good, rej = pipetrace.make_case(1, rr[0], doc), pipetrace.make_case(2, rr[1], doc)
    c3 = copy.deepcopy(rej)
    c3["id"] = 3
    for e in c3["events"]:
        if e["e"] == "Compare" and e["res"] == "neq":
            e["res"], e["ok"] = "eq", True          # the verification said `not equal`, the record claims `equal`
    c4 = copy.deepcopy(good)
    c4["id"] = 4
    c4["file"] = False                             # every block verified but no output
    c5 = copy.deepcopy(rej)
    c5["id"] = 5
    c5["file"] = True                              # an error and an output
    v, ends, _ = pipetrace.run_traces([good, rej, c3, c4, c5], jobs=2, tag="c11self")
    ok = True
    for cid, name, expect in ((1, "replay of the recorded log", False), (2, "replay of a truncated id list (rejected by the tool)", False),
                              (3, "recorded verdict flipped to `equal`", True), (4, "verified but no output", True), (5, "error and output", True)):
        got = cid in v
        print("selftest C11: %-60s %s %s" % (name, "REJECTED" if got else "accepted", v.get(cid, [])[:2]))
        ok = ok and got == expect
    out_doc = copy.deepcopy(rr[0]["out_doc"])
    blocks = pipedoc.doc_blocks(out_doc)
    for it in blocks[0][2]:
        if it["name"] == "PUSH [tag]":
            it["name"], it["value"] = "PUSH", "7"
            break
    cases = [{"id": i + 1, "orig": pipedoc.proj_items(a), "opt": pipedoc.proj_items(b)} for i, (_, a, b) in enumerate(changed_blocks(doc, out_doc))]
    verd, _ = run_equiv_few(cases, 48, "c11selfeq")
    found = [equiv.classify(verd.get(c["id"], [])) for c in cases]
    print("selftest C11: output with one operand changed -> %r" % (found,))
    ok = ok and any(f[0] == "violates" for f in found)
    cls, _ = judge_outcomes([{"id": 1, "kind": "roundtrip", "rc1": 0, "has1": True, "h1": "aa", "rc2": 0, "has2": True, "h2": "ab", "err": ""},
                             {"id": 2, "kind": "roundtrip", "rc1": 0, "has1": True, "h1": "aa", "rc2": 0, "has2": True, "h2": "aa", "err": ""},
                             {"id": 3, "kind": "mutant", "rc1": 0, "has1": True, "h1": "", "rc2": 0, "has2": False, "h2": "", "err": ""}])
    print("selftest C11: ReplayVerdict %r" % (cls,))
    ok = ok and cls[1].startswith("violates") and cls[2] == "reproduced" and cls[3].startswith("violates")
    if not ok:
        raise common.MachineryError("C11 selftest failed")
    return ok


if __name__ == "__main__":
    try:
        selftest()
    finally:
        common.cleanup()
