"""C02 - the stack/memory specification denotes the block under every admissible schedule.

(G) TLC (SeqGen) enumerates memory/storage blocks; (D) the real front-end produces the specification of
every sub-block under the three split modes and with rules on/off; (V) TLC (spec/SFSDenote.tla) explores
every linearization of the specification's memory/storage/hash operations consistent with the declared
dependencies and data flow, on every grid state, and compares with the concrete run of the sub-block
(spec/EVM.tla); two operations enabled together must commute on the current state (OverlapOrdered)."""
import re
import time

import common
import corpus
import denote
import findings
import gen
import pool

OPTSETS = [("default", []), ("norules", ["-no-simplification"]), ("storage", ["-storage"]), ("partition", ["-partition"]),
           ("storage-norules", ["-storage", "-no-simplification"]), ("partition-norules", ["-partition", "-no-simplification"])]


def memdeps_model(tier):
    """(M) spec/MemDeps.tla: ordering every pair of conflicting accesses (then reducing transitively) is sufficient for
    every instance of three (thorough: four) accesses; the variant that stops at the closest conflicting store is refuted
    by TLC, and every instance on which it fails comes back as a block for the real front-end (G)."""
    env = {}
    r = common.run_tlc("MemDeps", "MemDeps.cfg" if tier == "quick" else "MemDeps4.cfg", env, workers=4, heap="3g", tag="memdeps", timeout=3000)
    if not r.ok:
        raise common.MachineryError("MemDeps.tla: the pairwise-conflict criterion was rejected:\n" + r.out[-1500:])
    q = common.run_tlc("MemDeps", "MemDepsRefute.cfg", env, workers=4, heap="3g", tag="memdepsr", timeout=3000, extra=("-continue",))
    insts = re.findall(r"^inst = <<(.*)>>$", q.out, re.M)
    if not insts:
        raise common.MachineryError("MemDeps.tla: the closest-store-only variant was not refuted:\n" + q.out[-1500:])
    blocks = []
    for t in insts:
        toks = []
        for k, o in re.findall(r'\[k \|-> "(\w+)", o \|-> (\d+)\]', t):
            toks.append("PUSH %x %s" % (int(o), {"W32": "MSTORE", "W1": "MSTORE8", "R32": "MLOAD"}[k]))
        b = " ".join(toks)
        if b not in blocks:
            blocks.append(b)
    return blocks, r.distinct + q.distinct


# blocks of the thorough corpus on which defects were found (a load whose value is only used by a store that is removed
# as redundant, next to another load of the same address; an unused second KECCAK256 of the same range): run in both tiers
PINNED = ["PUSH 0 MLOAD PUSH 0 MSTORE MSTORE8 PUSH 0 MLOAD", "PUSH 40 MLOAD PUSH 40 MSTORE PUSH 21 MSTORE MLOAD",
          "DUP1 SLOAD PUSH 1 ADD SLOAD POP DUP2 DUP2 SSTORE PUSH 0 SLOAD SSTORE PUSH 0 SLOAD",
          "PUSH 20 PUSH 20 KECCAK256 PUSH 20 MSTORE PUSH 20 PUSH 20 KECCAK256 POP", "PUSH 20 PUSH 0 KECCAK256 POP MSTORE PUSH 2 PUSH 1f KECCAK256",
          "MSTORE PUSH 40 MLOAD PUSH 0 MLOAD PUSH 0 MSTORE", "PUSH 1 MLOAD PUSH 1 SSTORE MSTORE8 ADD PUSH 1 SSTORE PUSH 0 MLOAD SWAP1 PUSH 0 MLOAD",
          "PUSH 1f MLOAD PUSH 1f MSTORE DUP2 DUP2 MSTORE PUSH 3f MLOAD", "MSTORE8 PUSH 40 MLOAD PUSH 40 MSTORE MLOAD",
          "DUP1 SLOAD DUP2 SSTORE SSTORE DUP1 SLOAD",
          # an access, then load / store through another address term / load of the first address again (the window in which a
          # conflicting store is looked for when two loads are unified starts after the first load, wherever that is)
          "PUSH 2a PUSH 80 MSTORE DUP1 MLOAD PUSH 7 DUP4 MSTORE DUP2 MLOAD",
          "PUSH 2a PUSH 80 MSTORE DUP1 MLOAD PUSH 7 DUP4 MSTORE8 DUP2 MLOAD",
          "PUSH 80 MLOAD POP DUP1 MLOAD PUSH 7 DUP4 MSTORE DUP2 MLOAD",
          "PUSH 80 MLOAD POP DUP1 MLOAD PUSH 7 DUP4 MSTORE8 DUP2 MLOAD",
          "DUP3 MLOAD POP DUP1 MLOAD PUSH 7 DUP4 MSTORE DUP2 MLOAD",
          "DUP3 MLOAD POP DUP1 MLOAD PUSH 7 DUP4 MSTORE8 DUP2 MLOAD",
          "PUSH 2a PUSH 80 SSTORE DUP1 SLOAD PUSH 7 DUP4 SSTORE DUP2 SLOAD",
          "PUSH 80 SLOAD POP DUP1 SLOAD PUSH 7 DUP4 SSTORE DUP2 SLOAD"]


def build_blocks(tier, seed):
    gs = {}
    if tier == "quick":
        mem, _ = gen.enumerate_blocks(gen.mem_vocab(small=True), [["*"], ["*", "*"]], 4)
        mem3, _ = gen.enumerate_blocks(gen.mem_vocab(small=True), [["*", "*", "*"]], 4)
        sto, _ = gen.enumerate_blocks(gen.sto_vocab(), [["*"], ["*", "*"]], 4)
        sto3, _ = gen.enumerate_blocks(gen.sto_vocab(), [["*", "*", "*"]], 4)
        m3, _ = gen.enumerate_blocks(gen.mem3_vocab(), [["*", "*", "*"]], 4)
        xs = mem + sto + m3 + corpus.sample(mem3, 200, seed) + corpus.sample(sto3, 150, seed)
        sim = []
        for v, n in ((gen.mem_vocab(), 40), (gen.sto_vocab(), 25), (gen.mem_vocab(small=True) + gen.sto_vocab(), 35)):
            b, _ = gen.enumerate_blocks(v, [["*"] * 6], 5, simulate=(n, 7), seed=seed)
            sim += b
        real = corpus.sample(corpus.real_blocks(), 200, seed)
    else:
        mem, _ = gen.enumerate_blocks(gen.mem_vocab(small=True), [["*"], ["*", "*"], ["*", "*", "*"]], 4)
        sto, _ = gen.enumerate_blocks(gen.sto_vocab(), [["*"], ["*", "*"], ["*", "*", "*"]], 4)
        memf, _ = gen.enumerate_blocks(gen.mem_vocab(), [["*", "*"]], 4)
        mem4, _ = gen.enumerate_blocks(gen.mem_vocab(small=True), [["*", "*", "*", "*"]], 4)
        xs = mem + sto + memf + corpus.sample(mem4, 6000, seed)
        sim = []
        for v, n in ((gen.mem_vocab(), 300), (gen.sto_vocab(), 200), (gen.mem_vocab(small=True) + gen.sto_vocab(), 300)):
            for depth in (5, 7, 9):
                b, _ = gen.enumerate_blocks(v, [["*"] * (depth - 1)], 5, simulate=(n // 3, depth), seed=seed + depth)
                sim += b
        real = corpus.real_blocks()
    deep = [t for t in gen.deep_blocks(300 if tier == "quick" else 3000, seed) if any(k in t for k in ("MSTORE", "SSTORE"))]
    xs = xs + deep
    gs.update({"X": len(xs), "S": len(sim), "R": len(real), "deep": len(deep)})
    hand = [t for t in corpus.hand_blocks() if any(k in t for k in ("MSTORE", "MLOAD", "SSTORE", "SLOAD", "KECCAK"))]
    cmds = [{"cmd": "sfs", "text": t} for t in PINNED + hand + xs + sim] + [{"cmd": "sfs", "items": b["items"]} for b in real]
    return cmds, gs


def cases_from(results_by_set, maxops, min_ops=0):
    cases, index = [], {}
    cnt = {"blocks": 0, "specs": 0, "frontend_exc": 0, "killed": 0, "too_many_ops": 0, "no_memops": 0, "misaligned": 0}
    for name, res in results_by_set:
        for r in res:
            if r.get("killed"):
                cnt["killed"] += 1
                continue
            for b in r.get("blocks", []):
                cnt["blocks"] += 1
                if "exc" in b:
                    cnt["frontend_exc"] += 1
                    continue
                if not b.get("sfs"):
                    continue
                progs = denote.sub_programs(b["orig"], b["subs"])
                for sname, s in b["sfs"].items():
                    cnt["specs"] += 1
                    try:
                        k = int(sname.rsplit("_", 1)[1])
                        prog = progs[k]
                    except Exception:
                        cnt["misaligned"] += 1
                        continue
                    ps = denote.proj_sfs_sem(s)
                    n = denote.nmemops(ps)
                    if n < min_ops:
                        cnt["no_memops"] += 1
                        continue
                    if n > maxops:
                        cnt["too_many_ops"] += 1
                        continue
                    key = common.stable_hash([ps, [(i["op"], i["k"], i["w"]) for i in prog]])
                    if key in index:
                        continue
                    index[key] = True
                    cases.append({"id": len(cases) + 1, "sfs": ps, "prog": prog, "nops": n, "_opt": name, "_block": b["plain"][:400],
                                  "_sub": s.get("original_instrs", ""), "_deps": s.get("dependencies", []), "_rules": s.get("rules", [])})
    return cases, cnt


RZ_B0 = {"quick": 5, "thorough": 6}
RZ_PICK = {"quick": 6, "thorough": 8}
RZ_MAX = {"quick": 300, "thorough": 500}


def realize_cases(cases, tier, seed, skip):
    """specifications small enough for the product search: all with at least two memory operations first, then a sample of the rest"""
    ok = [c for c in cases if c["id"] not in skip and 0 < c["sfs"]["b0"] <= RZ_B0[tier] and len(c["sfs"]["ins"]) <= 9]
    first = [c for c in ok if c["nops"] >= 2]
    rest = [c for c in ok if c["nops"] < 2]
    n = RZ_MAX[tier]
    sel = corpus.sample(first, min(len(first), n * 3 // 4), seed) if len(first) > n * 3 // 4 else first
    sel = sel + corpus.sample(rest, max(0, min(len(rest), n - len(sel))), seed + 1)
    out = []
    for c in sel:
        d = dict(c)
        d["pick"] = RZ_PICK[tier]
        out.append(d)
    return out


def run(tier):
    t0 = time.time()
    seed = common.seed()
    cmds, gstats = build_blocks(tier, seed)
    mblocks, mstates = memdeps_model(tier)
    gstats["memdeps_counterexample_blocks"] = len(mblocks)
    cmds += [{"cmd": "sfs", "text": t} for t in mblocks]
    sets = OPTSETS[:4] if tier == "quick" else OPTSETS
    def pick(i):
        return cmds if (i == 0 or tier != "quick") else cmds[:len(PINNED)] + corpus.sample(cmds[len(PINNED):], len(cmds) * 2 // 5, seed + i)
    res = pool.run_matrix([(["-greedy"] + argv, [dict(c) for c in pick(i)]) for i, (_, argv) in enumerate(sets)], timeout=20)
    cases, cnt = cases_from([(n, r) for (n, _), r in zip(sets, res)], maxops=6 if tier == "quick" else 8, min_ops=1)
    for c in cases:
        c["cap"] = (32 if c["nops"] <= 4 else 16) if tier == "quick" else (256 if c["nops"] <= 4 else 64 if c["nops"] <= 6 else 24)
    verdicts, st = denote.run_denote(cases, 48)
    viol, undec, multi, diag = [], 0, 0, 0
    for c in cases:
        if c["nops"] >= 2:
            multi += 1
        cl = denote.classify(verdicts.get(c["id"], []))
        if cl[0] == "violates":
            viol.append((c, cl))
        elif cl[0] == "undecided":
            undec += 1
        elif cl[0] == "diagnostic":
            diag += 1
    # (M/V) the composition with the symbolic stack machine: every sequence spec/SFSMachine.tla accepts for the specification within
    # its published bounds, executed concretely, must leave what the sub-block leaves (spec/SFSRealize.tla)
    rz = realize_cases(cases, tier, seed, {c["id"] for c, _ in viol})
    rv, rgoals, rst, rfin = denote.run_realize(rz, 48, timeout=420 if tier == "quick" else 1200)
    rz_viol = 0
    for c in rz:
        bad = [v for v in rv.get(c["id"], []) if str(v[1]).startswith("realize") or v[1] == "misaligned"]
        if bad:
            rz_viol += 1
            viol.append((c, ("violates", bad[0][1], bad[0][0], len(bad), bad[0][2:])))
    if rz and not rgoals:
        raise common.MachineryError("vacuity guard: the product machine reached no goal state")
    out = findings.settle("C02", viol, lambda c: {"sub_block": c["_sub"], "block": c["_block"], "options": c["_opt"], "deps": c["_deps"],
                                                  "key": c["_sub"] + " @" + c["_opt"]},
                          lambda c: [c["_sub"] + " @" + c["_opt"]] + (["misaligned-overlap"] if findings.misaligned_overlap(c["_sub"]) else []))
    if multi == 0:
        raise common.MachineryError("vacuity guard: no specification with two or more memory operations was explored")
    realize = {"specifications": len(rz), "finished": len(rfin), "with_goal": len(rgoals), "goal_states_checked": sum(rgoals.values()),
               "states": rst["states"], "transitions": rst["transitions"], "budget_exceeded_shards": rst["timeouts"], "violating": rz_viol,
               "bound_b0": RZ_B0[tier], "grid_sample": RZ_PICK[tier], "tlc_wall_s": round(rst["wall"], 1),
               "rule": "every instruction sequence accepted by SFSMachine within init_progr_len / max_sk_sz, executed on the concrete machine "
                       "in lock step (SFSRealize), compared at Goal with the run of the sub-block"}
    cov = {"states": st["states"] + mstates + rst["states"], "transitions": st["transitions"] + mstates + rst["transitions"], "realize": realize, "memdeps_model_states": mstates, "traces_validated_against_impl": len(cases),
           "samples": [{"sub_block": c["_sub"], "deps": c["_deps"], "options": c["_opt"], "memops": c["nops"]} for c in cases[:3] + cases[-3:]],
           "evaluations": cnt["specs"], "distinct_nontrivial": multi,
           "rule": "one evaluation = one sub-block specification produced by the real front-end; distinct = distinct (specification, sub-block); "
                   "non-trivial = at least two memory/storage/hash operations (more than one admissible schedule possible)",
           "initial_states": st["inits"], "undecided_cases": undec, "unordered_but_harmless_cases": diag, "driver": cnt, "corpus": gstats,
           "option_sets": [n for n, _ in sets], "violating": len(viol), "exhaustive": False, "tlc_wall_s": round(st["wall"], 1)}
    return {"level": "model_checking", "coverage": cov, "violations": out, "wall": time.time() - t0,
            "assumptions": ["grid of boundary states (addresses 0,1,31,32,33,64,96 among them), not all states",
                            "specifications with more memory operations than the bound are not explored",
                            "each operation is executed once per schedule", "accesses above 2^20 are undecided"]}
