"""C04 - the greedy back-end returns a sequence that realizes the specification.

(D) front-end + greedy_from_json on every sub-block specification of the corpus; (V) TLC validates
every error=0 id sequence as a behaviour of SFSMachine ending in Goal (spec/SFSTrace.tla)."""
import time

import c01
import common
import corpus
import findings
import pool
import sfsproj
import sfsrun

import sfscorpus
import sfsgen


def handbuilt(tier, seed):
    """(G) spec/SFSGen.tla: well-formed specifications that are not derived from any block; (D) greedy_from_json on each"""
    if tier == "quick":
        gens = sfsgen.generate(2, 2, 2)
        specs = corpus.sample(gens, 5000, seed) + sfsgen.generate(2, 4, 2, simulate=(2500, 6), seed=seed)
    else:
        specs = sfsgen.generate(2, 2, 2) + corpus.sample(sfsgen.generate(1, 3, 1, timeout=3000), 60000, seed) \
                + sfsgen.generate(2, 4, 2, simulate=(20000, 6), seed=seed) + sfsgen.generate(3, 5, 3, simulate=(10000, 7), seed=seed + 1)
    # one or two arithmetic operations over 3 to 6 initial stack elements: operands at every depth, used once or kept
    pure = [i for i, o in enumerate(sfsgen.OPS) if o[3] == "pure"]
    mid = sfsgen.generate(6, 1, 2, ops=pure, minsrc=3) + sfsgen.generate(6, 2, 2, ops=pure, minsrc=3, simulate=(150 if tier == "quick" else 1500, 4), seed=seed + 5)
    specs += corpus.sample(mid, 6000 if tier == "quick" else 40000, seed)
    # deep initial stacks (the stack-cleaning part of greedy only acts on ten or more elements)
    deep = sfsgen.generate(18, 6, 2, simulate=(100, 8) if tier == "quick" else (700, 9), seed=seed + 2, minsrc=12)
    specs += corpus.sample(deep, 6000 if tier == "quick" else 30000, seed)
    # pinned specifications (corpus/sfs/*.json): inputs on which a defect was found
    import glob, json, os
    for f in sorted(glob.glob(os.path.join(common.VERIF, "corpus", "sfs", "*.json"))):
        js = json.load(open(f))
        js = js if "user_instrs" in js else list(js.values())[0]
        js["_shape"] = "corpus/sfs/" + os.path.basename(f)
        specs.append((os.path.basename(f), js))
    cmds = [{"cmd": "greedy", "sfs": {k: v for k, v in js.items() if not k.startswith("_")}} for _, js in specs]
    res = pool.run_matrix([(["-greedy"], cmds)], timeout=20)[0] if cmds else []
    out = []
    cnt = {"specs": len(specs), "greedy_ok": 0, "greedy_error": 0, "greedy_exc": 0, "killed": 0}
    for (key, js), r in zip(specs, res):
        if r.get("killed"):
            cnt["killed"] += 1
        elif "exc" in r or "worker_exc" in r:
            cnt["greedy_exc"] += 1
        elif r.get("error") != 0 or r.get("ids") is None:
            cnt["greedy_error"] += 1
        else:
            cnt["greedy_ok"] += 1
            out.append((js, r["ids"]))
    return out, cnt


MEMOPS = {"MLOAD", "MSTORE", "MSTORE8", "SLOAD", "SSTORE", "KECCAK256"}


def oracle_refinement(tier, seed):
    """(M) spec/SFSRefine.tla: the oracle of this check (SFSMachine: which sequences realize a specification) against the oracle of
    C02 (SFSDenote: what a specification means) on hand-built specifications with at least two memory / storage operations:
    every sequence the machine accepts, executed concretely, must give a result some admissible schedule of the denotation gives"""
    import denote
    pool2 = [js for _, js in sfsgen.generate(2, 2, 2)
             if sum(1 for u in js["user_instrs"] if u["disasm"] in MEMOPS) >= 2 and any(u["storage"] for u in js["user_instrs"])]
    sel = corpus.sample(pool2, 150 if tier == "quick" else 600, seed)
    if tier != "quick":
        p3 = [js for _, js in sfsgen.generate(1, 3, 1, simulate=(400, 5), seed=seed + 3)
              if sum(1 for u in js["user_instrs"] if u["disasm"] in MEMOPS) >= 2 and any(u["storage"] for u in js["user_instrs"])]
        sel += corpus.sample(p3, 200, seed)
    v, goals, st, fin = denote.run_refine(sel, pick=6 if tier == "quick" else 8, timeout=600 if tier == "quick" else 1500)
    if v:
        k = sorted(v)[0]
        raise common.MachineryError("the two oracles disagree: SFSMachine accepts a sequence for %s whose concrete result no schedule of "
                                    "SFSDenote produces (%r)" % (sel[k - 1]["_shape"], v[k][:2]))
    if sel and not goals:
        raise common.MachineryError("vacuity guard: SFSRefine reached no goal state")
    return {"specifications": len(sel), "finished": len(fin), "with_goal": len(goals), "goal_states_checked": sum(goals.values()),
            "not_load_store_ordered": st.get("unordered", 0), "states": st["states"], "transitions": st["transitions"],
            "budget_exceeded_shards": st["timeouts"], "tlc_wall_s": round(st["wall"], 1),
            "rule": "hand-built specifications with >= 2 memory/storage operations; all sequences of SFSMachine within length n + 4, executed "
                    "on the concrete machine; result must be in the set of results of the admissible schedules of SFSDenote"}


def run(tier):
    t0 = time.time()
    seed = common.seed()
    groups, gstats = c01.build_corpus(tier, seed)
    recs, cnt, setnames = sfscorpus.collect(tier, groups)
    cases = []
    for r in recs:
        if r["ids"] is None:
            continue
        cases.append({"id": len(cases) + 1, "sfs": r["sfs"], "ids": sfsproj.proj_ids(r["ids"]), "maxlen": 0, "maxstack": 0,
                      "_raw": r["raw"], "_ids": r["ids"], "_opt": r["opt"], "_block": r["block"]})
    hb, hcnt = handbuilt(tier, seed)
    refine = oracle_refinement(tier, seed)
    for js, ids in hb:
        cases.append({"id": len(cases) + 1, "sfs": sfsproj.proj_sfs(js), "ids": sfsproj.proj_ids(ids), "maxlen": 0, "maxstack": 0,
                      "_raw": {k: v for k, v in js.items() if not k.startswith("_")}, "_ids": ids, "_opt": "hand-built", "_block": "hand-built: " + js["_shape"]})
    verdicts, st = sfsrun.run_traces([{k: v for k, v in c.items() if not k.startswith("_")} for c in cases])
    viol = [(c, ("violates", verdicts[c["id"]][1], verdicts[c["id"]][0])) for c in cases if c["id"] in verdicts]
    out = findings.settle("C04", viol, lambda c: {"block": c["_block"], "options": c["_opt"], "ids": c["_ids"], "sfs": c["_raw"],
                                                  "key": c["_block"]},
                          lambda c: [c["_block"] + " @" + c["_opt"]] + (["greedy-dependency-order"] if verdicts[c["id"]][1] in ("dependency", "after dependent") else []))
    nontrivial = sum(1 for c in cases if len(c["ids"]) >= 2)
    if cnt["with_store"] == 0 or nontrivial == 0:
        raise common.MachineryError("vacuity guard: no non-trivial greedy sequence with a store was validated")
    cov = {"states": st["states"] + refine["states"], "transitions": st["transitions"] + refine["transitions"], "oracle_refinement": refine,
           "traces_validated_against_impl": len(cases),
           "samples": [{"block": c["_block"], "ids": c["_ids"], "tgt": c["sfs"]["tgt"], "deps": c["sfs"]["deps"]}
                       for c in cases[:2] + cases[-2:]],
           "evaluations": cnt["specs"], "distinct_nontrivial": nontrivial,
           "rule": "one evaluation = one sub-block specification handed to greedy_from_json; distinct = distinct (specification, id sequence); "
                   "non-trivial = sequence of at least 2 ids",
           "driver": cnt, "corpus": gstats, "hand_built_specifications": hcnt, "option_sets": setnames, "violating": len(viol),
           "exhaustive": False}
    return {"level": "model_checking", "coverage": cov, "violations": out, "wall": time.time() - t0,
            "assumptions": ["only error=0 results are judged", "hand-built specifications: every result is used, no two instructions with the same operator and operands, dependency pairs only between accesses of one domain of which one is a store (spec/SFSGen.tla)", "dependency pair <a,b>: a executed before b, and a never executed after b"]}
