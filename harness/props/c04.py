"""C04 - the greedy back-end returns a sequence that realizes the specification.

(D) front-end + greedy_from_json on every sub-block specification of the corpus; (V) TLC validates
every error=0 id sequence as a behaviour of SFSMachine ending in Goal (spec/SFSTrace.tla)."""
import time

import c01
import common
import corpus
import findings
import pool
import sfsproj
import sfsrun

OPTSETS = [
    ("default", []), ("storage", ["-storage"]), ("partition", ["-partition"]),
    ("norules", ["-no-simplification"]), ("size", ["-size"]), ("size-storage-norules", ["-size", "-storage", "-no-simplification"]),
    ("partition-nopush0", ["-partition", "-push0"]), ("length-storage", ["-length", "-storage"]),
]


def run(tier):
    t0 = time.time()
    seed = common.seed()
    groups, gstats = c01.build_corpus(tier, seed)
    jobs = []
    sets = OPTSETS[:4] if tier == "quick" else OPTSETS
    for i, (name, argv) in enumerate(sets):
        cmds = []
        for g in ("H", "Xrule", "Xvoc", "Xchain", "S", "R"):
            items = groups[g]
            if tier == "quick" and g in ("Xrule", "Xvoc") and i > 0:
                items = corpus.sample(items, 500, seed + i)
            if tier == "thorough" and g in ("Xchain", "Xvoc") and i > 1:
                items = corpus.sample(items, 3000, seed + i)
            for c in items:
                d = dict(c)
                d["cmd"] = "sfs_greedy"
                cmds.append(d)
        jobs.append((name, ["-greedy"] + argv, cmds))
    results = pool.run_matrix([(argv, cmds) for _, argv, cmds in jobs], timeout=20)
    cases, index = [], {}
    cnt = {"blocks": 0, "specs": 0, "greedy_ok": 0, "greedy_error": 0, "greedy_exc": 0, "killed": 0, "frontend_exc": 0,
           "with_store": 0, "with_deps": 0}
    for (name, argv, cmds), res in zip(jobs, results):
        for cmd, r in zip(cmds, res):
            if r.get("killed"):
                cnt["killed"] += 1
                continue
            for b in r.get("blocks", []):
                cnt["blocks"] += 1
                if "exc" in b:
                    cnt["frontend_exc"] += 1
                    continue
                for s in b["subs"]:
                    cnt["specs"] += 1
                    if "exc" in s:
                        cnt["greedy_exc"] += 1
                        continue
                    if s["error"] != 0 or s["ids"] is None:
                        cnt["greedy_error"] += 1
                        continue
                    cnt["greedy_ok"] += 1
                    ps = sfsproj.proj_sfs(s["sfs"])
                    key = common.stable_hash([ps, s["ids"]])
                    if key in index:
                        continue
                    index[key] = True
                    if any(i["sto"] for i in ps["ins"]):
                        cnt["with_store"] += 1
                    if ps["deps"]:
                        cnt["with_deps"] += 1
                    cases.append({"id": len(cases) + 1, "sfs": ps, "ids": sfsproj.proj_ids(s["ids"]), "maxlen": 0, "maxstack": 0,
                                  "_raw": s["sfs"], "_ids": s["ids"], "_opt": name, "_block": b["plain"][:300]})
    verdicts, st = sfsrun.run_traces([{k: v for k, v in c.items() if not k.startswith("_")} for c in cases])
    viol = [(c, ("violates", verdicts[c["id"]][1], verdicts[c["id"]][0])) for c in cases if c["id"] in verdicts]
    out = findings.settle("C04", viol, lambda c: {"block": c["_block"], "options": c["_opt"], "ids": c["_ids"], "sfs": c["_raw"],
                                                  "key": c["_block"]})
    nontrivial = sum(1 for c in cases if len(c["ids"]) >= 2)
    if cnt["with_store"] == 0 or nontrivial == 0:
        raise common.MachineryError("vacuity guard: no non-trivial greedy sequence with a store was validated")
    cov = {"states": st["states"], "transitions": st["transitions"], "traces_validated_against_impl": len(cases),
           "samples": [{"block": c["_block"], "ids": c["_ids"], "tgt": c["sfs"]["tgt"], "deps": c["sfs"]["deps"]}
                       for c in cases[:2] + cases[-2:]],
           "evaluations": cnt["specs"], "distinct_nontrivial": nontrivial,
           "rule": "one evaluation = one sub-block specification handed to greedy_from_json; distinct = distinct (specification, id sequence); "
                   "non-trivial = sequence of at least 2 ids",
           "driver": cnt, "corpus": gstats, "option_sets": [n for n, _, _ in jobs], "violating": len(viol),
           "exhaustive": False}
    return {"level": "model_checking", "coverage": cov, "violations": out, "wall": time.time() - t0,
            "assumptions": ["only error=0 results are judged", "dependency pair <a,b>: a executed before b, and a never executed after b"]}
