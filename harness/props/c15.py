"""C15 - parsing and serialization round-trip.

(G) spec/AsmDocGen.tla enumerates document shapes and constant spellings, spec/SeqGen.tla plain-text
blocks over a vocabulary with every pseudo-push kind; (D) harness/worker_c15.py calls the real
parse_asm(..).to_json(), parse_blocks_from_plain_instructions, to_plain, to_plain_with_byte_number in
worker processes started with PUSH0 enabled and with `-push0` (disabled); (V) spec/AsmDocTrace.tla
computes every verdict: Norm(out) = Norm(D) on abstract documents, block identity, Value(spelling).
Real example files: the harness logs where output and input JSON differ, TLC judges the log."""
import json
import os
import re
import sys
import time

if __name__ == "__main__":
    _h = os.path.dirname(os.path.dirname(os.path.abspath(__file__)))
    sys.path[:0] = [_h, os.path.join(_h, "props")]

import asmdoc
import common
import corpus
import findings
import gen
import pool

JOBS = int(os.environ.get("VERIF_C15_JOBS", str(min(common.NCPU, 4))))
SETTINGS = [("on", ["-greedy"]), ("off", ["-greedy", "-push0"])]


# ---------------------------------------------------------------------------------------------
# drive

def _plain_texts(tier, seed):
    vocab = asmdoc.plain_vocab()
    shapes = asmdoc.PLAIN_SHAPES_QUICK if tier == "quick" else asmdoc.PLAIN_SHAPES_THOROUGH
    texts, r = gen.enumerate_blocks(vocab, shapes, 0, timeout=900)
    # the documented layout: instructions separated by blanks or on different lines
    lines = ["\n".join(gen.tokens(t)) + "\n" for t in texts if len(gen.tokens(t)) > 1]
    return texts + lines, r


def _example_files(tier):
    files = corpus.example_files()
    if tier == "quick":
        files = sorted(files, key=os.path.getsize)
        files = files[:3] + files[len(files) // 2:len(files) // 2 + 1]
    return files


def drive(tier, docs, spells, texts, files):
    """returns per setting the raw worker answers"""
    w = common.workdir()
    jobs = []
    for s, argv in SETTINGS:
        cmds = []
        for i, sh in enumerate(docs):
            cmds.append({"cmd": "c15_doc", "doc": asmdoc.build_doc(sh), "blocks": 40, "_k": ("doc", i)})
        for i, sp in enumerate(spells):
            cmds.append({"cmd": "c15_plain", "text": asmdoc.spell(sp)[2], "_k": ("spell", i)})
        for i, t in enumerate(texts):
            cmds.append({"cmd": "c15_plain", "text": t, "_k": ("text", i)})
        for i, f in enumerate(files):
            cmds.append({"cmd": "c15_doc", "path": f, "outpath": os.path.join(w, "out_%s_%d.json" % (s, i)),
                         "blocks": 150 if tier == "quick" else 1000000, "_k": ("file", i)})
        jobs.append((s, argv, cmds))
    res = pool.run_matrix([(argv, [{k: v for k, v in c.items() if k != "_k"} for c in cmds]) for _, argv, cmds in jobs],
                          total_workers=JOBS, timeout=300)
    return [(s, cmds, r) for (s, _, cmds), r in zip(jobs, res)]


# ---------------------------------------------------------------------------------------------
# cases

def _items(rec_items):
    return [{"name": it["name"], "value": it["value"]} for it in rec_items]


class Cases:
    def __init__(self):
        self.cases, self.meta, self.index = [], {}, {}
        self.evaluations = 0
        self.killed = 0

    def add(self, case, meta, dedupe_key=None):
        self.evaluations += 1
        if dedupe_key is not None:
            k = common.stable_hash(dedupe_key)
            if k in self.index:
                return self.index[k]
            self.index[k] = len(self.cases) + 1
        case["id"] = len(self.cases) + 1
        self.cases.append(case)
        self.meta[case["id"]] = meta
        return case["id"]

    def add_blocks(self, push0, origin, rec, hows, src):
        """one block of the worker's answer -> a case per rendering"""
        for how in hows:
            rnd, back = rec[how], rec[how + "_back"]
            status = rnd["status"] if rnd["status"] != "ok" else back["status"]
            orig, bk = _items(rec["items"]), _items(back["items"])
            self.add({"kind": "block", "push0": push0, "via": how, "origin": origin, "status": status, "orig": orig, "back": bk},
                     {"kind": "block", "push0": push0, "via": how, "origin": origin, "text": rnd["text"], "src": src, "orig": rec["items"],
                      "back": back["items"], "status": status},
                     ["block", push0, how, origin, status, orig, bk])


def build_cases(tier, driven, docs, spells, texts, files):
    cs = Cases()
    w = common.workdir()
    for push0, cmds, results in driven:
        for cmd, r in zip(cmds, results):
            kind, i = cmd["_k"]
            if r.get("killed"):
                cs.killed += 1          # an observation (budget exceeded), counted, not judged here
                continue
            if "worker_exc" in r:
                raise common.MachineryError("worker command failed: %r %r" % (cmd["_k"], r))
            if kind == "doc":
                d = cmd["doc"]
                out = r.get("out")
                cs.add({"kind": "doc", "push0": push0, "status": r["status"], "doc": asmdoc.proj_doc(d),
                        "out": asmdoc.proj_doc(out) if r["status"] == "ok" else ""},
                       {"kind": "doc", "push0": push0, "shape": docs[i], "doc": d, "out": out, "status": r["status"]})
                for b in r.get("blocks", []):
                    cs.add_blocks(push0, "json", b, ["plain"], "shape %d" % i)
            elif kind == "file":
                with open(cmd["path"]) as f:
                    d = json.load(f)
                case = {"kind": "file", "push0": push0, "status": r["status"], "equal": False, "ndiff": 0, "diffs": []}
                if r["status"] == "ok":
                    with open(cmd["outpath"]) as f:
                        out = json.load(f)
                    diffs = asmdoc.raw_diffs(d, out)
                    case["equal"] = (d == out)
                    case["ndiff"] = len(diffs)
                    for path, a, b in diffs:
                        isitem = len(path) >= 2 and path[-2] == ".code" and isinstance(a, dict) and isinstance(b, dict)
                        case["diffs"].append({"path": " | ".join(path), "what": "item" if isitem else "other",
                                              "a": asmdoc.proj_item(a) if isitem else asmdoc.scalar(a),
                                              "b": asmdoc.proj_item(b) if isitem else asmdoc.scalar(b)})
                cs.add(case, {"kind": "file", "push0": push0, "file": cmd["path"], "status": r["status"], "ndiff": case["ndiff"],
                              "items": sum(len(items) for c in d["contracts"].values() if c and c.get("asm")
                                           for _, items in corpus.code_sections(c["asm"]))})
                for b in r.get("blocks", []):
                    cs.add_blocks(push0, "json", b, ["plain"], os.path.basename(cmd["path"]))
            elif kind == "spell":
                mn, word, text = asmdoc.spell(spells[i])
                parsed = [it for b in r.get("blocks", []) for it in _items(b["items"])]
                cs.add({"kind": "spell", "push0": push0, "mn": "PUSHn" if re.fullmatch(r"PUSH[1-9][0-9]*", mn) else mn, "word": word,
                        "vi": spells[i]["vi"], "status": r["status"], "parsed": parsed},
                       {"kind": "spell", "push0": push0, "text": text, "spelling": spells[i], "status": r["status"], "parsed": parsed})
                for b in r.get("blocks", []):
                    cs.add_blocks(push0, "text", b, ["plain", "bn"], text)
            else:
                if r["status"] != "ok":
                    # a text of the documented grammar that the parser rejects: recorded as a block case that raised
                    cs.add({"kind": "block", "push0": push0, "via": "parse", "origin": "text", "status": r["status"], "orig": [], "back": []},
                           {"kind": "block", "push0": push0, "via": "parse", "origin": "text", "text": texts[i], "src": texts[i], "orig": [],
                            "back": [], "status": r["status"]})
                for b in r.get("blocks", []):
                    cs.add_blocks(push0, "text", b, ["plain", "bn"], texts[i])
    return cs


# ---------------------------------------------------------------------------------------------
# validate

def _weight(c):
    if c["kind"] == "doc":
        return 30 + 2 * json.dumps(c["doc"]).count('"name"')
    if c["kind"] == "file":
        return 5 + len(c["diffs"])
    if c["kind"] == "block":
        return 2 + len(c["orig"])
    return 20


def validate(cases, tag="c15"):
    """cases -> ({id: (kind, clause, witness)}, machinery lines, stats)"""
    stats = {"states": 0, "transitions": 0, "jvms": 0, "wall": 0.0, "guards": [0, 0, 0, 0]}
    if not cases:
        return {}, [], stats
    shards = common.shard_by_weight(cases, [_weight(c) for c in cases], JOBS)
    envs = []
    for i, sh in enumerate(shards):
        sh.sort(key=lambda c: c["id"])
        p = os.path.join(common.workdir(), "%s_cases_%d.json" % (tag, i))
        common.write_json(p, {"cases": sh})
        envs.append({"CASES": p})
    results = common.run_tlc_shards("AsmDocTrace", "AsmDocTrace.cfg", envs, timeout=3000, heap="3g", jobs=JOBS, tag=tag)
    verdicts, mach = {}, []
    for r, sh in zip(results, shards):
        if not r.ok:
            raise common.MachineryError("AsmDocTrace TLC run failed:\n" + r.out[-3000:])
        cons = r.tagged("CONSUMED")
        if not cons or cons[0][1] != len(sh) or cons[0][2] != len(sh):
            raise common.MachineryError("AsmDocTrace did not consume every case: %r" % (cons,))
        stats["states"] += r.distinct
        stats["transitions"] += r.generated
        stats["jvms"] += 1
        stats["wall"] = max(stats["wall"], r.wall)
        g = r.tagged("GUARDS")[0]
        stats["guards"] = [a + b for a, b in zip(stats["guards"], g[1:5])]
        for t in r.tagged("VERDICT"):
            verdicts[t[1]] = (t[2], t[3], t[4])
        mach += r.tagged("MACHINERY")
    return verdicts, mach, stats


# ---------------------------------------------------------------------------------------------
# findings

def _gen_path(wit):
    out, prev = [], ""
    for i, x in enumerate(wit):
        x = str(x)
        if i == 1 and wit[0] == "contracts":
            y = "*"
        elif prev == ".data" or x.isdigit():
            y = "*" if prev == ".data" else "#"
        elif x.startswith(("s:", "i:", "j:")):
            y = x[:2] + "..."
        else:
            y = x
        out.append(y)
        prev = x
    return "/".join(out)


def finding_key(meta, verdict, single_fail):
    kind, clause, wit = verdict
    if kind == "doc":
        return "doc|%s|%s" % (clause, _gen_path(wit) if clause != "raised" else re.sub(r"[0-9]+", "#", str(wit[0]))[:60])
    if kind == "file":
        return "file|%s|%s" % (clause, _gen_path(str(wit[0]).split(" | ")) if clause != "raised" else str(wit[0])[:60])
    if kind == "spell":
        return "spell|%s|%s" % (clause, meta["text"])
    # block: the smallest failing input is a one-instruction block if one of the instructions fails alone
    for it in meta["orig"]:
        if (meta["via"], it["name"]) in single_fail:
            return "block|%s|item:%s" % (meta["via"], it["name"])
    if clause == "raised":
        return "block|%s|%s|raised|%s" % (meta["via"], meta["origin"], str(wit[1]).split(":")[1].strip() if ":" in str(wit[1]) else wit[1])
    return "block|%s|%s|%s|%s->%s" % (meta["via"], meta["origin"], clause, wit[2], wit[3])


def settle(cs, verdicts):
    single_fail = set()
    for cid, v in verdicts.items():
        m = cs.meta[cid]
        if m["kind"] == "block" and len(m["orig"]) == 1:
            single_fail.add((m["via"], m["orig"][0]["name"]))
    viol = []
    for cid in sorted(verdicts):
        m = dict(cs.meta[cid])
        m["key"] = finding_key(m, verdicts[cid], single_fail)
        m["verdict"] = list(verdicts[cid])
        viol.append((m, ("violates", verdicts[cid][1], verdicts[cid][2])))
    # one replay file per key: the smallest witness of each class
    best = {}
    for m, cl in viol:
        size = len(json.dumps(m.get("doc") or m.get("text") or m.get("file") or ""))
        if m["key"] not in best or size < best[m["key"]][0]:
            best[m["key"]] = (size, m, cl)
    counts = {}
    for m, _ in viol:
        counts[m["key"]] = counts.get(m["key"], 0) + 1
    reps = [(best[k][1], best[k][2]) for k in sorted(best)]
    out = findings.settle("C15", reps, lambda m: m)
    return out, viol, counts


# ---------------------------------------------------------------------------------------------

def run(tier):
    t0 = time.time()
    seed = common.seed()
    docs, spells, gres = asmdoc.gen_space(tier)
    ndocs_all = len(docs)
    tm = {"gen": time.time() - t0}
    if tier == "quick":
        # every value of every dimension with every pseudo-push kind, every pair of values with pk none/all, plus a seeded sample
        extra = {json.dumps(d, sort_keys=True) for d in corpus.sample(docs, 300, seed)}
        docs = [d for d in docs if _quick_keep(d) or json.dumps(d, sort_keys=True) in extra]
    texts, sres = _plain_texts(tier, seed)
    files = _example_files(tier)
    tm["gen"] = round(time.time() - t0, 1)
    driven = drive(tier, docs, spells, texts, files)
    tm["drive"] = round(time.time() - t0 - tm["gen"], 1)
    cs = build_cases(tier, driven, docs, spells, texts, files)
    verdicts, mach, st = validate(cs.cases)
    tm["validate"] = round(time.time() - t0 - tm["gen"] - tm["drive"], 1)
    if mach:
        raise common.MachineryError("AsmDocTrace reports inconsistent harness input: %r" % (mach[:3],))
    out, viol, counts = settle(cs, verdicts)

    kinds = {}
    for c in cs.cases:
        k = c["kind"] + ":" + c["push0"]
        kinds[k] = kinds.get(k, 0) + 1
    pk_seen = {d["pk"] for d in docs}
    if (st["guards"][0] == 0 or st["guards"][2] == 0 or any(kinds.get("%s:%s" % (k, s), 0) == 0 for k in ("doc", "file", "block", "spell")
                                                            for s in ("on", "off"))
            or not set(asmdoc.PSEUDO) <= pk_seen):
        raise common.MachineryError("vacuity guard: %r guards=%r" % (kinds, st["guards"]))
    samples = []
    for want in ("doc", "file", "block", "spell"):
        for c in cs.cases:
            if c["kind"] == want:
                m = cs.meta[c["id"]]
                samples.append({"kind": want, "push0": c["push0"], "input": m.get("shape") or m.get("file") or m.get("text"),
                                "verdict": list(verdicts[c["id"]]) if c["id"] in verdicts else "ok"})
                break
    for cid in list(sorted(verdicts))[:2]:
        m = cs.meta[cid]
        samples.append({"kind": m["kind"], "push0": m["push0"], "input": m.get("shape") or m.get("file") or m.get("text"),
                        "verdict": list(verdicts[cid])})
    cov = {"states": gres.distinct + sres.distinct + st["states"], "transitions": gres.generated + sres.generated + st["transitions"],
           "traces_validated_against_impl": len(cs.cases), "samples": samples, "evaluations": cs.evaluations,
           "distinct_nontrivial": st["guards"][0] + st["guards"][1] + st["guards"][2],
           "rule": "one evaluation = one real call judged (parse_asm+to_json of a document; render+re-parse of a block; parse of a spelling); "
                   "cases = evaluations after removing identical (input, output) pairs; non-trivial = documents whose output differs from the "
                   "input and is equal only under Norm + blocks equal only as numbers/without tags + spellings of values beyond 2^32",
           "cases_by_kind_and_push0": kinds, "doc_shapes": {"enumerated": ndocs_all, "driven": len(docs)}, "spellings": len(spells),
           "plain_texts": len(texts), "real_files": [os.path.basename(f) for f in files],
           "real_items": sum(m.get("items", 0) for m in cs.meta.values() if m["kind"] == "file"),
           "tlc": st, "phase_seconds": tm, "violating_cases": len(viol), "violation_keys": counts,
           "undecided": st["guards"][3], "killed": cs.killed,
           "undecided_note": "documents that spell a contract without assembly {\"asm\": null} (solc removes null members and writes {}): "
                             "compared with null = absent, counted here, never alarmed",
           "exhaustive": (tier == "thorough"),
           "exhaustive_note": "spellings (AsmDocGen!Spellings) and plain-text blocks of the listed shapes are enumerated completely in both tiers; "
                              "document shapes (AsmDocGen!DocShapes) completely in the thorough tier, a covering subset in the quick tier"}
    return {"level": "model_checking", "coverage": cov, "violations": out, "wall": time.time() - t0,
            "assumptions": [
                "same JSON document = same JSON value (objects unordered; type, presence and value of every field compared); Norm identifies only "
                "{name: PUSH, value: \"0\"} with {name: PUSH0} and only when PUSH0 is enabled",
                "documents have begin/end/source on every item and a .data object in every contract assembly, as solc writes them",
                "block identity leaves out `tag` labels (AsmBlock.to_plain omits them by design), ignores the [in]/[out] annotation of jumps, "
                "compares PUSH / PUSH0 / hexadecimal pseudo-push operands by numeric value and other operands as text",
                "to_plain_with_byte_number is judged only on blocks read from plain text (the block mode writes it to the optimized file); "
                "on blocks read from JSON it is a display format (JUMP [in])",
                "plain-text grammar: PUSH <hex, optional 0x>, PUSHn <0x hex | decimal>, PUSH0, pseudo-pushes as in examples/blocks"]}


def _quick_keep(d):
    base = {"noasm": "none", "nest": 1, "tophex": False, "aux": True, "src": False, "jt": "value", "md": False}
    off = [k for k in base if d[k] != base[k]]
    return len(off) <= 1 or (len(off) == 2 and d["pk"] in ("none", "all")) or \
        (d["pk"] == "all" and d["noasm"] != "none" and d["nest"] == 2 and d["tophex"] and d["src"] and d["md"])


# ---------------------------------------------------------------------------------------------
# replay, selftest

def _one(push0, cmd):
    argv = dict(SETTINGS)[push0]
    return pool.run_commands(argv, [cmd], 1, 300)[0]


def replay(path):
    with open(path) as f:
        rep = json.load(f)
    m = rep["case"]
    push0 = m["push0"]
    cs = Cases()
    if m["kind"] == "doc":
        r = _one(push0, {"cmd": "c15_doc", "doc": m["doc"]})
        cs.add({"kind": "doc", "push0": push0, "status": r["status"], "doc": asmdoc.proj_doc(m["doc"]),
                "out": asmdoc.proj_doc(r.get("out")) if r["status"] == "ok" else ""}, m)
        print("input:", json.dumps(m["doc"])[:2000])
        print("output:", json.dumps(r.get("out"))[:2000], r["status"])
    elif m["kind"] == "file":
        driven = drive("thorough", [], [], [], [m["file"]])
        cs = build_cases("thorough", [d for d in driven if d[0] == push0], [], [], [], [m["file"]])
        cs.cases = [c for c in cs.cases if c["kind"] == "file"]
    else:
        text = m.get("src") if m["kind"] == "block" and m.get("origin") == "text" else m.get("text")
        if m["kind"] == "block" and m.get("origin") == "json":
            print("block read from JSON; recorded case is re-validated:", m["text"])
            cs.add({"kind": "block", "push0": push0, "via": m["via"], "origin": "json", "status": m["status"],
                    "orig": _items(m["orig"]), "back": _items(m["back"])}, m)
        else:
            r = _one(push0, {"cmd": "c15_plain", "text": text})
            print("text:", text, "->", json.dumps(r)[:3000])
            for b in r.get("blocks", []):
                cs.add_blocks(push0, "text", b, ["plain", "bn"], text)
            if m["kind"] == "spell":
                sp = m["spelling"]
                mn, word, _ = asmdoc.spell(sp)
                cs.add({"kind": "spell", "push0": push0, "mn": "PUSHn" if re.fullmatch(r"PUSH[1-9][0-9]*", mn) else mn, "word": word,
                        "vi": sp["vi"], "status": r["status"], "parsed": [it for b in r.get("blocks", []) for it in _items(b["items"])]}, m)
    verdicts, mach, _ = validate(cs.cases, tag="c15replay")
    for cid, v in sorted(verdicts.items()):
        print("VERDICT", cid, cs.meta[cid].get("via", ""), v)
    for x in mach:
        print("MACHINERY", x)
    print("replay: %d case(s), %d failing" % (len(cs.cases), len(verdicts)))
    return 1 if verdicts or mach else 0


def selftest():
    """trace corruption: AsmDocTrace must accept the recorded cases and reject each corrupted copy"""
    import copy
    sh = {"noasm": "empty", "nest": 2, "tophex": True, "aux": True, "src": True, "jt": "field", "md": True, "pk": "all"}
    d = asmdoc.build_doc(sh)
    r = _one("on", {"cmd": "c15_doc", "doc": d})
    good = {"kind": "doc", "push0": "on", "status": r["status"], "doc": asmdoc.proj_doc(d), "out": asmdoc.proj_doc(r["out"])}
    rp = _one("on", {"cmd": "c15_plain", "text": "PUSH2 0x00FF PUSH1 255 PUSH [tag] 547 ADD"})
    b = rp["blocks"][0]
    goodb = {"kind": "block", "push0": "on", "via": "plain", "origin": "text", "status": "ok", "orig": _items(b["items"]),
             "back": _items(b["plain_back"]["items"])}
    goods = {"kind": "spell", "push0": "on", "mn": "PUSHn", "word": "18446744073709551616", "vi": 7, "status": "ok",
             "parsed": _items(_one("on", {"cmd": "c15_plain", "text": "PUSH9 18446744073709551616"})["blocks"][0]["items"])}
    cases, expect = [], {}

    def add(c, what, rejected):
        c = copy.deepcopy(c)
        c["id"] = len(cases) + 1
        cases.append(c)
        expect[c["id"]] = (what, rejected)
        return c

    add(good, "recorded document case", False)
    c = add(good, "jumpType dropped from a recorded output item", True)
    code = c["out"]["contracts"][0]["asm"][0]["code"]
    k = [i for i, it in enumerate(code) if it["jumpType"] != "-"][0]
    code[k]["jumpType"] = "-"
    c = add(good, "PUSH0 written where the input says PUSH 1 (nested run-time code)", True)
    code = c["out"]["contracts"][0]["asm"][0]["data"][0]["asm"][0]["code"]
    k = [i for i, it in enumerate(code) if it["value"] == "s:1"][0]
    code[k]["name"], code[k]["value"] = "s:PUSH0", "-"
    c = add(good, "same output judged with PUSH0 disabled (Norm is the identity)", True)
    c["push0"] = "off"
    c = add(good, "modifierDepth turned into a string", True)
    code = c["out"]["contracts"][0]["asm"][0]["code"]
    k = [i for i, it in enumerate(code) if it["modifierDepth"] != "-"][0]
    code[k]["modifierDepth"] = "s:1"
    add(goodb, "recorded block case", False)
    c = add(goodb, "one hex digit of a re-read constant changed", True)
    c["back"][0]["value"] = "s:fe"
    c = add(goodb, "tag operand of the re-read block changed", True)
    c["back"][2]["value"] = "s:546"
    add(goods, "recorded spelling case", False)
    c = add(goods, "2^64 read as 2^64 + 1", True)
    c["parsed"][0]["value"] = "s:10000000000000001"
    verdicts, mach, st = validate(cases, tag="c15self")
    ok = not mach
    for cid in sorted(expect):
        what, rej = expect[cid]
        got = cid in verdicts
        print("%-75s %s %s" % (what, "REJECTED" if got else "accepted", list(verdicts[cid]) if got else ""))
        ok = ok and (got == rej)
    print("selftest:", "ok" if ok else "FAILED")
    common.cleanup()
    return 0 if ok else 1


if __name__ == "__main__":
    if len(sys.argv) > 1 and sys.argv[1] == "selftest":
        sys.exit(selftest())
    print("usage: c15.py selftest   (the check itself: bin/check C15 --tier quick|thorough)")
