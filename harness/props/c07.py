"""C07 - the Max-SMT problem keeps an optimal program and prices it correctly.

Same drive as C06 (harness/smtcorpus.py).  (V) pass 1, spec/SoftCost.tla: cost of every decoded model under the
static schedule of spec/StaticCost.tla and weight of the soft constraints it violates; soft - cost must be
constant over the models of one problem.  (M/V) pass 2, spec/SFSCost.tla: exhaustive search over ALL sequences
within the published bounds carrying the cost; a goal cheaper than the cheapest model (complete enumerations
only), cheaper than the solver's proven optimum, or any goal when the hard constraints are unsatisfiable, is a
violation with the sequence's cost as witness."""
import os
import time

import common
import findings
import sfsproj
import smtcorpus


def crit_of(argv):
    return "size" if "-size" in argv else "length" if "-length" in argv else "gas"


def run_batch(module, cases, weightf, tag, timeout=3600, heap="3g"):
    shards = common.shard_by_weight(cases, [weightf(c) for c in cases], min(len(cases), common.NCPU * 2))
    envs = []
    for i, sh in enumerate(shards):
        p = os.path.join(common.workdir(), "%s_%d.json" % (tag, i))
        common.write_json(p, {"cases": sh})
        envs.append({"CASES": p})
    return shards, common.run_tlc_shards(module, module + ".cfg", envs, timeout=timeout, heap=heap, tag=tag)


def run(tier):
    t0 = time.time()
    recs, cnt, setnames = smtcorpus.collect(tier)
    cases = []
    for r in recs:
        smt = r["smt"]
        if "-push-basic" in r["argv"]:
            continue            # C06 records that this option does not produce a meaningful encoding; priced separately there
        if "exc" in smt and smt.get("stage") == "encode":
            # the encoder raised: no model exists; if the specification is realizable within its bounds this is the same
            # failure as unsatisfiable hard constraints (judged by SFSCost)
            smt = dict(smt, models=[], complete=True, softs=[], theta={}, outcome="encode-exception")
            r = dict(r, smt=smt)
        ps = sfsproj.proj_sfs(r["sfs"])
        theta = smt.get("theta", {})
        softs = []
        ok = True
        for s in smt.get("softs", []):
            if s.get("j") is None or any(t is None for t in s["thetas"]):
                ok = False
                break
            softs.append({"j": s["j"], "neg": bool(s["neg"]), "ids": [theta[str(t)] for t in s["thetas"]], "w": s["w"]})
        models = [sfsproj.proj_ids(m) for m in smt.get("models", [])]
        has_opt = smt.get("outcome") == "optimal" and smt.get("opt_ids")
        if has_opt:
            models.append(sfsproj.proj_ids(smt["opt_ids"]))
        cases.append({"id": len(cases) + 1, "sfs": ps, "crit": crit_of(r["argv"]), "models": models, "softs": softs if ok else [],
                      "first": smt.get("first", 0), "_r": r, "_has_opt": bool(has_opt), "_soft_ok": ok})
    strip = lambda c: {k: v for k, v in c.items() if not k.startswith("_")}
    p1 = [c for c in cases if c["models"]]
    shards, results = run_batch("SoftCost", [strip(c) for c in p1], lambda c: len(c["models"]) + 1, "soft")
    costs, viol_ids, states, trans = {}, {}, 0, 0
    for sh, r in zip(shards, results):
        if not r.ok:
            raise common.MachineryError("SoftCost TLC run failed:\n" + r.out[-2500:])
        cons = r.tagged("CONSUMED")
        if not cons or cons[0][1] != len(sh):
            raise common.MachineryError("SoftCost did not consume every case")
        states += r.distinct
        trans += r.generated
        for t in r.tagged("COSTS"):
            costs[t[1]] = (t[2], t[3], t[4])
        for t in r.tagged("VERDICT"):
            viol_ids[t[1]] = t
    viol = []
    byid = {c["id"]: c for c in cases}
    for cid, t in viol_ids.items():
        c = byid[cid]
        if not c["_soft_ok"]:
            continue
        r = c["_r"]
        viol.append(({"sub": r["sfs"].get("original_instrs"), "options": " ".join(r["argv"][4:]), "clause": t[3], "differences": str(t[4])[:200],
                      "costs": costs.get(cid, (None, None, None))[1], "softs": costs.get(cid, (None, None, None))[2]},
                     ("violates", t[3], t[2])))
    # pass 2
    p2 = []
    for c in cases:
        smt = c["_r"]["smt"]
        cc = costs.get(c["id"])
        nenum = len(smt.get("models", []))
        allc = cc[1] if cc else []
        ub = min(allc[:nenum]) if (smt.get("complete") and nenum > 0) else -1
        optcost = allc[-1] if (c["_has_opt"] and allc) else -1
        sat = bool(c["models"])
        known = sat or bool(smt.get("complete"))
        cap = max(ub, optcost) if max(ub, optcost) >= 0 else 1000000
        p2.append({"id": c["id"], "sfs": c["sfs"], "b0": c["sfs"]["b0"], "bs": c["sfs"]["bs"], "crit": c["crit"], "ubmodels": ub,
                   "optcost": optcost, "sat": sat, "known": known, "cap": cap})
    shards, results = run_batch("SFSCost", p2, lambda c: (len(c["sfs"]["ins"]) + 6) ** min(c["b0"], 8), "scost",
                                timeout=600 if tier == "quick" else 3000)
    mincost, finished, timeouts = {}, set(), 0
    for sh, r in zip(shards, results):
        states += r.distinct
        trans += r.generated
        if r.ok:
            finished |= {c["id"] for c in sh}
        elif r.rc == -9:
            timeouts += 1
        else:
            raise common.MachineryError("SFSCost TLC run failed:\n" + r.out[-2500:])
        for t in r.tagged("GOAL"):
            mincost[t[1]] = min(mincost.get(t[1], 10 ** 9), t[2])
        seen = set()
        for t in r.tagged("VERDICT"):
            if (t[1], t[3]) in seen:
                continue
            seen.add((t[1], t[3]))
            c = byid[t[1]]
            rr = c["_r"]
            viol.append(({"sub": rr["sfs"].get("original_instrs"), "options": " ".join(rr["argv"][4:]), "clause": t[3], "found_cost": t[2],
                          "claimed": t[4] if len(t) > 4 else None, "criterion": c["crit"], "b0": c["sfs"]["b0"], "bs": c["sfs"]["bs"]},
                         ("violates", t[3], t[2])))

    def keys(d):
        ks = ["%s | %s | %s" % (d.get("sub"), d.get("options"), d.get("clause"))]
        cl = d.get("clause", "")
        if cl.startswith("soft weight"):
            ks.append("soft-weight|" + ("size" if "-size" in d.get("options", "") else "length" if "-length" in d.get("options", "") else "gas"))
        if cl.startswith("realizable within"):
            ks.append("unsat-within-bounds")
        return ks
    out = findings.settle("C07", viol, lambda d: dict(d, key=keys(d)[0]), keys)
    decided = len([c for c in p2 if c["id"] in finished])
    if decided == 0 or not p1:
        raise common.MachineryError("vacuity guard: no problem was searched exhaustively")
    multi = len([c for c in p1 if len(c["models"]) >= 2])
    cov = {"states": states, "transitions": trans, "traces_validated_against_impl": sum(len(c["models"]) for c in p1),
           "samples": [{"sub_block": c["_r"]["sfs"].get("original_instrs"), "options": " ".join(c["_r"]["argv"][4:]), "criterion": c["crit"],
                        "model_costs": costs.get(c["id"], (None, None, None))[1], "soft_weights": costs.get(c["id"], (None, None, None))[2],
                        "true_min_cost": mincost.get(c["id"])} for c in p1[:3] + p1[-2:]],
           "evaluations": len(cases), "distinct_nontrivial": multi,
           "rule": "one evaluation = one (specification, encoder option set) Max-SMT problem; non-trivial = at least two models, so that "
                   "soft - cost constancy and optimum preservation are both exercised",
           "searched_exhaustively": decided, "search_timeouts": timeouts, "driver": cnt, "option_sets": setnames,
           "violating": len(viol), "exhaustive": False}
    return {"level": "model_checking", "coverage": cov, "violations": out, "wall": time.time() - t0,
            "assumptions": ["costs: static context-free schedule (spec/StaticCost.tla); state-dependent opcodes use the cold/one-word convention "
                            "recorded in the specification", "z3 4.8.12 stands in for the Max-SMT solver",
                            "optimum loss is only judged on problems whose model enumeration completed or whose optimum z3 proved",
                            "-push-basic problems are left to C06 (known finding there)"]}
