"""C10 - every block is processed to completion; a failure costs at most that block.

(M) spec/Pipeline.tla: the abstract control flow of the optimizer, checked by TLC in three variants:
    contain = "all"  (what the property requires): NoEscape, FailureCostsOneBlock, EmitOldAfterFailure,
                     KeepOrRevert, OutSound, LogMatchesOutput hold, and EveryBlockEmitted / OutputWritten
                     hold under weak fairness (no state constraint);
    contain = "none" (what gasol_asm.py does: compare_asm_block_asm_format outside any try) and
    contain = "loop" (only the per-block loop contained, csv_from_asm_blocks not): TLC must exhibit a
                     behaviour ending in a raise out of the pipeline - registered as design-level evidence.
(G) spec/PipelineFaults.tla enumerates (block, stage, sticky) per contract; spec/SeqGen.tla the block bodies;
    a hand list H (boundary constants for division/modulo/shifts/EXP, NOT NOT, ISZERO chains, 17+ live values).
(D) natural runs: every block in its own worker command `opt` under the budget of the spec; contract runs:
    worker command `c10` drives whole synthesized documents through optimize_asm_in_asm_format with the
    injected fault and without it, recording the event trace by attribute rebinding.
(V) spec/PipelineBudget.tla compares the recorded wall/rss numbers with Budget and flags exceptions and
    kills; spec/PipelineTrace.tla validates every contract trace against Pipeline (contain = "all") and
    checks the final clauses (output exists, failed block unchanged, other blocks as in the fault-free run).
Python only prepares inputs and reads TLC's verdict lines."""
import concurrent.futures as cf
import json
import os
import re
import sys
import time

sys.path.insert(0, os.path.dirname(os.path.dirname(os.path.abspath(__file__))))
import common
import corpus
import findings
import gen
import pipedoc
import pipetrace
import pool

JOBS = min(common.NCPU, 4)
M256 = "f" * 64

OPTSETS = {
    "quick": [["-greedy"], ["-greedy", "-size", "-storage"], ["-greedy", "-length", "-partition"]],
    "thorough": [["-greedy"], ["-greedy", "-size", "-storage"], ["-greedy", "-length", "-partition"],
                 ["-greedy", "-storage", "-no-simplification"], ["-greedy", "-partition", "-push0", "-size"],
                 ["-greedy", "-length", "-storage", "-push0"]],
}
SMT_SETS = [["-solver", "z3", "-tout", "1"], ["-ub-greedy", "-solver", "z3", "-tout", "1", "-storage", "-size"]]

REQUIRED_TRACE_ACTIONS = ["SpecGenOK", "SpecGenFail", "Skip", "Search", "SearchFail", "Decide", "Rebuild", "CompareEq",
                          "CompareNeq", "CompareRaise", "EmitNew", "EmitOld", "StatsOK", "WriteLog", "Finish"]
# StatsRaise needs a contained loop comparison followed by the statistics pass: unreachable in an implementation
# that lets the loop comparison raise; it is reported when it is taken and not demanded.
MODEL_ACTIONS = ["aSpecGenOK", "aSpecGenFail", "aSkip", "aSearch", "aSearchFail", "aDecide", "aRebuild", "aCompareEq",
                 "aCompareNeq", "aCompareRaise", "aEmitNew", "aEmitOld", "aStatsOK", "aStatsRaise", "aWriteLog", "aFinish"]


# --------------------------------------------------------------------------------------------
# (G) inputs

def hand_list():
    """the H-style list of the property's quantifier"""
    out, cs = [], ["0", M256]
    for op in ["DIV", "SDIV", "MOD", "SMOD", "SHL", "SHR", "SAR", "EXP"]:
        for a in cs:
            for b in cs:
                out.append("PUSH %s PUSH %s %s" % (a, b, op))
            out += ["PUSH %s %s" % (a, op), "PUSH %s SWAP1 %s" % (a, op), "PUSH %s DUP2 %s" % (a, op), "DUP1 PUSH %s %s" % (a, op)]
    for op in ["ADDMOD", "MULMOD"]:
        for a in cs:
            for b in cs:
                for c in cs:
                    out.append("PUSH %s PUSH %s PUSH %s %s" % (a, b, c, op))
            out += ["PUSH %s SWAP2 %s" % (a, op), "PUSH %s %s" % (a, op), "PUSH %s SWAP1 %s" % (a, op)]
    out.append(" ".join(["DUP1 ADD"] * 21))       # every result feeds both operands of the next operation
    # constant shifts / powers with an operand of 2^31: the folded value is trivial, the work must not grow with the constant
    out += ["PUSH 1 PUSH 80000000 SHL", "PUSH 1 PUSH 80000000 SHR", "PUSH 1 PUSH 80000000 SAR", "PUSH 80000000 PUSH 2 EXP", "PUSH 3 PUSH 100000000 SHL"]
    # blocks that are optimized and on which the block checker then raises a bare ValueError (chained loads whose subterm
    # dependences come out in another order in the re-analysed block): the failure has to be contained like any other
    out += ["SLOAD ADDRESS SLOAD DUP2 CALLDATALOAD ADDRESS PUSH 1 PUSH 2 ADD",
            "XOR CALLDATALOAD SLOAD MLOAD PUSH 40 PUSH 1 PUSH 2 GT PUSH 20 ADDRESS PUSH 40"]
    out += ["NOT NOT", "NOT NOT NOT", "NOT NOT NOT NOT", "DUP1 NOT NOT", "PUSH 0 NOT NOT", "PUSH %s NOT NOT" % M256,
            "NOT NOT ISZERO", "ISZERO NOT NOT", "CALLER NOT NOT POP", "NOT ISZERO", "NOT"]
    for n in range(1, 13):
        out.append(" ".join(["ISZERO"] * n))
        out.append(" ".join(["ISZERO"] * n) + " PUSH [tag] 5 JUMPI")
    for n in (16, 17, 18, 20):
        pushes = " ".join("PUSH %x" % (i + 1) for i in range(n))
        out += [pushes + " " + " ".join(["ADD"] * (n - 1)), pushes + " " + " ".join(["POP"] * n), pushes,
                pushes + " DUP16 SWAP16 POP", " ".join(["POP"] * n), " ".join(["DUP1"] * n),
                " ".join(["CALLER"] * n) + " " + " ".join(["ADD"] * (n - 1)),
                " ".join("DUP%d" % min(16, i + 1) for i in range(n))]
    out += ["DUP16", "SWAP16", "DUP16 DUP16 ADD", "SWAP16 POP", "DUP16 SWAP16", "SWAP16 SWAP16", "DUP16 POP",
            "SWAP16 DUP16 ADD SWAP16", "DUP16 DUP16 DUP16", "SWAP15 SWAP16 SWAP15", "DUP16 PUSH 0 MSTORE", "SWAP16 PUSH 0 SSTORE"]
    seen, res = set(), []
    for t in out + [t for t in corpus.hand_blocks() if wellformed(t)]:
        if t not in seen:
            seen.add(t)
            res.append(t)
    return res


def wellformed(text):
    """only opcodes of the supported vocabulary (the hand corpus of other properties holds DUP17 etc.)"""
    try:
        for ins in gen.tokens(text):
            gen.arity(ins)
            op = ins.split()[0]
            if (op.startswith("DUP") or op.startswith("SWAP")) and not 1 <= int(op.lstrip("DUPSWA")) <= 16:
                return False
        return True
    except Exception:
        return False


def generated_blocks(tier, seed):
    """X/S corpora: SeqGen enumerations of the gen.py vocabularies (JVMs run concurrently)"""
    jobs = [("rule", gen.rule_vocab(gen.C3), gen.RULE_SHAPES_BASIC, 3, None),
            ("env", gen.env_vocab(), [["*"], ["*", "*"]], 4, None),
            ("stack", gen.stack_vocab(), [["*"], ["*", "*"]] + ([["*", "*", "*"]] if tier == "thorough" else []), 4, None),
            ("split", gen.split_vocab(), [["*"], ["*", "*"]], 4, None),
            ("memsto", gen.mem_vocab(small=True) + gen.sto_vocab(), [["*"], ["*", "*"]], 4, None),
            ("sim", gen.mem_vocab(small=True) + gen.sto_vocab() + gen.split_vocab() + gen.stack_vocab(), [["*"] * 9], 5,
             (60 if tier == "quick" else 600, 10))]
    if tier == "thorough":
        jobs.append(("rulectx", gen.rule_vocab(gen.C3), gen.RULE_SHAPES_CTX, 3, None))
        jobs.append(("rule9", gen.rule_vocab(gen.C9), gen.RULE_SHAPES_BASIC, 3, None))
    out, stats, tlc = {}, {}, [0, 0]

    def one(j):
        name, vocab, shapes, maxin, sim = j
        b, r = gen.enumerate_blocks(vocab, shapes, maxin, simulate=sim, seed=seed)
        return name, b, r
    with cf.ThreadPoolExecutor(max_workers=JOBS) as ex:
        for name, b, r in ex.map(one, jobs):
            out[name] = b
            stats[name] = len(b)
            tlc[0] += r.distinct
            tlc[1] += r.generated
    return out, stats, tlc


def body_pool(gens):
    """block bodies for the synthesized contracts: a fixed core (known to optimize, to split, to stay) + simulated ones"""
    core = ["PUSH 0 ADD PUSH 1 MUL", "DUP1 PUSH 0 MSTORE PUSH 1 PUSH 2 ADD SWAP1 SSTORE", "SWAP1 SWAP1 DUP2 DUP2 ADD SWAP1 POP PUSH 0 ADD",
            "PUSH 3 PUSH 4 ADD POP CALLER POP", "DUP2 DUP2 ADD PUSH 0 MSTORE PUSH 1 PUSH 0 ADD PUSH 20 MSTORE POP", "CALLER PUSH 0 SSTORE PUSH 1 PUSH 1 SSTORE",
            "PUSH 1 SWAP1 POP PUSH 0 SLOAD ADD", "ISZERO ISZERO ISZERO", "DUP1 SWAP1 POP PUSH 5 PUSH 7 MUL ADD"]
    sim = [t for t in gens.get("sim", []) if 4 <= len(gen.tokens(t)) <= 12][:40]
    return core + sim


def synth_docs(tier, seed, bodies):
    """(doc, description) - 3 to 6 blocks in 2 or 3 code sections; one block without optimizable instructions"""
    import random
    rnd = random.Random(seed + 10)
    shapes = [(1, 2), (2, 1), (2, 2), (1, 3), (2, 3), (3, 3)] if tier == "quick" else \
        [(1, 2), (2, 1), (2, 2), (1, 3), (2, 3), (3, 3), (1, 1, 2), (2, 2, 2), (3, 1), (1, 2, 1), (2, 4), (3, 2)] * 2
    docs = []
    for i, sh in enumerate(shapes):
        secs = []
        for j, n in enumerate(sh):
            sec = [bodies[(i * 7 + j * 3 + k) % 9] if (i + j + k) % 2 == 0 else rnd.choice(bodies) for k in range(n)]
            secs.append(sec)
        if i % 2 == 0:
            secs[-1][-1] = ""            # `tag N JUMPDEST STOP`: nothing to optimize
        docs.append((pipedoc.make_doc(secs), {"sections": secs}))
    return docs


def fault_cfg(nb):
    p = os.path.join(common.workdir(), "PipelineFaults_%d.cfg" % nb)
    with open(p, "w") as f:
        f.write("SPECIFICATION FSpec\nCONSTANTS\n  NB = %d\n  SecOf <- Sec3\n  MaxSubs = 2\n  Contain = \"all\"\n"
                "  WithReplay = FALSE\n  MaxTamper = 0\nINVARIANT Emit\nCHECK_DEADLOCK FALSE\n" % nb)
    return p


def enumerate_faults(nbs):
    """PipelineFaults for the largest contract; a contract of nb blocks gets the faults with b <= nb -> {nb: [fault]}"""
    top = max(nbs)
    r = common.run_tlc("PipelineFaults", fault_cfg(top), {}, workers=1, timeout=600, tag="faults%d" % top)
    if not r.ok:
        raise common.MachineryError("PipelineFaults failed:\n" + r.out[-2000:])
    fs, seen = [], set()
    for t in r.tagged("F"):
        k = (t[1], t[2], t[3])
        if k not in seen:
            seen.add(k)
            fs.append({"b": t[1], "stage": t[2], "sticky": bool(t[3])})
    if len(fs) != 5 * top + 1:
        raise common.MachineryError("PipelineFaults: %d faults for %d blocks" % (len(fs), top))
    return {nb: [f for f in fs if f["b"] <= nb] for nb in set(nbs)}, [r.distinct, r.generated]


# --------------------------------------------------------------------------------------------
# (M) the abstract model

def parse_coverage(out):
    cov = {}
    for m in re.finditer(r"^<(a\w+) line [^>]*>: (\d+):(\d+)", out, re.M):
        cov[m.group(1)] = int(m.group(3))
    return cov


def parse_counterexample(out):
    """action names of the error trace TLC printed"""
    return re.findall(r"^State \d+: <(\w+) line", out, re.M)


def model_runs(tier, replay=False):
    """-> dict with states/transitions, coverage, the expected counterexamples"""
    pos_cfg = ("PipelineReplay.cfg" if tier == "quick" else "Pipeline3Replay.cfg") if replay else \
        ("Pipeline.cfg" if tier == "quick" else "Pipeline3.cfg")
    runs = [("contained", pos_cfg, ["-coverage", "1"] if tier == "quick" or replay else [], True)]
    if tier == "thorough" and not replay:
        runs.append(("contained-coverage", "Pipeline.cfg", ["-coverage", "1"], True))
    if tier == "thorough" and replay:
        runs.append(("contained-2blocks-tamper2", "PipelineReplay2.cfg", [], True))
    if not replay:
        runs += [("no-containment", "PipelineAsIs.cfg", [], False), ("loop-only-containment", "PipelineLoopOnly.cfg", [], False)]

    def one(x):
        name, cfg, extra, expect_ok = x
        r = common.run_tlc("Pipeline", cfg, {}, workers=2 if expect_ok else 1, timeout=3000, heap="4g", extra=extra, tag="pm_" + name)
        return x, r
    res = {"states": 0, "transitions": 0, "runs": {}, "coverage": {}, "counterexamples": {}}
    with cf.ThreadPoolExecutor(max_workers=3) as ex:
        for (name, cfg, extra, expect_ok), r in ex.map(one, runs):
            res["states"] += r.distinct
            res["transitions"] += r.generated
            info = {"cfg": cfg, "states": r.distinct, "transitions": r.generated, "wall_s": round(r.wall, 1)}
            if expect_ok:
                if not r.ok:
                    raise common.MachineryError("Pipeline model (%s) does not satisfy its properties:\n%s" % (cfg, r.out[-3000:]))
                if extra:
                    for k, v in parse_coverage(r.out).items():
                        res["coverage"][k] = max(res["coverage"].get(k, 0), v)
            else:
                if "Invariant NoEscape is violated" not in r.out:
                    raise common.MachineryError("Pipeline model (%s): the expected counterexample was not found:\n%s" % (cfg, r.out[-3000:]))
                info["expected_violation"] = "NoEscape"
                info["counterexample"] = parse_counterexample(r.out)
                m = re.search(r'fault \|-> (\[[^\]]*\])', r.out)
                info["fault"] = m.group(1) if m else ""
                m = re.findall(r'why \|-> "(\w*)"', r.out)
                info["escapes_from"] = m[-1] if m else ""
                res["counterexamples"][name] = info
            res["runs"][name] = info
    return res


# --------------------------------------------------------------------------------------------
# (D)+(V) natural runs under the budget

def doubling_chain(text):
    """the block is DUP1 <binary op> repeated at least 16 times: a term whose size doubles at every step"""
    toks = gen.tokens(text)
    return len(toks) >= 32 and len(toks) % 2 == 0 and all(t == "DUP1" for t in toks[0::2]) and len(set(toks[1::2])) == 1 \
        and toks[1] in gen.BIN


def exc_class(exc):
    """'Exception: ('Error in RBR generation', 4)' -> one class per root cause"""
    s = re.sub(r"[0-9]+", "", exc or "")
    s = re.sub(r"[^A-Za-z: ]+", " ", s)
    return " ".join(s.split())[:80]


def natural_plan(tier, seed, gens):
    H = hand_list()
    real = corpus.real_blocks()
    sets = OPTSETS[tier]
    plan = []
    for i, o in enumerate(sets):
        cmds = [{"text": t} for t in H]
        if tier == "quick":
            if i < 2:
                cmds += [{"text": t} for t in gens["rule"]]
            for name in ("env", "stack", "split", "memsto"):
                cmds += [{"text": t} for t in corpus.sample(gens[name], 150, seed + i)]
            cmds += [{"text": t} for t in gens["sim"]]
            cmds += [{"items": b["items"], "src": b["src"]} for b in corpus.sample(real, 200, seed + i)]
        else:
            for name in gens:
                cmds += [{"text": t} for t in (gens[name] if i < 2 else corpus.sample(gens[name], 1500, seed + i))]
            cmds += [{"items": b["items"], "src": b["src"]} for b in (real if i == 0 else corpus.sample(real, 1500, seed + i))]
        plan.append((o, cmds))
    if tier == "thorough":
        for i, o in enumerate(SMT_SETS):
            cmds = [{"text": t} for t in H] + [{"text": t} for t in corpus.sample(gens["rule"], 200, seed + i)]
            plan.append((o, cmds))
    return plan


def size_of(cmd):
    return len(cmd["items"]) if "items" in cmd else len(gen.tokens(cmd["text"]))


def text_of(cmd):
    return cmd["text"] if "text" in cmd else pipedoc.block_text(cmd["items"])


def natural_doc(cmd):
    """one block = one document: the block goes through the REAL pipeline (optimize_asm_in_asm_format), whatever
    containment it has, not through a re-enactment of it"""
    if "items" in cmd:
        return {"version": pipedoc.VERSION, "contracts": {"verif/C.sol:C": {"asm": {".code": cmd["items"], ".data": {}}}}}
    return pipedoc.make_doc([[cmd["text"]]])


def natural_runs(plan):
    """every block in its own killable command; the pool's kill limit is the budget of the largest block"""
    nmax = max(size_of(c) for _, cmds in plan for c in cmds)
    limit = 10 + 0.5 * nmax + 5
    results = pool.run_matrix([(o, [{"cmd": "c10", "doc": natural_doc(c), "light": True} for c in cmds]) for o, cmds in plan],
                              total_workers=JOBS, timeout=limit)
    cases, meta, rejected = [], [], 0
    for (o, cmds), rr in zip(plan, results):
        for cmd, r in zip(cmds, rr):
            if "worker_exc" in r:            # the input itself was refused by the parser: not a well-formed input
                rejected += 1
                continue
            stage, exc = r.get("stage", ""), r.get("raised", "")
            if exc and not stage:
                stage = "pipeline"
            cid = len(cases) + 1
            cases.append({"id": cid, "n": size_of(cmd), "wall_ms": int(1000 * r.get("wall", 0)), "rss_kb": int(r.get("maxrss_kb", 0)),
                          "killed": bool(r.get("killed")), "stage": stage, "exc": exc[:200], "file": bool(r.get("file", False))})
            meta.append({"text": text_of(cmd), "options": o, "src": cmd.get("src", ""), "contained": r.get("contained", []),
                         "file": r.get("file"), "changed": r.get("changed")})
    return cases, meta, rejected, limit


def judge_budget(cases):
    st = {"states": 0, "transitions": 0}
    verdicts = {}
    if not cases:
        return verdicts, st
    shards = common.shard(cases, 1 if len(cases) < 20000 else 2)
    envs = []
    for i, sh in enumerate(shards):
        p = os.path.join(common.workdir(), "budget_cases_%d.json" % i)
        common.write_json(p, {"cases": sh})
        envs.append({"CASES": p})
    for r, sh in zip(common.run_tlc_shards("PipelineBudget", "PipelineBudget.cfg", envs, jobs=JOBS, tag="budget"), shards):
        cons = r.tagged("CONSUMED")
        if not r.ok or not cons or cons[0][1] != len(sh):
            raise common.MachineryError("PipelineBudget TLC run failed:\n" + r.out[-3000:])
        st["states"] += r.distinct
        st["transitions"] += r.generated
        for t in r.tagged("VERDICT"):
            verdicts[t[1]] = [t[2], t[3]]
    return verdicts, st


def shrink(example, clause, cls, rounds):
    """delta debugging with TLC in the loop: all one-instruction deletions of the failing block are run (real
    code, killable commands) and judged by PipelineBudget in one batch per round; a reduction is kept when the
    same clause with the same exception class is reported"""
    cur, st = example["block"], [0, 0]
    for _ in range(rounds):
        toks = gen.tokens(cur)
        if len(toks) <= 1:
            break
        cands, n = [], len(toks)
        for size in sorted({max(1, n // 2), max(1, n // 4), 1}, reverse=True):      # ddmin-style: big chunks first
            for start in range(0, n, size):
                t = " ".join(toks[:start] + toks[start + size:])
                if t and t not in cands:
                    cands.append(t)
        rr = pool.run_commands(example["options"], [{"cmd": "c10", "doc": natural_doc({"text": t}), "light": True} for t in cands],
                               nworkers=JOBS, timeout=10 + 0.5 * len(toks) + 5)
        cases = []
        for i, (t, r) in enumerate(zip(cands, rr)):
            bad = "worker_exc" in r
            cases.append({"id": i + 1, "n": len(gen.tokens(t)), "wall_ms": int(1000 * r.get("wall", 0)), "rss_kb": int(r.get("maxrss_kb", 0)),
                          "killed": bool(r.get("killed")), "stage": "" if bad else (r.get("stage") or ("pipeline" if r.get("raised") else "")),
                          "exc": "" if bad else r.get("raised", "")[:200], "file": True if bad else bool(r.get("file", False))})
        v, bst = judge_budget(cases)
        st[0] += bst["states"]
        st[1] += bst["transitions"]
        keep = [c for c in cases if c["id"] in v and v[c["id"]][1] == clause and (not c["stage"] or exc_class(c["exc"]) == cls)]
        if not keep:
            break
        cur = min((cands[c["id"] - 1] for c in keep), key=lambda t: len(gen.tokens(t)))
    return cur, st


# --------------------------------------------------------------------------------------------
# (D)+(V) contract runs with injected and natural faults

def contract_plan(tier, seed, docs, faults, natural_bodies):
    """[(optargv, [cmd])]; every cmd carries _doc index, _ff (index of its fault-free reference) and _known"""
    sets = [["-greedy"], ["-greedy", "-storage"], ["-greedy", "-size", "-partition"]]
    plan = {}
    for i, (doc, desc) in enumerate(docs):
        o = sets[i % len(sets)]
        nb = len(pipedoc.doc_blocks(doc))
        lst = plan.setdefault(tuple(o), [])
        ref = len(lst)
        lst.append({"cmd": "c10", "doc": doc, "fault": None, "_ref": None, "_known": True, "_desc": desc})
        for f in faults[nb]:
            if f["stage"] == "none":
                continue
            lst.append({"cmd": "c10", "doc": doc, "fault": f, "_ref": ref, "_known": True, "_desc": desc})
    # natural faults: the shortest block of every escaping class found by the natural runs, placed in a contract
    for j, (body, cls) in enumerate(natural_bodies):
        for pos in ((0, 0), (1, 1)) if tier == "quick" else ((0, 0), (1, 0), (1, 1)):
            secs = [["PUSH 0 ADD PUSH 1 MUL"], ["DUP1 SWAP1 POP PUSH 5 PUSH 7 MUL ADD", "PUSH 1 SWAP1 POP PUSH 0 SLOAD ADD"]]
            good = [list(s) for s in secs]
            secs[pos[0]][pos[1]] = body
            good[pos[0]][pos[1]] = "POP"
            b = 1 + (0 if pos[0] == 0 else 1 + pos[1])
            lst = plan.setdefault(("-greedy",), [])
            ref = len(lst)
            lst.append({"cmd": "c10", "doc": pipedoc.make_doc(good), "fault": None, "_ref": None, "_known": True,
                        "_desc": {"sections": good}, "_aux": True})
            lst.append({"cmd": "c10", "doc": pipedoc.make_doc(secs), "fault": {"b": b, "stage": "natural", "sticky": True},
                        "_ref": ref, "_known": False, "_desc": {"sections": secs, "natural": cls}})
    return [(list(o), cmds) for o, cmds in plan.items()]


def strip_cmd(c):
    return {k: v for k, v in c.items() if not k.startswith("_")}


def contract_runs(plan):
    results = pool.run_matrix([(o, [strip_cmd(c) for c in cmds]) for o, cmds in plan], total_workers=JOBS, timeout=120)
    cases, meta = [], []
    for (o, cmds), rr in zip(plan, results):
        for cmd, r in zip(cmds, rr):
            if r.get("killed") or "events" not in r:
                raise common.MachineryError("contract run did not answer: %r %r" % (cmd.get("fault"), {k: r[k] for k in r if k != "events"}))
        for cmd, r in zip(cmds, rr):
            if cmd["fault"] is not None and cmd["fault"]["stage"] == "natural":
                r["fault"] = cmd["fault"]
            ff = rr[cmd["_ref"]]["out_doc"] if cmd["_ref"] is not None and rr[cmd["_ref"]]["file"] else None
            cid = len(cases) + 1
            cases.append(pipetrace.make_case(cid, r, cmd["doc"], ff, known=cmd["_known"]))
            meta.append({"options": o, "fault": r["fault"], "desc": cmd["_desc"], "doc": cmd["doc"], "raised": r.get("raised", ""),
                         "fired": r.get("fired", 0), "file": r["file"], "events": r["events"], "aux": bool(cmd.get("_aux"))})
    return cases, meta


def abbreviate(events):
    out = []
    for e in events:
        if e["e"] == "SpecGen" and e["ctx"] in ("cmpnew", "cmpold"):
            continue
        s = e["e"] + (str(e["b"]) if e["b"] else "")
        if e["e"] in ("Search", "Decide"):
            s += "." + str(e["k"]) + ("+" if e["ok"] else "-")
        elif e["e"] == "Compare":
            s += ":" + e["res"]
        elif e["e"] == "Emit":
            s += ":old" if e["is_old"] else ":new"
        elif e["e"] == "SpecGen":
            s += "+" if e["ok"] else "-"
        elif e["e"] == "Raise":
            s += "[" + e["exc"][:50] + "]"
        out.append(s)
    return " ".join(out)


def escape_stage(events):
    """which stage did the exception leave (for the finding's key; the verdict itself is TLC's)"""
    prev = [e for e in events if e["e"] != "Raise"]
    if prev and prev[-1]["e"] == "Compare" and prev[-1]["res"] == "raise":
        return "compare" if prev[-1]["n"] <= 1 else "statistics compare"
    if prev and prev[-1]["e"] == "Opt" and not prev[-1]["ok"]:
        return "optimize"
    return "pipeline"


# --------------------------------------------------------------------------------------------

def run(tier):
    t0 = time.time()
    seed = common.seed()
    with cf.ThreadPoolExecutor(max_workers=2) as ex:
        fm = ex.submit(model_runs, tier)
        gens, gstats, gtlc = generated_blocks(tier, seed)
        model = fm.result()
    t_model = time.time() - t0
    missing = [a for a in MODEL_ACTIONS if model["coverage"].get(a, 0) == 0]
    if missing:
        raise common.MachineryError("vacuity guard: Pipeline actions never taken by the model: %r" % missing)

    # natural runs
    plan = natural_plan(tier, seed, gens)
    bcases, bmeta, rejected, limit = natural_runs(plan)
    bverd, bst = judge_budget(bcases)
    t_nat = time.time() - t0
    groups = {}
    for cs, m in zip(bcases, bmeta):
        if cs["id"] not in bverd:
            continue
        clause = bverd[cs["id"]][1]
        key = clause + (": " + exc_class(cs["exc"]) if cs["stage"] else ": " + m["text"][:120])
        if not cs["stage"] and clause in ("killed: no termination within the budget", "time budget exceeded") and doubling_chain(m["text"]):
            key = "budget: value-doubling chain"
        g = groups.setdefault(key, {"kind": "block", "key": key, "clause": clause, "count": 0, "examples": []})
        g["count"] += 1
        g["examples"].append({"block": m["text"], "options": m["options"], "exception": cs["exc"], "wall_ms": cs["wall_ms"],
                              "rss_kb": cs["rss_kb"], "n": cs["n"], "budget_ms": bverd[cs["id"]][0]})
    shrunk = [0, 0]
    for g in groups.values():
        g["examples"] = sorted(g["examples"], key=lambda e: (e["n"], len(e["block"])))[:5]
    for g in sorted(groups.values(), key=lambda g: -g["examples"][0]["n"])[:1 if tier == "quick" else 6]:
        e = g["examples"][0]
        if e["n"] > 4 and g["clause"].startswith("exception escapes"):
            small, sst = shrink(e, g["clause"], exc_class(e["exception"]), 5 if tier == "quick" else 20)
            shrunk = [shrunk[0] + sst[0], shrunk[1] + sst[1]]
            if small != e["block"]:
                g["examples"].insert(0, dict(e, block=small, n=len(gen.tokens(small)), shrunk_from=e["block"]))
    natural_bodies = [(g["examples"][0]["block"], g["key"]) for g in groups.values()
                      if g["clause"].startswith("exception escapes") and g["examples"][0]["n"] <= 12][:4]
    # blocks whose analysis fails but is contained: the shortest block of every exception class goes into a contract too
    contained = {}
    for cs, m in zip(bcases, bmeta):
        if m["contained"] and not cs["stage"] and not cs["killed"] and not m["src"]:
            cls = "contained: " + exc_class(m["contained"][0])
            if cls not in contained or (cs["n"], len(m["text"])) < contained[cls][0]:
                contained[cls] = ((cs["n"], len(m["text"])), m["text"])
    natural_contained = {cls: v[1] for cls, v in contained.items()}
    natural_bodies += [(t, cls) for cls, t in sorted(natural_contained.items()) if len(gen.tokens(t)) <= 12][:3]

    # contract runs
    docs = synth_docs(tier, seed, body_pool(gens))
    faults, fst = enumerate_faults([len(pipedoc.doc_blocks(d)) for d, _ in docs])
    cplan = contract_plan(tier, seed, docs, faults, natural_bodies)
    tcases, tmeta = contract_runs(cplan)
    tverd, tends, tst = pipetrace.run_traces(tcases, jobs=2 if tier == "quick" else JOBS, tag="c10trace")
    t_tr = time.time() - t0
    taken = set()
    for cid, e in tends.items():
        taken.update(e[3])
    for cid, v in tverd.items():
        if len(v) > 6:
            taken.update(v[6])
    missing = [a for a in REQUIRED_TRACE_ACTIONS if a not in taken]
    if missing:
        raise common.MachineryError("vacuity guard: Pipeline actions never taken by any validated trace: %r" % missing)
    notfired = [m["fault"] for m in tmeta if m["fault"]["stage"] in ("specgen", "search", "cmpspec", "wrongcand") and m["fired"] == 0
                and not skipped_block(m)]
    for cs, m in zip(tcases, tmeta):
        if cs["id"] not in tverd:
            continue
        v = tverd[cs["id"]]
        clause = v[1]
        bad = m["events"][v[0] - 1] if v[0] <= len(m["events"]) else None
        if clause.startswith("event not enabled:") and bad is not None and bad["exc"]:
            # an event that carries an exception and is not enabled = the exception left the containment
            stage = escape_stage(m["events"]) if bad["e"] == "Raise" else "optimize"
            cls = "injected fault" if "Injected" in bad["exc"] else exc_class(bad["exc"])
            key = "exception escapes %s stage: %s" % (stage, cls)
        else:
            key = "trace: " + clause + " @" + common.stable_hash(m["desc"])
        g = groups.setdefault(key, {"kind": "contract", "key": key, "clause": clause, "count": 0, "examples": []})
        g["count"] += 1
        if g["kind"] == "contract" and len([e for e in g["examples"] if "doc" in e]) < 3:
            g["examples"].append({"sections": m["desc"].get("sections"), "options": m["options"], "fault": m["fault"], "position": v[0],
                                  "verdict": v[1:6], "raised": m["raised"], "output_file": m["file"], "trace": abbreviate(m["events"]),
                                  "doc": m["doc"]})
    viol = [(g, ("violates", g["clause"], g["count"])) for g in groups.values()]
    out = findings.settle("C10", viol, describe, keysf=lambda g: [g["key"]])

    n_traces = len(tcases)
    accepted = [cs["id"] for cs in tcases if cs["id"] not in tverd]
    samples = []
    for cs, m in list(zip(tcases, tmeta))[:2] + [x for x in zip(tcases, tmeta) if x[0]["id"] in tverd][:2]:
        samples.append({"kind": "contract trace", "options": m["options"], "fault": m["fault"], "blocks": cs["nb"],
                        "trace": abbreviate(m["events"])[:900], "verdict": tverd.get(cs["id"], ["accepted"])[:2]})
    for g in list(groups.values())[:4]:
        e = g["examples"][0]
        samples.append({"kind": g["kind"], "key": g["key"], "count": g["count"],
                        "example": {k: e[k] for k in e if k not in ("doc", "trace")}})
    for name, ce in model["counterexamples"].items():
        samples.append({"kind": "model counterexample (expected: the variant without full containment violates NoEscape)", "variant": name, "fault": ce["fault"],
                        "actions": ce["counterexample"], "escapes_from": ce["escapes_from"]})
    distinct_blocks = len({(m["text"], tuple(m["options"])) for m in bmeta})
    cov = {"states": model["states"] + bst["states"] + tst["states"] + fst[0] + gtlc[0] + shrunk[0],
           "transitions": model["transitions"] + bst["transitions"] + tst["transitions"] + fst[1] + gtlc[1] + shrunk[1],
           "traces_validated_against_impl": n_traces, "samples": samples,
           "evaluations": len(bcases) + n_traces,
           "distinct_nontrivial": len({common.stable_hash([m["desc"], m["fault"], m["options"]]) for m in tmeta if m["fault"]["stage"] != "none"}),
           "rule": "evaluations = natural per-block runs (worker `opt`, one block per killable command, judged by PipelineBudget) + whole-contract "
                   "traces (worker `c10`, judged by PipelineTrace); distinct_nontrivial = distinct (contract, option set, fault) runs with a fault "
                   "(injected by rebinding, or natural)",
           "model": model["runs"], "model_action_coverage": model["coverage"],
           "model_expected_violations": {k: {"fault": v["fault"], "actions": v["counterexample"], "escapes_from": v["escapes_from"]}
                                         for k, v in model["counterexamples"].items()},
           "natural_runs": len(bcases), "natural_distinct": distinct_blocks, "natural_rejected_inputs": rejected,
           "natural_failing": sum(g["count"] for g in groups.values() if g["kind"] == "block"),
           "natural_blocks_with_contained_analysis_failure": sum(1 for m in bmeta if m["contained"]),
           "natural_contained_failure_classes": natural_contained,
           "natural_fault_contracts": sum(1 for m in tmeta if m["fault"]["stage"] == "natural"),
           "natural_max_wall_ms": max([c["wall_ms"] for c in bcases] or [0]), "natural_max_rss_kb": max([c["rss_kb"] for c in bcases] or [0]),
           "budget": "Budget(n) = 10 s + 0.5 s * n wall, 1 GB peak RSS (Pipeline!BudgetMs, BudgetRssKb); kill limit of the pool %.1f s" % limit,
           "corpus": gstats, "hand_list": len(hand_list()), "option_sets": [o for o, _ in plan],
           "contract_docs": len(docs), "contract_traces": n_traces, "traces_accepted": len(accepted), "traces_rejected": len(tverd),
           "faults_per_contract_size": {str(k): len(v) for k, v in faults.items()},
           "injected_faults_that_never_fired": len(notfired),
           "trace_actions_taken": sorted(taken), "trace_actions_not_reachable_on_this_tree": sorted({"StatsRaise"} - taken),
           "violation_classes": {k: g["count"] for k, g in groups.items()},
           "known_findings_hit": out["known_hit"], "new_violations": len(out["new"]),
           "exhaustive": False, "model_wall_s": round(t_model, 1), "natural_wall_s": round(t_nat - t_model, 1),
           "trace_wall_s": round(t_tr - t_nat, 1)}
    return {"level": "model_checking", "coverage": cov, "violations": out, "wall": time.time() - t0,
            "assumptions": [
                "TLA+ cannot observe CPU time or memory: wall-clock seconds and the peak RSS of the worker process are measured by the harness "
                "and only compared with Budget by spec/PipelineBudget.tla (peak RSS is cumulative over the commands of one worker process)",
                "an input the parser refuses (worker_exc) is not a well-formed input and is not judged",
                "`emitted unchanged` = equal to the tool's own serialization of the parsed input block (PUSH 0 is written as PUSH0 when allowed); "
                "serializer fidelity is C15",
                "single-fault model: one faulty block per contract; injected faults are one-shot at their stage except `specgen sticky` "
                "(the analysis of that block fails wherever it is re-run), which is what a natural fault looks like",
                "search faults are injected inside the containment the code has (greedy_from_json under greedy_standalone), -greedy back-end only",
                "the abstract model assumes a sound deterministic checker (C05) and checks liveness under weak fairness of Next",
                "the model variants contain=none/loop are expected to violate NoEscape: they document that the comparison and the statistics "
                "pass re-run the analysis outside any try"]}


def skipped_block(m):
    """an injected fault cannot fire on a block without optimizable instructions (no analysis happens)"""
    b = m["fault"]["b"]
    flat = [x for s in m["desc"].get("sections", []) for x in s]
    return 1 <= b <= len(flat) and flat[b - 1] == "" and b == len(flat)


def describe(g):
    d = {"key": g["key"], "kind": g["kind"], "clause": g["clause"], "count": g["count"], "examples": g["examples"]}
    return d


# --------------------------------------------------------------------------------------------

def replay(path):
    with open(path) as f:
        rep = json.load(f)
    case = rep["case"]
    ex = case["examples"][0]
    print("C10 replay: %s (%d case(s) in the recorded run)" % (case["key"], case["count"]))
    if case["kind"] == "block":
        r = pool.run_commands(ex["options"], [{"cmd": "c10", "doc": natural_doc({"text": ex["block"]}), "light": True}], nworkers=1,
                              timeout=10 + 0.5 * ex["n"] + 5)[0]
        print(r.get("tb", ""))
        cs = [{"id": 1, "n": ex["n"], "wall_ms": int(1000 * r.get("wall", 0)), "rss_kb": int(r.get("maxrss_kb", 0)),
               "killed": bool(r.get("killed")), "stage": r.get("stage") or ("pipeline" if r.get("raised") else ""),
               "exc": r.get("raised", "")[:200], "file": bool(r.get("file", False))}]
        v, _ = judge_budget(cs)
        print("block: %s\noptions: %s\nrecorded: %r\nPipelineBudget verdict: %r" % (ex["block"], ex["options"], cs[0], v.get(1, "ok")))
        return 1 if 1 in v else 0
    fault = ex["fault"] if ex["fault"]["stage"] != "none" else None
    inj = fault if fault and fault["stage"] != "natural" else None
    rr = pool.run_commands(ex["options"], [{"cmd": "c10", "doc": ex["doc"], "fault": inj}], nworkers=1, timeout=120)
    r = rr[0]
    if fault and fault["stage"] == "natural":
        r["fault"] = fault
    cs = pipetrace.make_case(1, r, ex["doc"], None, known=inj is not None or fault is None)
    v, ends, _ = pipetrace.run_traces([cs], jobs=1, tag="c10replay")
    print("sections: %r\noptions: %s fault: %r" % (ex.get("sections"), ex["options"], fault))
    for i, e in enumerate(r["events"]):
        e = {k: x for k, x in e.items() if k != "items" and x not in ("", 0, [])}
        print("  %3d %s" % (i + 1, e))
    if r.get("tb"):
        print(r["tb"])
    print("PipelineTrace verdict: %r" % (v.get(1, "accepted"),))
    return 1 if 1 in v else 0


# --------------------------------------------------------------------------------------------

def selftest():
    """corrupt recorded events of an accepted trace and show that PipelineTrace rejects each corruption"""
    import copy
    doc = pipedoc.make_doc([["PUSH 0 ADD PUSH 1 MUL", "DUP1 PUSH 0 MSTORE PUSH 1 PUSH 2 ADD SWAP1 SSTORE"], ["DUP1 SWAP1 POP PUSH 5 PUSH 7 MUL ADD", ""]])
    rr = pool.run_commands(["-greedy", "-storage"], [{"cmd": "c10", "doc": doc}, {"cmd": "c10", "doc": doc, "fault": {"b": 2, "stage": "wrongcand", "sticky": False}}],
                           nworkers=2, timeout=120)
    base = pipetrace.make_case(1, rr[1], doc, rr[0]["out_doc"], known=True)
    ev = base["events"]
    i_emit = next(i for i, e in enumerate(ev) if e["e"] == "Emit" and e["b"] == 2)
    i_dec = next(i for i, e in enumerate(ev) if e["e"] == "Decide" and e["b"] == 1)
    muts = [("unmodified", lambda c: None, False)]

    def m_emit_new(c):
        c["events"][i_emit].update(is_old=False, same_as_cand=True, same_as_input=False)
    muts.append(("Emit of the rebuilt block although the comparison said `not equal`", m_emit_new, True))

    def m_drop(c):
        del c["events"][i_emit]
    muts.append(("EmitOld dropped", m_drop, True))

    def m_decide(c):
        c["events"][i_dec]["ok"] = not c["events"][i_dec]["ok"]
    muts.append(("decision flipped", m_decide, True))

    def m_out(c):
        c["out"][0], c["out"][2] = c["out"][2], c["out"][0]
    muts.append(("two blocks exchanged in the output file", m_out, True))

    def m_ff(c):
        c["ff"][2] = c["ff"][0]
    muts.append(("fault-free reference differs at another block", m_ff, True))

    def m_nofile(c):
        c["file"] = False
        c["events"][-1]["ok"] = False
    muts.append(("no output file", m_nofile, True))
    cases = []
    for i, (name, fn, _) in enumerate(muts):
        c = copy.deepcopy(base)
        c["id"] = i + 1
        fn(c)
        cases.append(c)
    v, ends, st = pipetrace.run_traces(cases, jobs=2, tag="c10self")
    ok = True
    for i, (name, _, expect) in enumerate(muts):
        got = (i + 1) in v
        print("selftest C10: %-75s %s %s" % (name, "REJECTED" if got else "accepted", v.get(i + 1, [])[:2]))
        ok = ok and (got == expect)
    if not ok:
        raise common.MachineryError("C10 selftest failed")
    return ok


if __name__ == "__main__":
    try:
        selftest()
    finally:
        common.cleanup()
