"""C03 - simplification rules and constant folding are identities on 256-bit words.

(M) spec/WordsCheck.tla checks the word library against native integers (8-bit exhaustive, 16-bit grid);
(G) TLC (SeqGen) enumerates instantiations of rule left-hand sides (operators x operands drawn from stack
variables, repeated variables and boundary constants, in two contexts, chains up to three operators);
(D) the real front-end produces the specification with rules enabled and with -no-simplification, for
the gas and the size criterion; (V) TLC (spec/SFSDenote.tla over Words/EVM) evaluates BOTH specifications
on the grid and compares each with the concrete run of the block, hence with each other."""
import concurrent.futures as cf
import re
import time

import c02
import common
import corpus
import denote
import findings
import gen
import pool

M256 = (1 << 256) - 1
V13 = [0, 1, 2, 31, 32, 255, 256, (1 << 160) - 1, (1 << 255) - 1, 1 << 255, (1 << 255) + 1, M256 - 1, M256]

OPTSETS = [("rules-gas", []), ("norules-gas", ["-no-simplification"]), ("rules-size", ["-size"]),
           ("norules-size", ["-size", "-no-simplification"]), ("rules-length", ["-length"])]


def const_blocks(vals):
    out = []
    if common.replay_file():
        return out
    for op in gen.BIN:
        for a in vals:
            for b in vals:
                out.append("PUSH %x PUSH %x %s" % (b, a, op))
    return out


def catalogue(tier):
    """(M) spec/Rules.tla: every catalogued rule is an identity at 8 bits (all operands), 16 and 256 bits (boundary
    operands), every rejected reading has a counterexample.  Returns the catalogue [(name, arity, pattern block)]."""
    cfgs = ["Rules2.cfg", "Rules32.cfg"] + (["Rules1.cfg"] if tier != "quick" else [])
    with cf.ThreadPoolExecutor(max_workers=3) as ex:
        rs = list(ex.map(lambda c: common.run_tlc("Rules", c, workers=1, heap="3g", tag="rules", timeout=1800), cfgs))
    cat, states = [], 0
    for c, r in zip(cfgs, rs):
        bad = r.tagged("UNSOUND") + r.tagged("NOT-REFUTED")
        if bad or not r.ok:
            raise common.MachineryError("rule catalogue %s rejected (the catalogue transcribes the rules of the unchanged tree; "
                                        "correct spec/Rules.tla): %r\n%s" % (c, bad, r.out[-1500:]))
        states += r.distinct
        if not cat:
            cat = [(t[1], t[2], t[3]) for t in r.tagged("RULE")]
    return cat, states


def block_key(text):
    return (" ".join(text.split()) + " ").replace("PUSH 0 ", "PUSH0 ")


def rule_key(name):
    return re.sub(r"[^A-Z]", "", re.sub(r"[0-9]+", "N", name))


def run(tier):
    t0 = time.time()
    seed = common.seed()
    cat, cstates = catalogue(tier)
    if tier == "quick":
        basic, _ = gen.enumerate_blocks(gen.rule_vocab(gen.C5), gen.RULE_SHAPES_BASIC, 3)
        ctx, _ = gen.enumerate_blocks(gen.rule_vocab(gen.C3), gen.RULE_SHAPES_CTX, 3)
        chain, _ = gen.enumerate_blocks(gen.rule_vocab(gen.C3), gen.RULE_SHAPES_CHAIN, 3)
        # every pair (binary operator, consumer operator) with every operand pattern: rules over instruction pairs
        pairs, _ = gen.enumerate_blocks(gen.rule_vocab(gen.C3), [["S", "T", "B", "O"], ["T", "U", "O"]], 3)
        pairs = pairs + gen.shared_use_blocks(250, seed)      # a rewritten value with two uses
        blocks = basic + corpus.sample(ctx, 300, seed) + corpus.sample(chain, 800, seed) + corpus.sample(const_blocks(V13), 400, seed)
        wc = [("WordsCheck1q.cfg", "8-bit (reduced operand set)")]
    else:
        basic, _ = gen.enumerate_blocks(gen.rule_vocab(gen.C9), gen.RULE_SHAPES_BASIC, 3)
        ctx, _ = gen.enumerate_blocks(gen.rule_vocab(gen.C5), gen.RULE_SHAPES_CTX, 3)
        chain, _ = gen.enumerate_blocks(gen.rule_vocab(gen.C3), gen.RULE_SHAPES_CHAIN, 3)
        blocks = basic + ctx + const_blocks(V13)
        wc = [("WordsCheck1.cfg", "8-bit"), ("WordsCheck2.cfg", "16-bit")]
        pairs = chain + gen.shared_use_blocks(250, seed)    # chains of up to three operators, values with two uses: rules on only, validated where a rule fired
    hand = corpus.hand_blocks() + [p for _, _, p in cat]
    cmds = [{"cmd": "sfs", "text": t} for t in hand + blocks]
    # (M) the oracle is checked before it is believed
    wstates = 0
    for cfg, name in wc:
        r = common.run_tlc("WordsCheck", cfg, workers=common.NCPU, heap="4g", tag="wc", timeout=1800)
        if not r.ok:
            raise common.MachineryError("WordsCheck %s failed:\n%s" % (name, r.out[-2000:]))
        wstates += r.distinct
    sets = OPTSETS[:4] if tier == "quick" else OPTSETS

    def pick(i):
        return cmds if (i < 2 or tier != "quick") else corpus.sample(cmds, len(cmds) // 2, seed + i)
    # the operator-pair instantiations run with rules enabled only, and only those on which a rule fired are validated
    pair_cmds = [{"cmd": "sfs", "text": t} for t in pairs]
    pair_sets = [("rules-gas", []), ("rules-size", ["-size"])] if pairs else []
    res = pool.run_matrix([(["-greedy"] + argv, [dict(c) for c in pick(i)]) for i, (_, argv) in enumerate(sets)] +
                          [(["-greedy"] + argv, [dict(c) for c in (pair_cmds if j == 0 else corpus.sample(pair_cmds, len(pair_cmds) // 3, seed))])
                           for j, (_, argv) in enumerate(pair_sets)], timeout=20)
    cases, cnt = c02.cases_from([(n, r) for (n, _), r in zip(sets, res)], maxops=4, min_ops=0)
    pcases, pcnt = c02.cases_from([(n + "-pairs", r) for (n, _), r in zip(pair_sets, res[len(sets):])], maxops=4, min_ops=0)
    have = {common.stable_hash([c["sfs"], [(i["op"], i["k"], i["w"]) for i in c["prog"]]]) for c in cases}
    for c in pcases:
        if c["_rules"] and common.stable_hash([c["sfs"], [(i["op"], i["k"], i["w"]) for i in c["prog"]]]) not in have:
            c["id"] = len(cases) + 1
            cases.append(c)
    for k in cnt:
        cnt[k] += pcnt.get(k, 0)
    for c in cases:
        c["cap"] = 48 if tier == "quick" else 256
    verdicts, st = denote.run_denote(cases, 48, tag="c03")
    viol, undec, fired = [], 0, set()
    rules_cases = 0
    for c in cases:
        ks = findings.rule_kinds(c["_rules"])
        if ks:
            rules_cases += 1
            fired.update(ks)
        cl = denote.classify(verdicts.get(c["id"], []))
        if cl[0] == "violates":
            viol.append((c, cl))
        elif cl[0] == "undecided":
            undec += 1
    out = findings.settle("C03", viol, lambda c: {"sub_block": c["_sub"], "block": c["_block"], "options": c["_opt"], "rules": c["_rules"],
                                                  "key": c["_sub"] + " @" + c["_opt"]},
                          lambda c: [c["_sub"] + " @" + c["_opt"]] + ["rule|" + k for k in findings.rule_kinds(c["_rules"])])
    # the catalogue against the code: which catalogued rule fires on its own pattern, which reported rule is not catalogued
    own = {}
    for c in cases:
        if c["_opt"] == "rules-gas":
            own.setdefault(block_key(c["_block"]), set()).update(rule_key(k) for k in findings.rule_kinds(c["_rules"]))
    cat_fired = sorted(n for n, _, p in cat if rule_key(n) in own.get(block_key(p), ()))
    cat_keys = {rule_key(n) for n, _, _ in cat}
    outside = sorted(k for k in fired if rule_key(k) not in cat_keys and k not in ("EVAL", "LOAD-FORWARD", "NOT(X)", "ISZ(N)"))
    if len(fired) < 15:
        raise common.MachineryError("vacuity guard: only %d distinct rule kinds fired" % len(fired))
    cov = {"states": st["states"] + wstates, "transitions": st["transitions"] + wstates, "traces_validated_against_impl": len(cases),
           "samples": [{"sub_block": c["_sub"], "rules": c["_rules"], "options": c["_opt"], "tgt": c["sfs"]["tgt"]}
                       for c in [x for x in cases if x["_rules"]][:4] + cases[-2:]],
           "evaluations": cnt["specs"], "distinct_nontrivial": rules_cases,
           "rule": "one evaluation = one specification produced by the real front-end for a generated rule instantiation under one option set; "
                   "distinct = distinct (specification, block); non-trivial = at least one rule or constant folding fired",
           "word_library_selfcheck_states": wstates, "rule_catalogue": {"rules": len(cat), "tlc_states": cstates,
                                                                         "fired_on_own_pattern": len(cat_fired),
                                                                         "not_fired_on_own_pattern": sorted(n for n, _, _ in cat if n not in cat_fired),
                                                                         "reported_by_code_not_catalogued": outside}, "grid_initial_states": st["inits"], "undecided_cases": undec,
           "distinct_rule_kinds_fired": sorted(fired), "driver": cnt, "option_sets": [n for n, _ in sets],
           "violating": len(viol), "exhaustive": False, "tlc_wall_s": round(st["wall"], 1)}
    return {"level": "model_checking", "coverage": cov, "violations": out, "wall": time.time() - t0,
            "assumptions": ["operand values: boundary grid at 256 bits; all values only at 8 bits for the word library itself",
                            "size gating is checked through C08 (emitted block never larger under -size)",
                            "a front-end exception on one of these blocks is a C10 matter"]}
