"""Worker command for C08: run the real optimize_asm_contract on a small contract and record, per processed
block, what the tool added to its running totals, plus the totals themselves."""
W = {}


def bind(g):
    W.update(g)


def cmd_totals(cmd):
    gasol_asm, params, parser_asm = W["gasol_asm"], W["params"], W["parser_asm"]
    data = {".code": cmd["init"], ".data": {"0": {".code": cmd["run"], ".auxdata": "00"}}}
    c = parser_asm.build_asm_contract("verif.sol:C", data)
    gasol_asm.init()
    rows = []
    names = ["previous_gas", "new_gas", "previous_size", "new_size", "prev_n_instrs", "new_n_instrs"]
    fields = {"previous_gas": "og", "new_gas": "ng", "previous_size": "os", "new_size": "ns", "prev_n_instrs": "ol", "new_n_instrs": "nl"}
    real = {n: getattr(gasol_asm, n) for n in ("update_gas_count", "update_size_count", "update_length_count")}

    def wrap(fname, first):
        def f(old, new):
            before = {n: getattr(gasol_asm, n) for n in names}
            real[fname](old, new)
            if first:
                rows.append({"og": 0, "ng": 0, "os": 0, "ns": 0, "ol": 0, "nl": 0, "orig": W["proj_block"](old), "opt": W["proj_block"](new)})
            for n in names:
                rows[-1][fields[n]] += getattr(gasol_asm, n) - before[n]
        return f
    gasol_asm.update_gas_count = wrap("update_gas_count", True)
    gasol_asm.update_length_count = wrap("update_length_count", False)
    gasol_asm.update_size_count = wrap("update_size_count", False)
    out = {}
    try:
        gasol_asm.optimize_asm_contract(c, params)
        out["totals"] = {"pg": gasol_asm.previous_gas, "ng": gasol_asm.new_gas, "ps": gasol_asm.previous_size, "ns": gasol_asm.new_size,
                         "pl": gasol_asm.prev_n_instrs, "nl": gasol_asm.new_n_instrs}
    except BaseException as e:
        out["exc"] = W["exc_info"](e)
    finally:
        for n, f in real.items():
            setattr(gasol_asm, n, f)
    out["rows"] = rows
    return out


COMMANDS = {"totals": cmd_totals}
