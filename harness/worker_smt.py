"""Worker commands for C06/C07: build the Max-SMT encoding of a specification with the repository's own
classes, write the .smt2 through the repository's own writer, let the stand-in solver (/usr/bin/z3, found
through the rebound z3_exec) enumerate the models of the hard constraints, and decode every model with the
repository's own model reader (_rebuild_block_from_solver).  Only projection happens here."""
import re
import subprocess
import time
from copy import deepcopy

W = {}


def bind(g):
    W.update(g)


def _read_sexpr(f):
    """read one balanced s-expression (or a bare word such as sat/unsat) from z3's stdout"""
    buf, depth, started = [], 0, False
    while True:
        line = f.readline()
        if not line:
            return "".join(buf)
        buf.append(line)
        for ch in line:
            if ch == "(":
                depth += 1
                started = True
            elif ch == ")":
                depth -= 1
        if not started and line.strip():
            return "".join(buf)
        if started and depth <= 0:
            return "".join(buf)


def _proj_soft(s):
    f = s.formula
    name = getattr(f, "connector_name", None)

    def theta_of(x):
        if isinstance(x, int):
            return x
        m = re.fullmatch(r"theta_(\d+)", str(x))
        return int(m.group(1)) if m else None

    def pos_of(x):
        m = re.fullmatch(r"t_(\d+)", str(x))
        return int(m.group(1)) if m else None
    try:
        if name == "distinct":
            a, b = f.arguments
            return {"neg": True, "j": pos_of(a), "thetas": [theta_of(b)], "w": int(s.weight)}
        if name == "=":
            a, b = f.arguments
            return {"neg": False, "j": pos_of(a), "thetas": [theta_of(b)], "w": int(s.weight)}
        if name == "or":
            js = {pos_of(x.arguments[0]) for x in f.arguments}
            return {"neg": False, "j": js.pop() if len(js) == 1 else None, "thetas": [theta_of(x.arguments[1]) for x in f.arguments],
                    "w": int(s.weight)}
    except Exception:
        pass
    return {"neg": False, "j": None, "thetas": [], "w": int(s.weight), "raw": str(f)[:200]}


def cmd_smt_enum(cmd):
    import pathlib
    from smt_encoding.block_optimizer import BlockOptimizer
    from smt_encoding.solver.solver import OptimizeOutcome
    paths, params = W["paths"], W["params"]
    pathlib.Path(paths.smt_encoding_path).mkdir(parents=True, exist_ok=True)
    sfs = deepcopy(cmd["sfs"])
    maxm = int(cmd.get("max", 200))
    tout = int(cmd.get("tout", 2))
    out = {"name": cmd.get("name", "b")}
    t0 = time.time()
    try:
        opt = BlockOptimizer(out["name"], sfs, params, tout)
        solver, enc = opt._solver, opt._full_encoding
        solver._hard = list(solver._hard)
        solver._soft = list(solver._soft)
        lines = list(solver.to_smt2())
    except BaseException as e:
        out["stage"], out["exc"] = "encode", W["exc_info"](e)
        return out
    text = "\n".join(lines)
    bounds = enc._bounds
    first, last = bounds.first_position_sequence, bounds.last_position_sequence
    theta = {int(k): v.id for k, v in enc.theta_to_instr.items()}
    uf = params.encode_terms == "uninterpreted_uf"
    out.update({"smt2": text if cmd.get("want_text", True) else "", "theta": {str(k): v for k, v in theta.items()},
                "first": first, "last": last, "b0": enc.b0, "bs": enc.bs, "softs": [_proj_soft(s) for s in solver._soft],
                "nhard": len(solver._hard)})
    id2theta = {v: k for k, v in theta.items()}
    # 1. the problem exactly as the tool would run it
    try:
        with open(solver._file_path, "w") as f:
            f.write(text + "\n")
        p = subprocess.run(["/usr/bin/z3", "-smt2", solver._file_path], stdout=subprocess.PIPE, stderr=subprocess.STDOUT,
                           timeout=tout * 3 + 20, text=True)
        solver._model = p.stdout
        oc = solver.optimization_outcome()
        out["outcome"] = oc.name
        out["solver_errors"] = [l for l in p.stdout.splitlines() if l.startswith("(error") and "model is not available" not in l
                                # "canceled" is the solver's own time limit firing in the middle of a command, not a rejection of the text
                                and "canceled" not in l][:5]
        if oc in (OptimizeOutcome.optimal, OptimizeOutcome.non_optimal):
            out["opt_ids"] = opt._rebuild_block_from_solver()
    except subprocess.TimeoutExpired:
        out["outcome"] = "timeout"
    except BaseException as e:
        out["stage"], out["exc"] = "solve", W["exc_info"](e)
    # 2. all models of the hard constraints, projected on t_j
    hard_lines = [l for l in lines if not l.startswith("(assert-soft") and not l.startswith("(check-sat")
                  and not l.startswith("(get-") and not l.startswith("(minimize")]
    models, complete = [], False
    try:
        z = subprocess.Popen(["/usr/bin/z3", "-in", "-smt2"], stdin=subprocess.PIPE, stdout=subprocess.PIPE,
                             stderr=subprocess.STDOUT, text=True)
        z.stdin.write("\n".join(hard_lines) + "\n")
        deadline = time.time() + float(cmd.get("budget", 25))
        while len(models) < maxm and time.time() < deadline:
            z.stdin.write("(check-sat)\n")
            z.stdin.flush()
            ans = _read_sexpr(z.stdout).strip()
            if ans == "unsat":
                complete = True
                break
            if ans != "sat":
                out["enum_stop"] = ans[:200]
                break
            z.stdin.write("(get-model)\n")
            z.stdin.flush()
            solver._model = _read_sexpr(z.stdout)
            ids = opt._rebuild_block_from_solver()
            # a basic PUSH carries its constant in a_j
            shown = []
            for j, i in zip(range(first, last + 1), ids):
                if i == "PUSH":
                    try:
                        shown.append(["PUSH", int(solver.get_value("a_%d" % j))])
                    except Exception:
                        shown.append("PUSH")
                else:
                    shown.append(i)
            models.append(shown)
            conj = []
            for j, i in zip(range(first, last + 1), ids):
                th = id2theta[i]
                conj.append("(= t_%d %s)" % (j, ("theta_%d" % th) if uf else str(th)))
            z.stdin.write("(assert (not (and %s)))\n" % " ".join(conj) if len(conj) > 1 else "(assert (not %s))\n" % conj[0])
        try:
            z.stdin.write("(exit)\n")
            z.stdin.flush()
        except Exception:
            pass
        z.kill()
    except BaseException as e:
        out["stage"], out["exc"] = "enumerate", W["exc_info"](e)
    out["models"], out["complete"] = models, complete
    out["t"] = round(time.time() - t0, 2)
    return out


def cmd_sfs_smt(cmd):
    """front-end (with this worker's options, which also shape the specification: -push-basic, -pop-uninterpreted)
    followed by smt_enum on every sub-block specification whose length bound is at most cmd['maxb0']"""
    gasol_asm, params = W["gasol_asm"], W["params"]
    out = []
    for blk in W["blocks_from"](cmd):
        r = {"plain": blk.to_plain(), "subs": []}
        try:
            if blk.instructions_to_optimize_plain() == []:
                out.append(r)
                continue
            d, sublist = gasol_asm.compute_original_sfs_with_simplifications(blk, params)
        except BaseException as e:
            r["stage"], r["exc"] = "sfs", W["exc_info"](e)
            out.append(r)
            continue
        for name, sfs in d["syrup_contract"].items():
            rec = {"name": name, "sfs": deepcopy(sfs)}
            if sfs["init_progr_len"] <= int(cmd.get("maxb0", 6)) and sfs["init_progr_len"] >= 1:
                c2 = dict(cmd)
                c2.update({"sfs": sfs, "name": name})
                rec["smt"] = cmd_smt_enum(c2)
            r["subs"].append(rec)
        out.append(r)
    return {"blocks": out}


COMMANDS = {"smt_enum": cmd_smt_enum, "sfs_smt": cmd_sfs_smt}
