"""Lexer of the independent SMT-LIB reader of C18.  It only splits the text into tokens; the term
structure, the operators and the sorts are read by spec/SExpr.tla.  Nothing of /repo is imported.

tokens(text) -> {"s": [...], "i": [...]}: s[j] is "(", ")", "#" for a numeral (value in i[j]) or the
symbol itself; i[j] = 0 for everything but numerals.  A numeral is 0 or a non-empty digit string that
does not start with 0 (SMT-LIB 2.6, section 3.1); a sign is not part of a numeral, so "-1" stays a symbol."""
import re

NUMERAL = re.compile(r"0|[1-9][0-9]*")
INT32 = 1 << 31


def tokens(text):
    s, i = [], []
    for w in text.replace("(", " ( ").replace(")", " ) ").split():
        if NUMERAL.fullmatch(w) and int(w) < INT32:
            s.append("#"); i.append(int(w))
        elif w == "#":
            s.append("<hash>"); i.append(0)
        else:
            s.append(w); i.append(0)
    return {"s": s, "i": i}
