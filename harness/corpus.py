"""Corpora: real blocks from the repository's shipped examples (R) and the hand-written
regression list (H).  Only input preparation happens here."""
import glob
import json
import os
import random

import common

END = {"JUMP", "JUMPI", "STOP", "RETURN", "REVERT", "INVALID"}


def example_files(repo=None):
    return sorted(glob.glob(os.path.join(repo or common.REPO, "examples", "jsons-solc", "*.json_solc")))


def code_sections(asm):
    """yield (path, item list) for the init code and every nested data code of one contract's asm"""
    yield ".code", asm[".code"]
    for k, v in asm.get(".data", {}).items():
        if isinstance(v, dict) and ".code" in v:
            for p, items in code_sections(v):
                yield ".data/%s/%s" % (k, p), items


def split_blocks(items):
    """cut an item list into basic blocks the way solc assembly is structured: a tag starts a block,
    a jump/terminal ends one"""
    out, cur = [], []
    for it in items:
        if it["name"] == "tag" and cur:
            out.append(cur); cur = []
        cur.append(it)
        if it["name"] in END:
            out.append(cur); cur = []
    if cur:
        out.append(cur)
    return out


def sig(block):
    return tuple((it["name"], str(it.get("value", ""))) for it in block)


def real_blocks(files=None, limit_files=None, dedupe=True, min_opt=2):
    """distinct real blocks with at least min_opt optimizable instructions"""
    if common.replay_file():
        return []
    files = files or example_files()
    if limit_files:
        files = files[:limit_files]
    seen, out = set(), []
    for f in files:
        with open(f) as fh:
            d = json.load(fh)
        for cname, c in d["contracts"].items():
            asm = c.get("asm") if c else None
            if not asm:
                continue
            for path, items in code_sections(asm):
                for b in split_blocks(items):
                    nopt = sum(1 for it in b if it["name"] not in END and it["name"] not in ("tag", "JUMPDEST"))
                    if nopt < min_opt:
                        continue
                    s = sig(b)
                    if dedupe and s in seen:
                        continue
                    seen.add(s)
                    out.append({"items": b, "src": os.path.basename(f)[:12] + ":" + cname.split(":")[-1] + ":" + path})
    return out


def sample(items, n, seed):
    items = list(items)
    if n is None or len(items) <= n:
        return items
    rnd = random.Random(seed)
    idx = sorted(rnd.sample(range(len(items)), n))
    return [items[i] for i in idx]


def hand_blocks():
    if common.replay_file():
        return common.replay_blocks()
    p = os.path.join(common.VERIF, "corpus", "hand_blocks.txt")
    out = []
    with open(p) as f:
        for line in f:
            line = line.split("#")[0].strip()
            if line:
                out.append(line)
    return out
