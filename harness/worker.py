"""Worker process: runs the REAL gasol-optimizer code from the repository given on the command
line, one option set per process (as one run of the tool), and answers JSON commands on stdin
with JSON lines on a private descriptor.  It only projects implementation objects to typed JSON;
it decides nothing.

usage: worker.py <repo> <json list of gasol command line options> <scratch dir>
"""
import hashlib
import json
import os
import resource
import sys
import time
import traceback

proto = os.fdopen(os.dup(1), "w")
_null = os.open(os.devnull, os.O_WRONLY)
os.dup2(_null, 1)
if os.environ.get("VERIF_DEBUG") != "1":
    os.dup2(_null, 2)
import warnings
warnings.simplefilter("ignore")

repo, optargv, scratch = sys.argv[1], json.loads(sys.argv[2]), sys.argv[3]
os.makedirs(scratch, exist_ok=True)
os.chdir(scratch)
sys.path.insert(0, repo)
sys.path.append(os.path.dirname(os.path.abspath(__file__)))
sys.setrecursionlimit(10000)

from argparse import ArgumentParser
from copy import deepcopy

import gasol_asm
import global_params.constants as constants
import global_params.paths as paths
from global_params.options import OptimizationParams
from sfs_generator import parser_asm
from sfs_generator.asm_block import AsmBlock
from sfs_generator.asm_bytecode import AsmBytecode
import smt_encoding.solver.z3_executable as _zx
_zx.z3_exec = "/usr/bin/z3"          # stand-in solver, same mechanism as C06 prescribes


def make_params(argv, input_name="verif_input.txt"):
    ap = ArgumentParser()
    gasol_asm.options_gasol(ap)
    a = ap.parse_args([input_name] + list(argv))
    p = OptimizationParams()
    p.parse_args(a)
    return p


params = make_params(optargv)
# the prelude of execute_gasol
gasol_asm.init()
if params.split_storage:
    constants.append_store_instructions_to_split()
constants._set_push0(params.push0)
gasol_asm.modify_file_names(params)

# --------------------------------------------------------------------------------------------
# projection


def word_bytes(n):
    out = []
    while n:
        out.append(n & 255)
        n >>= 8
    return out


PSEUDO = {"PUSH [tag]": "PUSHTAG", "PUSH #[$]": "PUSHSUBSIZE", "PUSH [$]": "PUSHSUB", "PUSH data": "PUSHDATA",
          "PUSHLIB": "PUSHLIB", "PUSHDEPLOYADDRESS": "PUSHDEPLOYADDRESS", "PUSHSIZE": "PUSHSIZE",
          "PUSHIMMUTABLE": "PUSHIMMUTABLE"}


def canon_operand(kind, v):
    """operands of pseudo-pushes are compared by the numeric value the front-end gives them:
    tags are kept as decimal strings, every other operand is read as hexadecimal"""
    if v is None:
        return ""
    if isinstance(v, int):
        return str(v)
    try:
        return str(int(str(v), 10 if kind == "PUSH [tag]" else 16))
    except ValueError:
        return str(v)


def derived_word(kind, operand, nbytes=32):
    h = hashlib.sha256(("%s|%s" % (kind, canon_operand(kind, operand))).encode()).digest()
    return list(h[:nbytes])


def proj_instr(bc):
    """AsmBytecode -> {op, k, w, name, value}: op/k/w is what the TLA+ EVM executes, name/value the raw item."""
    d = bc.disasm
    raw_val = None if bc.value is None else str(bc.value)
    out = {"op": d, "k": 0, "w": [], "name": d, "value": raw_val if raw_val is not None else ""}
    if d == "PUSH":
        try:
            out["w"] = word_bytes(int(str(bc.value), 16))
        except Exception:
            out["op"] = "BADPUSH"
        # with PUSH0 in the instruction set the item PUSH "0" IS the opcode PUSH0 (the tool's documented spelling:
        # sfs_generator.asm_bytecode.is_push0 / parser_asm.build_asm_bytecode)
        if constants.push0_enabled and str(bc.value) == "0":
            out["op"] = "PUSH0"
    elif d == "PUSH0":
        out["op"] = "PUSH0"
    elif d in PSEUDO:
        out["op"] = PSEUDO[d]
        out["w"] = derived_word(d, bc.value, 20 if d in ("PUSHLIB", "PUSHDEPLOYADDRESS") else 32)
    elif d == "ASSIGNIMMUTABLE":
        out["w"] = derived_word(d, bc.value, 32)
    elif d.startswith("DUP") and d[3:].isdigit():
        out["op"], out["k"] = "DUP", int(d[3:])
    elif d.startswith("SWAP") and d[4:].isdigit():
        out["op"], out["k"] = "SWAP", int(d[4:])
    return out


def proj_block(block):
    return [proj_instr(bc) for bc in block.instructions]


def item_json(bc):
    return bc.to_json()


def blocks_from(cmd):
    if "items" in cmd:
        return parser_asm.build_blocks_from_asm_representation(cmd.get("cname", "c"), cmd.get("prefix", "c"),
                                                                cmd["items"], cmd.get("init", False))
    return parser_asm.parse_blocks_from_plain_instructions(cmd["text"], cmd.get("cname", ""), cmd.get("prefix", ""))


def exc_info(e):
    return {"type": type(e).__name__, "msg": str(e)[:300], "tb": traceback.format_exc()[-1500:]}


# --------------------------------------------------------------------------------------------
# commands


def cmd_opt(cmd):
    """optimize + compare + keep-or-revert for every block of the input, exactly as optimize_asm_contract does"""
    blocks = blocks_from(cmd)
    out = []
    for blk in blocks:
        r = {"name": blk.block_name, "orig": proj_block(blk), "plain": blk.to_plain()}
        decisions = []
        real_decide = gasol_asm.block_has_been_optimized

        def spy(original_block, optimized_block, criteria, _real=real_decide):
            res = _real(original_block, optimized_block, criteria)
            decisions.append({"sub": original_block.block_name, "orig": proj_block(original_block),
                              "cand": proj_block(optimized_block), "accepted": bool(res)})
            return res
        gasol_asm.block_has_been_optimized = spy
        t0 = time.time()
        try:
            new_block, log, stats = gasol_asm.optimize_asm_block_asm_format(blk, params)
            r["raw"] = proj_block(new_block)
            r["log"] = log
            r["stats"] = [{k: (v if isinstance(v, (int, float, str, bool)) or v is None else str(v)) for k, v in s.items()}
                          for s in stats]
        except BaseException as e:
            r["stage"], r["exc"] = "optimize", exc_info(e)
            out.append(r)
            continue
        finally:
            gasol_asm.block_has_been_optimized = real_decide
        r["decisions"] = decisions
        try:
            # the comparison as optimize_asm_contract performs it (guarded where the tree provides the guarded form)
            cmpf = getattr(gasol_asm, "safe_compare_asm_block_asm_format", gasol_asm.compare_asm_block_asm_format)
            eq, reason = cmpf(blk, new_block, params)
            r["eq"], r["reason"] = bool(eq), str(reason)
        except BaseException as e:
            r["stage"], r["exc"] = "compare", exc_info(e)
            out.append(r)
            continue
        emitted = new_block if eq else blk
        r["opt"] = proj_block(emitted)
        r["opt_items"] = [item_json(b) for b in emitted.instructions]
        r["costs"] = {"gas": [blk.gas_spent, emitted.gas_spent], "size": [blk.bytes_required, emitted.bytes_required],
                      "length": [blk.length, emitted.length]}
        r["t"] = round(time.time() - t0, 4)
        out.append(r)
    return {"blocks": out}


def cmd_sfs(cmd):
    """front-end only: the specification of every sub-block and the reported sub-block list"""
    blocks = blocks_from(cmd)
    out = []
    for blk in blocks:
        r = {"name": blk.block_name, "orig": proj_block(blk), "plain": blk.to_plain(), "input": blk.source_stack}
        try:
            if blk.instructions_to_optimize_plain() == []:
                r["sfs"], r["subs"] = {}, []
            else:
                d, subs = gasol_asm.compute_original_sfs_with_simplifications(blk, params)
                r["sfs"], r["subs"] = deepcopy(d["syrup_contract"]), subs
        except BaseException as e:
            r["stage"], r["exc"] = "sfs", exc_info(e)
        out.append(r)
    return {"blocks": out}


def cmd_greedy(cmd):
    from greedy.block_generation import greedy_from_json
    sfs = deepcopy(cmd["sfs"])
    try:
        _json, _enc, res, resids, error = greedy_from_json(sfs)
        return {"ids": list(resids) if resids is not None else None, "error": int(error)}
    except BaseException as e:
        return {"exc": exc_info(e)}


def cmd_compare(cmd):
    a = blocks_from({"text": cmd["a"]} if "a" in cmd else {"items": cmd["a_items"]})[0]
    b = blocks_from({"text": cmd["b"]} if "b" in cmd else {"items": cmd["b_items"]})[0]
    r = {"a": proj_block(a), "b": proj_block(b)}
    try:
        eq, reason = gasol_asm.compare_asm_block_asm_format(a, b, params)
        r["eq"], r["reason"] = bool(eq), str(reason)
    except BaseException as e:
        r["exc"] = exc_info(e)
    return r


def cmd_ping(cmd):
    return {"pong": True, "gasol_path": paths.gasol_path, "pid": os.getpid()}


COMMANDS = {"opt": cmd_opt, "sfs": cmd_sfs, "greedy": cmd_greedy, "compare": cmd_compare, "ping": cmd_ping}

# extra command sets (kept in separate files so that each property's driver stays readable)
import glob as _glob
for _f in sorted(_glob.glob(os.path.join(os.path.dirname(os.path.abspath(__file__)), "worker_*.py"))):
    _mod = __import__(os.path.basename(_f)[:-3])
    COMMANDS.update(_mod.COMMANDS)
    if hasattr(_mod, "bind"):
        _mod.bind(globals())


def main():
    for line in sys.stdin:
        line = line.strip()
        if not line:
            continue
        cmd = json.loads(line)
        if cmd.get("cmd") == "quit":
            break
        t0 = time.time()
        try:
            res = COMMANDS[cmd["cmd"]](cmd)
        except BaseException as e:
            res = {"worker_exc": exc_info(e)}
        res["id"] = cmd.get("id")
        res["wall"] = round(time.time() - t0, 4)
        res["maxrss_kb"] = resource.getrusage(resource.RUSAGE_SELF).ru_maxrss
        proto.write(json.dumps(res) + "\n")
        proto.flush()
    import shutil
    shutil.rmtree(paths.gasol_path, ignore_errors=True)


if __name__ == "__main__":
    main()
