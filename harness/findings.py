"""Known findings: committed list of genuine defects that are recorded rather than repaired.
A violating case is matched through a property-specific key (see each property's driver);
anything not listed is a new violation."""
import json
import os

import common


def settle(prop, viol, describe, keyf=None):
    """viol: list of (case, classification).  Returns dict with known_hit, known_lines, new (list of replay paths)."""
    known = [f for f in common.load_known().get("findings", []) if f.get("property") == prop]
    hit, lines, new = {}, [], []
    for c, cl in viol:
        d = describe(c)
        k = keyf(c) if keyf else d.get("key", d.get("orig"))
        match = None
        for f in known:
            if f.get("key") == k:
                match = f
                break
        if match is not None:
            hit.setdefault(match["key"], [0, match])[0] += 1
        else:
            p = common.save_replay(prop, common.stable_hash(d), {"property": prop, "case": d, "verdict": list(cl), "key": k})
            new.append(p)
    for k, (n, f) in hit.items():
        lines.append("KNOWN-FINDING: property=%s %s [%d case(s) this run]" % (prop, f.get("what", k), n))
    return {"known_hit": sum(n for n, _ in hit.values()), "known_lines": lines, "new": new}
