"""Known findings: committed list (/verif/known_findings.json, never written at run time) of genuine
defects that are recorded rather than repaired.  A violating case is matched through keys that name the
root cause (the failing input class or the call site, computed by the classifiers below from the case
itself); a case none of whose keys is listed is a new violation."""
import json
import os
import re

import common
import gen


def settle(prop, viol, describe, keysf=None):
    """viol: list of (case, classification).  keysf(case) -> list of candidate keys (default: describe(case)["key"]).
    Returns dict with known_hit, known_lines, new (list of replay paths)."""
    known = {f["key"]: f for f in common.load_known().get("findings", []) if f.get("property") == prop}
    hit, lines, new = {}, [], []
    for c, cl in viol:
        d = describe(c)
        keys = keysf(c) if keysf else [d.get("key", d.get("orig"))]
        match = next((k for k in keys if k in known), None)
        if match is not None:
            hit[match] = hit.get(match, 0) + 1
        else:
            p = common.save_replay(prop, common.stable_hash(d), {"property": prop, "case": d, "verdict": list(cl), "keys": keys})
            new.append(p)
    for k, n in hit.items():
        lines.append("KNOWN-FINDING: property=%s %s [key %s; %d case(s) this run]" % (prop, known[k].get("what", k), k, n))
    return {"known_hit": sum(hit.values()), "known_lines": lines, "new": new, "known_keys": dict(hit)}


# --------------------------------------------------------------------------------------------
# classifiers (they only name the input class of an already established violation)

def const_accesses(tokens):
    """memory accesses with constant byte ranges in a straight-line instruction list, found by a tiny
    constant propagation over PUSH/DUP/SWAP/POP/ADD: list of (kind, start, width)"""
    st, acc = [], []

    def pop():
        return st.pop() if st else None
    for t in tokens:
        w = t.split()
        op = w[0]
        if op == "PUSH" and len(w) == 2:
            try:
                st.append(int(w[1], 16))
            except ValueError:
                st.append(None)
        elif op == "PUSH0":
            st.append(0)
        elif op.startswith("PUSH"):
            st.append(None)
        elif op.startswith("DUP") and op[3:].isdigit():
            k = int(op[3:])
            while len(st) < k:
                st.insert(0, None)
            st.append(st[-k])
        elif op.startswith("SWAP") and op[4:].isdigit():
            k = int(op[4:])
            while len(st) < k + 1:
                st.insert(0, None)
            st[-1], st[-1 - k] = st[-1 - k], st[-1]
        elif op == "POP":
            pop()
        elif op == "ADD":
            a, b = pop(), pop()
            st.append((a + b) % 2 ** 256 if a is not None and b is not None else None)
        elif op in ("MLOAD",):
            a = pop()
            if a is not None:
                acc.append(("MLOAD", a, 32))
            st.append(None)
        elif op in ("MSTORE", "MSTORE8"):
            a = pop(); pop()
            if a is not None:
                acc.append((op, a, 32 if op == "MSTORE" else 1))
        elif op in ("KECCAK256", "SHA3"):
            a, ln = pop(), pop()
            if a is not None and ln is not None and ln > 0:
                acc.append(("KECCAK256", a, ln))
            st.append(None)
        else:
            try:
                p, q = gen.arity(t)
            except Exception:
                p, q = 0, 0
            for _ in range(p):
                pop()
            for _ in range(q):
                st.append(None)
    return acc


def misaligned_overlap(plain, min_accesses=4):
    """does the block contain at least min_accesses constant-range memory accesses, two of which overlap without
    coinciding and are not word-aligned with each other (offsets differing by a non-multiple of 32, or a byte store
    inside a word)?  The unchanged tree handles every combination of up to three such accesses of the generator
    vocabularies correctly (enumerated exhaustively), so the known finding only covers longer combinations."""
    acc = const_accesses(gen.tokens(plain))
    if len(acc) < min_accesses:
        return False
    for i in range(len(acc)):
        for j in range(i + 1, len(acc)):
            (k1, a, w), (k2, b, v) = acc[i], acc[j]
            if k1 == "MLOAD" and k2 == "MLOAD":
                continue
            if a < b + v and b < a + w and (a, w) != (b, v) and ((a - b) % 32 != 0 or w == 1 or v == 1):
                return True
    return False


def rule_kinds(rules):
    """normalized names of the rules recorded in a specification"""
    out = []
    for r in rules or []:
        r = str(r)
        if r.startswith("(("):
            k = "LOAD-FORWARD"
        elif r.startswith("EVAL"):
            k = "EVAL"
        else:
            k = re.sub(r"[0-9]+", "N", r)[:40]
        if k not in out:
            out.append(k)
    return out


def stack_peak(tokens, h0):
    """highest stack height while running the instruction list from height h0 (a deeper start is assumed when an
    instruction needs more than is there)"""
    import gen
    h = peak = h0
    for t in tokens:
        p, q = gen.arity(t)
        if p > h:
            peak += p - h
            h = p
        h += q - p
        peak = max(peak, h)
    return peak


def bounds_stack_classes(raw):
    """class keys for a specification whose published stack bound is unusable (C16): the original sub-block itself
    rises above max_sk_sz, or two loads of the block were unified into one instruction (its value then has to be
    duplicated, which the bound taken from the original block does not allow for)"""
    import gen
    toks = gen.tokens(raw.get("original_instrs", ""))
    out = []
    try:
        # a bound that does not even admit the initial stack is not one of the recorded ways the estimate falls short (no
        # specification of the unchanged tree has one; seed C16-stack-bound-after-prune produces them): always reported
        if int(raw.get("max_sk_sz", 0)) < len(raw.get("src_ws", [])):
            return out
    except Exception:
        pass
    has_store = any(t.split()[0] in ("MSTORE", "MSTORE8", "SSTORE") for t in toks)
    try:
        # only for blocks without stores and without rules: the stack need of store operands is estimated by a separate
        # part of compute_vars, and a wrong estimate there must stay reportable
        if not has_store and not raw.get("rules") and stack_peak(toks, len(raw.get("src_ws", []))) > int(raw.get("max_sk_sz", 0)):
            out.append("bounds|max_sk_sz below the peak of the original sub-block")
    except Exception:
        pass
    nload_block = sum(1 for t in toks if t.split()[0] in ("MLOAD", "SLOAD"))
    nload_sfs = sum(1 for u in raw.get("user_instrs", []) if u.get("disasm") in ("MLOAD", "SLOAD"))
    if nload_sfs < nload_block and not raw.get("rules"):
        out.append("bounds|max_sk_sz after two loads were unified")
    return out


def sym_accesses(tokens):
    """memory / storage accesses of a straight-line instruction list with their operand terms (terms as text: initial stack
    elements s0, s1, .., constants by value, everything else named by operator and operand terms): [(op, [terms])]"""
    st, acc, nin = [], [], [0]

    def pop():
        if st:
            return st.pop()
        nin[0] += 1
        return "s%d" % (nin[0] - 1)
    for t in tokens:
        w = t.split()
        op = w[0]
        if op == "PUSH0":
            st.append("#0")
        elif op == "PUSH" and len(w) == 2:
            st.append("#" + (w[1].lower().lstrip("0") or "0"))
        elif op.startswith("PUSH"):
            st.append(t)
        elif op.startswith("DUP") and op[3:].isdigit():
            k = int(op[3:])
            while len(st) < k:
                st.insert(0, "s%d" % nin[0]); nin[0] += 1
            st.append(st[-k])
        elif op.startswith("SWAP") and op[4:].isdigit():
            k = int(op[4:])
            while len(st) < k + 1:
                st.insert(0, "s%d" % nin[0]); nin[0] += 1
            st[-1], st[-1 - k] = st[-1 - k], st[-1]
        else:
            try:
                p, q = gen.arity(t)
            except Exception:
                p, q = 0, 0
            args = [pop() for _ in range(p)]
            if op in ("MLOAD", "SLOAD", "KECCAK256", "SHA3", "MSTORE", "MSTORE8", "SSTORE"):
                acc.append((op, args))
            for _ in range(q):
                st.append("%s(%s)#%d" % (op, ",".join(args), len(acc)) if op in ("MLOAD", "SLOAD", "KECCAK256", "SHA3") else "%s(%s)" % (op, ",".join(args)))
    return acc


def repeated_load_across_store(plain):
    """does the block read one address term twice (same load instruction, same operand terms) with a store of the same domain in
    between?  The front-end then keeps two load instructions that are textually identical, and the checker matches instructions of
    the two specifications by their text."""
    acc = sym_accesses(gen.tokens(plain))
    dom = lambda op: "sto" if op in ("SLOAD", "SSTORE") else "mem"
    for i in range(len(acc)):
        if acc[i][0] not in ("MLOAD", "SLOAD", "KECCAK256", "SHA3"):
            continue
        for j in range(i + 1, len(acc)):
            if acc[j][0] == acc[i][0] and acc[j][1] == acc[i][1]:
                if any(acc[k][0] in ("MSTORE", "MSTORE8", "SSTORE") and dom(acc[k][0]) == dom(acc[i][0]) for k in range(i + 1, j)):
                    return True
    return False
