"""Pool of killable worker processes running the real code (see worker.py)."""
import glob
import json
import os
import queue
import resource
import select
import shutil
import signal
import subprocess
import threading
import time

from common import REPO, VENV_PY, VERIF, workdir, NCPU

WORKER = os.path.join(os.path.dirname(os.path.abspath(__file__)), "worker.py")
MEM_LIMIT = 4 * 1024 ** 3


def _limits():
    os.setsid()
    resource.setrlimit(resource.RLIMIT_AS, (MEM_LIMIT, MEM_LIMIT))


class Worker:
    """One process = one run of the tool with one option set."""
    _n = 0
    _lock = threading.Lock()

    def __init__(self, optargv, repo=None, env=None):
        self.optargv = list(optargv)
        self.repo = repo or REPO
        self.env = env or {}
        self.p = None
        self.gasol_path = None
        self.kills = 0

    def start(self):
        with Worker._lock:
            Worker._n += 1
            n = Worker._n
        scratch = os.path.join(workdir(), "w%d" % n)
        e = dict(os.environ)
        e["PYTHONHASHSEED"] = e.get("PYTHONHASHSEED", "0")
        e.update(self.env)
        self.p = subprocess.Popen([VENV_PY, WORKER, self.repo, json.dumps(self.optargv), scratch],
                                  stdin=subprocess.PIPE, stdout=subprocess.PIPE, preexec_fn=_limits, env=e)
        r = self._call({"cmd": "ping"}, 120)
        if r is None or not r.get("pong"):
            raise RuntimeError("worker failed to start: %r" % (self.optargv,))
        self.gasol_path = r.get("gasol_path")

    def _call(self, cmd, timeout):
        try:
            self.p.stdin.write((json.dumps(cmd) + "\n").encode())
            self.p.stdin.flush()
        except (BrokenPipeError, OSError):
            return None
        deadline = time.time() + timeout
        buf = b""
        fd = self.p.stdout.fileno()
        while True:
            left = deadline - time.time()
            if left <= 0:
                return None
            rd, _, _ = select.select([fd], [], [], min(left, 1.0))
            if rd:
                chunk = os.read(fd, 1 << 20)
                if not chunk:
                    return None
                buf += chunk
                if buf.endswith(b"\n"):
                    return json.loads(buf.decode())
            elif self.p.poll() is not None:
                return None

    def kill(self):
        if self.p is not None:
            try:
                os.killpg(self.p.pid, signal.SIGKILL)
            except OSError:
                pass
            try:
                self.p.wait(timeout=10)
            except Exception:
                pass
            for s in (self.p.stdin, self.p.stdout):
                try:
                    s.close()
                except Exception:
                    pass
            self.p = None
        if self.gasol_path and self.gasol_path.startswith("/tmp/gasol_"):
            shutil.rmtree(self.gasol_path, ignore_errors=True)

    def call(self, cmd, timeout=30):
        """Returns the worker's answer, or {"killed": True, ...} when the budget was exceeded or the
        process died (an observation, not a machinery failure)."""
        if self.p is None:
            self.start()
        t0 = time.time()
        r = self._call(cmd, timeout)
        if r is None:
            rc = self.p.poll() if self.p else None
            self.kill()
            self.kills += 1
            return {"killed": True, "id": cmd.get("id"), "wall": round(time.time() - t0, 2),
                    "why": "timeout" if rc is None else "died rc=%s" % rc}
        return r

    def close(self):
        if self.p is not None:
            try:
                self.p.stdin.write(b'{"cmd":"quit"}\n')
                self.p.stdin.flush()
                self.p.wait(timeout=10)
            except Exception:
                pass
            self.kill()


def run_commands(optargv, cmds, nworkers=4, timeout=30, repo=None, env=None):
    """Run cmds (dicts; an 'id' is added) on nworkers processes with the same option set.
    Results come back in command order."""
    cmds = list(cmds)
    for i, c in enumerate(cmds):
        c.setdefault("id", i)
    results = [None] * len(cmds)
    q = queue.Queue()
    for i in range(len(cmds)):
        q.put(i)
    nworkers = max(1, min(nworkers, len(cmds)))

    def loop():
        w = Worker(optargv, repo, env)
        try:
            while True:
                try:
                    i = q.get_nowait()
                except queue.Empty:
                    return
                results[i] = w.call(cmds[i], timeout)
        finally:
            w.close()

    ts = [threading.Thread(target=loop) for _ in range(nworkers)]
    for t in ts:
        t.start()
    for t in ts:
        t.join()
    return results


def run_matrix(jobs, total_workers=None, timeout=30, repo=None):
    """jobs: list of (optargv, cmds).  Distributes NCPU workers over the option sets proportionally."""
    total_workers = total_workers or NCPU
    tot = sum(len(c) for _, c in jobs) or 1
    out = [None] * len(jobs)

    def one(j):
        optargv, cmds = jobs[j]
        n = max(1, round(total_workers * len(cmds) / tot))
        out[j] = run_commands(optargv, cmds, n, timeout, repo)

    ts = [threading.Thread(target=one, args=(j,)) for j in range(len(jobs))]
    for t in ts:
        t.start()
    for t in ts:
        t.join()
    return out
