"""Runs the REAL command line of the tool (`python <repo>/gasol_asm.py <args>`, module run as __main__ with the
repository directory first on sys.path, as the interpreter itself does) and removes the tool's private
/tmp/gasol_<uuid> directory afterwards even when the run ends in an exception (the tool only removes it on
success).  usage: cli_run.py <repo> <gasol arguments...>"""
import runpy
import shutil
import sys

repo = sys.argv[1]
sys.argv = [repo + "/gasol_asm.py"] + sys.argv[2:]
sys.path.insert(0, repo)
try:
    runpy.run_path(sys.argv[0], run_name="__main__")
finally:
    try:
        import global_params.paths as _p
        if _p.gasol_path.startswith("/tmp/gasol_"):
            shutil.rmtree(_p.gasol_path, ignore_errors=True)
    except Exception:
        pass
