"""Hand-built specifications (G): spec/SFSGen.tla enumerates well-formed stack functional specifications that need not come
from any block; this module turns TLC's tuples into the JSON format the back-ends read."""
import os

import common

# name, operands, has a result, kind, commutative, opcode, gas, size, constant (for pushes)
OPS = [
    ("ADD", 2, 1, "pure", True, "01", 3, 1, None),
    ("SUB", 2, 1, "pure", False, "03", 3, 1, None),
    ("LT", 2, 1, "pure", False, "10", 3, 1, None),
    ("ISZERO", 1, 1, "pure", False, "15", 3, 1, None),
    ("PUSH", 0, 1, "push", False, "60", 3, 2, 0x20),
    ("PUSH", 0, 1, "push", False, "60", 3, 2, 1),
    ("MLOAD", 1, 1, "mload", False, "51", 3, 1, None),
    ("MSTORE", 2, 0, "mstore", False, "52", 3, 1, None),
    ("MSTORE8", 2, 0, "mstore", False, "53", 3, 1, None),
    ("SLOAD", 1, 1, "sload", False, "54", 2100, 1, None),
    ("SSTORE", 2, 0, "sstore", False, "55", 5000, 1, None),
    ("KECCAK256", 2, 1, "hash", False, "20", 30, 1, None),
]


def generate(maxsrc, maxins, maxtgt, simulate=None, seed=0, ops=None, timeout=1800, minsrc=0):
    """-> list of (key, sfs json).  simulate = (number of behaviours, depth)"""
    if common.replay_file():
        return []
    ops = ops or list(range(len(OPS)))
    table = [OPS[i] for i in ops]
    gf = os.path.join(common.workdir(), "sfsgen_%s.json" % common.stable_hash([ops, minsrc, maxsrc, maxins, maxtgt, simulate, seed]))
    common.write_json(gf, {"ops": [{"ar": o[1], "out": o[2], "kind": o[3], "comm": o[4]} for o in table],
                           "minsrc": minsrc, "maxsrc": maxsrc, "maxins": maxins, "maxtgt": maxtgt})
    extra = []
    if simulate:
        extra = ["-simulate", "num=%d" % simulate[0], "-depth", str(simulate[1]), "-seed", str(seed + 1)]
    r = common.run_tlc("SFSGen", "SFSGen.cfg", {"GEN": gf}, workers=1, timeout=timeout, heap="4g", extra=extra, tag="sfsgen")
    if not simulate and not r.ok:
        raise common.MachineryError("SFSGen failed: " + r.out[-1500:])
    out, seen = [], set()
    for t in r.tagged("S"):
        key = common.stable_hash(t[1:])
        if key in seen:
            continue
        seen.add(key)
        out.append((key, to_json(table, t[1], t[2], t[3], t[4])))
    return out


def to_json(table, nsrc, ins, tgt, deps):
    var = lambda v: "s(%d)" % (v - 1)
    count, ids, users = {}, [], []
    for k, (o, a) in enumerate(ins):
        name, ar, hasout, kind, comm, opc, gas, size, const = table[o - 1]
        n = count.get(name, 0)
        count[name] = n + 1
        iid = "%s_%d" % (name, n)
        ids.append(iid)
        u = {"id": iid, "opcode": opc, "disasm": name, "inpt_sk": [var(x) for x in a],
             "outpt_sk": [var(nsrc + k + 1)] if hasout else [], "push": kind == "push", "gas": gas,
             "commutative": bool(comm), "storage": kind in ("mstore", "sstore"), "size": size}
        if kind == "push":
            u["value"] = [const]
        if kind == "mstore":
            u["mem_var"] = ["mem%d" % n]
        if kind == "sstore":
            u["sto_var"] = ["sto%d" % n]
        users.append(u)
    memk = {i + 1 for i, (o, a) in enumerate(ins) if table[o - 1][3] in ("mload", "mstore", "hash")}
    md = [[ids[a - 1], ids[b - 1]] for a, b in deps if a in memk]
    sd = [[ids[a - 1], ids[b - 1]] for a, b in deps if a not in memk]
    n = len(ins)
    text = " ".join("%s(%s)" % (u["id"], ",".join(u["inpt_sk"])) for u in users)
    return {"init_progr_len": 3 * n + 2 * nsrc + 2 * len(tgt) + 4, "max_progr_len": 3 * n + 2 * nsrc + 2 * len(tgt) + 4,
            "max_sk_sz": nsrc + n + len(tgt) + 3, "vars": [var(v) for v in range(1, nsrc + n + 1)],
            "src_ws": [var(v) for v in range(1, nsrc + 1)], "tgt_ws": [var(v) for v in tgt], "user_instrs": users,
            "current_cost": sum(u["gas"] for u in users), "storage_dependences": sd, "memory_dependences": md,
            "dependencies": md + sd, "is_revert": False, "rules_applied": False, "rules": [],
            "original_instrs": "", "min_length_instrs": 0, "min_length_bounds": 0, "min_length": 0,
            "_shape": "src=%d  %s  tgt=[%s]  deps=%s" % (nsrc, text, ",".join(var(v) for v in tgt), md + sd)}
