"""Worker command for the external-checker adapter (C05): render a pair of blocks with the real
verification.forves_verification and ask compare_forves with a stand-in checker that accepts everything."""
import os
import stat

W = {}


def bind(g):
    W.update(g)


def cmd_forves(cmd):
    import verification.forves_verification as fv
    paths = W["paths"]
    # stand-in bin/forves-checker in a scratch project path: always answers "true"
    scratch = os.path.join(os.getcwd(), "forves_project")
    os.makedirs(os.path.join(scratch, "bin"), exist_ok=True)
    chk = os.path.join(scratch, "bin", "forves-checker")
    if not os.path.exists(chk):
        with open(chk, "w") as f:
            f.write("#!/bin/sh\necho true\n")
        os.chmod(chk, os.stat(chk).st_mode | stat.S_IEXEC)
    real = paths.project_path
    out = {}
    try:
        paths.project_path = scratch
        try:
            out["rendered"] = fv.forves_format(cmd["a"], cmd["b"])
        except BaseException as e:
            out["render_exc"] = W["exc_info"](e)
        try:
            out["verdict"] = fv.compare_forves(cmd["a"], cmd["b"], cmd.get("criteria", "gas"), True)
        except BaseException as e:
            out["verdict"] = "raised"
            out["exc"] = W["exc_info"](e)
    finally:
        paths.project_path = real
    return out


COMMANDS = {"forves": cmd_forves}
