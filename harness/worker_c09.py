"""Worker commands of properties C09 and C17 (imported by worker.py inside the worker process).

  c09_reparse  {"path": <emitted file>, "outpath": <file>}
               the tool's own parser on an emitted file: parse_asm(path).to_json() is written to outpath
  c17_select   {"path": <solc file>, "contract": <name given to -c>, "outdir": <dir>}
               one whole-document run of optimize_asm_in_asm_format with -c <contract> added to the option
               set of this worker.  Observed by attribute rebinding only: update_gas_count (called once per
               processed block), optimize_asm_contract (which contract the blocks belong to), parse_asm (the
               parsed input object, serialized again AFTER the run).  Writes <outdir>/out.json (the emitted
               file) and <outdir>/after.json; returns the events.
Nothing is judged here."""
import json
import os

W = {}


def bind(g):
    W.update(g)


def _status(e):
    return "raised: %s: %s" % (type(e).__name__, str(e)[:160])


def cmd_c09_reparse(cmd):
    parser_asm = W["parser_asm"]
    res = {"push0": bool(W["constants"].push0_enabled)}
    try:
        out = parser_asm.parse_asm(cmd["path"]).to_json()
        with open(cmd["outpath"], "w") as f:
            json.dump(out, f)
        res["status"] = "ok"
    except BaseException as e:
        res["status"] = _status(e)
        res["tb"] = W["exc_info"](e)["tb"]
    return res


def _items(block):
    return [bc.to_json() for bc in block.instructions]


def cmd_c17_select(cmd):
    gasol_asm = W["gasol_asm"]
    outdir = cmd["outdir"]
    os.makedirs(outdir, exist_ok=True)
    params = W["make_params"](list(W["optargv"]) + ["-c", cmd["contract"]], cmd["path"])
    gasol_asm.modify_file_names(params)
    params.optimized_file = os.path.join(outdir, "out.json")
    params.seqs_file = os.path.join(outdir, "seq.csv")
    params.blocks_file = os.path.join(outdir, "blocks.csv")
    params.log_file = os.path.join(outdir, "run.log")
    events, current, parsed = [], [None], [None]
    real_gas, real_contract, real_parse = gasol_asm.update_gas_count, gasol_asm.optimize_asm_contract, gasol_asm.parse_asm

    def spy_gas(old_block, new_block):
        try:
            changed = _items(old_block) != _items(new_block)
        except BaseException:
            changed = True
        events.append({"contract": str(current[0]), "block": str(old_block.block_name), "changed": bool(changed)})
        return real_gas(old_block, new_block)

    def spy_contract(c, p):
        current[0] = c.contract_name
        try:
            return real_contract(c, p)
        finally:
            current[0] = None

    def spy_parse(path):
        parsed[0] = real_parse(path)
        return parsed[0]

    gasol_asm.update_gas_count, gasol_asm.optimize_asm_contract, gasol_asm.parse_asm = spy_gas, spy_contract, spy_parse
    res = {"push0": bool(W["constants"].push0_enabled)}
    try:
        gasol_asm.init()
        gasol_asm.optimize_asm_in_asm_format(params)
        res["status"] = "ok"
    except BaseException as e:
        res["status"] = _status(e)
        res["tb"] = W["exc_info"](e)["tb"]
    finally:
        gasol_asm.update_gas_count, gasol_asm.optimize_asm_contract, gasol_asm.parse_asm = real_gas, real_contract, real_parse
    res["events"] = events
    res["out"] = params.optimized_file if os.path.exists(params.optimized_file) else None
    res["after"] = None
    if parsed[0] is not None:
        try:
            with open(os.path.join(outdir, "after.json"), "w") as f:
                json.dump(parsed[0].to_json(), f)
            res["after"] = os.path.join(outdir, "after.json")
        except BaseException as e:
            res["after_status"] = _status(e)
    return res


COMMANDS = {"c09_reparse": cmd_c09_reparse, "c17_select": cmd_c17_select}
