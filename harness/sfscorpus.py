"""Runs the real front-end and greedy back-end over the block corpus and returns the distinct
sub-block specifications with what the code produced for them (shared by C04, C16, C06, C07)."""
import sys
import os
sys.path.insert(0, os.path.join(os.path.dirname(os.path.abspath(__file__)), "props"))

import common
import corpus
import gen
import pool
import sfsproj

OPTSETS = [
    ("default", []), ("storage", ["-storage"]), ("partition", ["-partition"]),
    ("norules", ["-no-simplification"]), ("size", ["-size"]), ("size-storage-norules", ["-size", "-storage", "-no-simplification"]),
    ("partition-nopush0", ["-partition", "-push0"]), ("length-storage", ["-length", "-storage"]),
]


def split_subs(sublist):
    """the sub-blocks without their shared split instructions (process_blocks_split, restated)"""
    subs = [list(s) for s in sublist]
    for i in range(len(subs) - 1):
        if subs[i]:
            subs[i].pop()
        if subs[i + 1]:
            subs[i + 1].pop(0)
    return subs


def collect(tier, groups, nsets=None, extra_argv=("-greedy",), cap_rule=500, cap_thorough=3000):
    seed = common.seed()
    sets = OPTSETS[:nsets] if nsets else (OPTSETS[:4] if tier == "quick" else OPTSETS)
    jobs = []
    for i, (name, argv) in enumerate(sets):
        cmds = []
        for g in ("H", "Xrule", "Xvoc", "Xchain", "S", "R"):
            items = groups.get(g, [])
            if tier == "quick" and g in ("Xrule", "Xvoc") and i > 0:
                items = corpus.sample(items, cap_rule, seed + i)
            if tier == "thorough" and g in ("Xchain", "Xvoc") and i > 1:
                items = corpus.sample(items, cap_thorough, seed + i)
            for c in items:
                d = dict(c)
                d["cmd"] = "sfs_greedy"
                cmds.append(d)
        jobs.append((name, list(extra_argv) + argv, cmds))
    results = pool.run_matrix([(argv, cmds) for _, argv, cmds in jobs], timeout=20)
    recs, index = [], {}
    cnt = {"blocks": 0, "specs": 0, "greedy_ok": 0, "greedy_error": 0, "greedy_exc": 0, "killed": 0, "frontend_exc": 0,
           "with_store": 0, "with_deps": 0}
    for (name, argv, cmds), res in zip(jobs, results):
        for cmd, r in zip(cmds, res):
            if r.get("killed"):
                cnt["killed"] += 1
                continue
            for b in r.get("blocks", []):
                cnt["blocks"] += 1
                if "exc" in b:
                    cnt["frontend_exc"] += 1
                    continue
                subs = split_subs(b.get("sublist", []))
                for s in b["subs"]:
                    cnt["specs"] += 1
                    ok = "exc" not in s and s.get("error") == 0 and s.get("ids") is not None
                    if "exc" in s:
                        cnt["greedy_exc"] += 1
                    elif not ok:
                        cnt["greedy_error"] += 1
                    else:
                        cnt["greedy_ok"] += 1
                    ps = sfsproj.proj_sfs(s["sfs"])
                    key = common.stable_hash([ps, s.get("ids"), s["sfs"].get("original_instrs"), s["sfs"].get("min_length")])
                    if key in index:
                        continue
                    index[key] = True
                    if any(i["sto"] for i in ps["ins"]):
                        cnt["with_store"] += 1
                    if ps["deps"]:
                        cnt["with_deps"] += 1
                    try:
                        k = int(s["name"].rsplit("_", 1)[1])
                        subins = subs[k] if k < len(subs) else None
                    except Exception:
                        subins = None
                    recs.append({"sfs": ps, "raw": s["sfs"], "ids": s.get("ids") if ok else None, "opt": name, "argv": argv,
                                 "block": b["plain"][:400], "name": s["name"], "subins": subins})
    return recs, cnt, [n for n, _, _ in jobs]
