"""bin/setup: SANY-parses every module under spec/, runs the 8-bit self-check of the word library
in smoke mode, checks java / z3 / venv presence.  Needs no network and installs nothing."""
import glob
import os
import subprocess
import sys

sys.path.insert(0, os.path.dirname(os.path.abspath(__file__)))
import common


def main():
    bad = 0
    for tool in (["java", "-version"], ["/usr/bin/z3", "--version"], [common.VENV_PY, "--version"]):
        try:
            subprocess.run(tool, stdout=subprocess.DEVNULL, stderr=subprocess.DEVNULL, check=True)
        except Exception as e:
            print("setup: missing tool", tool[0], e)
            bad += 1
    mods = sorted(glob.glob(os.path.join(common.SPEC, "*.tla")))
    import concurrent.futures as cf

    def sany(m):
        p = subprocess.run(["java", "-cp", common.TLA_CP, "tla2sany.SANY", os.path.basename(m)], cwd=common.SPEC,
                           stdout=subprocess.PIPE, stderr=subprocess.STDOUT, text=True)
        return m, p
    with cf.ThreadPoolExecutor(max_workers=8) as ex:
        for m, p in ex.map(sany, mods):
            if p.returncode != 0 or "Fatal errors" in p.stdout or "*** Errors" in p.stdout:
                print("setup: SANY failed on", m)
                print(p.stdout[-2000:])
                bad += 1
    print("setup: parsed %d modules, %d problems" % (len(mods), bad))
    # smoke test of TLC and of the word library (8-bit, reduced operand set; --full: all 65,536 pairs)
    cfg = "WordsCheck1.cfg" if "--full" in sys.argv else "WordsCheck1q.cfg"
    r = common.run_tlc("WordsCheck", cfg, workers=common.NCPU, heap="4g", tag="wc1")
    print("setup: WordsCheck NB=1 (%s):" % cfg, "ok" if r.ok else "FAILED", r.distinct, "states")
    bad += 0 if r.ok else 1
    common.cleanup()
    sys.exit(1 if bad else 0)


if __name__ == "__main__":
    main()
