"""Validation step (V) for instruction-id sequences against spec/SFSTrace.tla."""
import os

import common


def run_traces(cases, jobs=None, timeout=3600, tag="tr"):
    """cases: [{id, sfs, ids, maxlen, maxstack}] in projected form.  Returns ({id: [pos, clause]}, stats)."""
    if not cases:
        return {}, {"states": 0, "transitions": 0, "jvms": 0, "wall": 0.0}
    jobs = jobs or common.NCPU
    shards = common.shard_by_weight(cases, [len(c["ids"]) + 3 for c in cases], min(len(cases), jobs))
    envs = []
    for i, sh in enumerate(shards):
        p = os.path.join(common.workdir(), "%s_cases_%d.json" % (tag, i))
        common.write_json(p, {"cases": sh})
        envs.append({"CASES": p})
    results = common.run_tlc_shards("SFSTrace", "SFSTrace.cfg", envs, timeout=timeout, jobs=jobs, tag=tag)
    verdicts = {}
    stats = {"states": 0, "transitions": 0, "jvms": len(results), "wall": 0.0}
    for r, sh in zip(results, shards):
        if not r.ok:
            raise common.MachineryError("SFSTrace TLC run failed:\n" + r.out[-3000:])
        cons = r.tagged("CONSUMED")
        if not cons or cons[0][1] != len(sh):
            raise common.MachineryError("SFSTrace did not consume every case: %r" % (cons,))
        stats["states"] += r.distinct
        stats["transitions"] += r.generated
        stats["wall"] = max(stats["wall"], r.wall)
        for t in r.tagged("VERDICT"):
            verdicts[t[1]] = [t[2], t[3]]
    return verdicts, stats
