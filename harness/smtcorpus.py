"""Drive step shared by C06 and C07: specifications of small blocks, encoded under a covering array of encoder
option sets, all models of the hard constraints enumerated by the stand-in solver and decoded by the tool."""
import itertools
import random

import common
import corpus
import gen
import pool

FACTORS = [
    [["-term-encoding", "uninterpreted_uf"], ["-term-encoding", "int"], ["-term-encoding", "stack_vars"], ["-term-encoding", "uninterpreted_int"]],
    [[], ["-empty"]],
    [[], ["-push-basic"]],
    [[], ["-pop-uninterpreted"]],
    [[], ["-memory-encoding", "l_vars"]],
    [[], ["-order-bounds"]],
    [[], ["-order-conflicts"]],
    [[], ["-at-most"]],
    [[], ["-pushed-once"]],
    [[], ["-no-output-before-pop"]],
    [[], ["-size"], ["-length"]],
    [[], ["-direct-inequalities"]],
]


def covering_array(seed, strength_pairs=True, extra=0):
    """greedy pairwise covering array over FACTORS (rows = index tuples); the all-default row comes first"""
    rnd = random.Random(seed)
    n = len(FACTORS)
    need = set()
    for i, j in itertools.combinations(range(n), 2):
        for a in range(len(FACTORS[i])):
            for b in range(len(FACTORS[j])):
                need.add((i, a, j, b))
    rows = [tuple(0 for _ in FACTORS)]

    def cov(row):
        return {(i, row[i], j, row[j]) for i, j in itertools.combinations(range(n), 2)}
    need -= cov(rows[0])
    while need:
        best, bestc = None, -1
        for _ in range(60):
            cand = tuple(rnd.randrange(len(f)) for f in FACTORS)
            c = len(cov(cand) & need)
            if c > bestc:
                best, bestc = cand, c
        rows.append(best)
        need -= cov(best)
    for _ in range(extra):
        rows.append(tuple(rnd.randrange(len(f)) for f in FACTORS))
    return rows


def argv_of(row):
    out = ["-solver", "z3", "-tout", "2"]
    for f, i in zip(FACTORS, row):
        out += f[i]
    return out


# blocks whose specification has an empty stack bound (bs = 0) after simplification: run under every option row
BS0 = ["DUP1 AND", "PUSH 0 ADD", "PUSH 1 MUL", "PUSH 0 MLOAD PUSH 0 MSTORE", "PUSH 1 SWAP1 DIV",
       # several zero pushes: PUSH0 against DUP under the size criterion (every row, so every -size row prices them)
       "PUSH 0 PUSH 0 PUSH 0", "PUSH 0 PUSH 0 PUSH 1", "PUSH 2 PUSH 0 PUSH 0",
       # a store directly followed by a POP of a dead value (pruning constraints about what may precede a POP)
       "MSTORE8 POP", "MSTORE POP", "SSTORE POP", "POP MSTORE8",
       # a load through a pushed address, a store that conflicts with it, a store through the loaded value: the order
       # tuples of the l_vars memory encoding interact (seven instructions: run whatever the length limit of the tier)
       "PUSH 40 MLOAD SWAP1 PUSH 40 MSTORE DUP1 MSTORE", "PUSH 0 SLOAD SWAP1 PUSH 0 SSTORE DUP1 SSTORE",
       # a store whose operands are pushed, without and with slack in the length bound (a store listed before a value-producing
       # instruction: the numbering of terms and of the empty-cell marker of the int term encoding)
       "PUSH 7 PUSH 5 SSTORE", "DUP1 POP PUSH 7 PUSH 5 SSTORE", "PUSH 7 PUSH 5 MSTORE DUP1 POP",
       # a load whose result reaches a later store of the same domain through another instruction, all operands from the
       # incoming stack: lower position bounds along order tuples, tight length bound and one step of slack
       "SLOAD ADD PUSH 7 SSTORE", "SLOAD ADD PUSH 7 SSTORE DUP1 POP", "MLOAD ADD PUSH 7 MSTORE",
       # a constant of five and of eight bytes needed twice: the soft weights of wide pushes under the size criterion
       "PUSH ffffffffff PUSH ffffffffff", "PUSH ffffffffffffffff PUSH ffffffffffffffff ADD",
       # two stores (a store and a load) that must keep their order, with slack: the order constraints of the direct memory
       # encoding when position bounds are switched off (the second access in the first slot, the first one in the last slot)
       "SWAP2 SWAP1 SWAP3 SWAP1 SSTORE SSTORE", "SWAP2 SWAP1 SWAP3 SWAP1 MSTORE MSTORE", "SWAP1 SWAP1 SSTORE SLOAD", "SWAP1 SWAP1 MSTORE MLOAD"]


def small_blocks(tier, seed):
    arith = [gen.frag(x, "*") for x in ["ADD", "SUB", "MUL", "PUSH 1", "PUSH 0", "PUSH 2", "DUP1", "DUP2", "SWAP1", "SWAP2", "POP", "ISZERO",
                                        "AND", "LT", "PUSH 1 ADD", "CALLER", "NOT", "ADDMOD", "MULMOD", "SWAP2 ADDMOD", "PUSH 7 SWAP2",
                                        "DIV", "SWAP1 SUB", "SLT"]]
    mem = gen.mem_vocab(small=True)[:10] + [gen.frag(x, "*") for x in ["MLOAD", "MSTORE", "SLOAD", "SSTORE", "POP", "DUP1", "SWAP1", "ADD"]]
    a1, _ = gen.enumerate_blocks(arith, [["*"], ["*", "*"], ["*", "*", "*"]], 3)
    m1, _ = gen.enumerate_blocks(mem, [["*"], ["*", "*"]], 3)
    hand = [t for t in corpus.hand_blocks() if len(gen.tokens(t)) <= 6]
    if tier == "quick":
        return hand[:40] + corpus.sample(a1, 160, seed) + corpus.sample(m1, 100, seed)
    real = []
    return hand + corpus.sample(a1, 1500, seed) + corpus.sample(m1, 400, seed) + real


def collect(tier, maxb0=None, maxmodels=None):
    seed = common.seed()
    rows = covering_array(seed, extra=0 if tier == "quick" else 12)
    if tier == "quick":
        rows = rows[:12]
    blocks = small_blocks(tier, seed)
    maxb0 = maxb0 or (5 if tier == "quick" else 6)
    maxmodels = maxmodels or (40 if tier == "quick" else 300)
    jobs = []
    for i, row in enumerate(rows):
        bl = blocks if (tier != "quick" and i == 0) else corpus.sample(blocks, 45 if tier == "quick" else 150, seed + i)
        bl = bl + [t for t in BS0 if t not in bl]
        jobs.append((argv_of(row), [{"cmd": "sfs_smt", "text": t, "maxb0": max(maxb0, 7) if t in BS0 else maxb0, "max": maxmodels,
                                     "budget": 12 if tier == "quick" else 40} for t in bl]))
    results = pool.run_matrix(jobs, timeout=120 if tier == "quick" else 400)
    recs = []
    cnt = {"blocks": 0, "killed": 0, "frontend_exc": 0, "encode_exc": 0, "specs": 0, "encoded": 0, "models": 0, "complete": 0, "sat": 0, "unsat": 0}
    for (argv, cmds), res in zip(jobs, results):
        for cmd, r in zip(cmds, res):
            if r.get("killed"):
                cnt["killed"] += 1
                continue
            for b in r.get("blocks", []):
                cnt["blocks"] += 1
                if "exc" in b:
                    cnt["frontend_exc"] += 1
                    continue
                for s in b["subs"]:
                    cnt["specs"] += 1
                    smt = s.get("smt")
                    if not smt:
                        continue
                    if "exc" in smt and smt.get("stage") == "encode":
                        cnt["encode_exc"] += 1
                    else:
                        cnt["encoded"] += 1
                        cnt["models"] += len(smt.get("models", []))
                        cnt["complete"] += 1 if smt.get("complete") else 0
                        if smt.get("models"):
                            cnt["sat"] += 1
                        elif smt.get("complete"):
                            cnt["unsat"] += 1
                    recs.append({"argv": argv, "block": b["plain"], "name": s["name"], "sfs": s["sfs"], "smt": smt})
    return recs, cnt, [" ".join(argv_of(r)[4:]) or "(default)" for r in rows]
