------------------------------ MODULE Histories ------------------------------
(***************************************************************************)
(* Generator (G) of C12: the call histories under which a target block is   *)
(* processed.  A history is a sequence of indices into the block pool       *)
(* (1..npool); a target is a pool block (1..npool) or an extra target       *)
(* (npool+1..ntargets; extra targets never occur inside a history).         *)
(*   G.npool, G.ntargets                                                    *)
(*   G.full    every history of length <= full is kept, with every target   *)
(*   G.stride  0, or: the (history, pool target) pairs with a history of    *)
(*             length full+1 whose rank (the sequence history \o <<target>> *)
(*             read as a number in base npool) is congruent to G.phase      *)
(*             modulo G.stride are kept as well (a strided sample chosen    *)
(*             here, not by the harness)                                    *)
(*   G.kind    "pool" as described; "prefix": the pool is the block list of  *)
(*             one contract in its order, and the only non-empty history of *)
(*             block t is <<1, .., t-1>> (the blocks before it)             *)
(* A kept pair is printed as <<"H", target, history, class>>, class "other" *)
(* when the target does not occur in its own history (the quantifier of the *)
(* property: "sequences H of other blocks") and "self" otherwise (recorded  *)
(* and judged separately as a diagnostic).                                  *)
(***************************************************************************)
EXTENDS Naturals, Sequences, SequencesExt, Json, IOUtils, TLC

G == JsonDeserialize(IOEnv.GEN)

VARIABLES hist, tgt

MaxLen == IF G.stride > 0 THEN G.full + 1 ELSE G.full

Rank(s) == FoldLeft(LAMBDA a, x : (a * G.npool) + (x - 1), 0, s)

Kept(h, t) ==
  \/ Len(h) <= G.full
  \/ /\ G.stride > 0 /\ Len(h) = G.full + 1 /\ t <= G.npool
     /\ Rank(Append(h, t)) % G.stride = G.phase

Init == hist = <<>> /\ tgt = 0

Extend ==
  /\ tgt = 0 /\ Len(hist) < MaxLen
  /\ \E i \in 1..G.npool : (G.kind = "prefix" => i = Len(hist) + 1) /\ hist' = Append(hist, i)
  /\ UNCHANGED tgt

Allowed(h, t) == (G.kind = "prefix" /\ Len(h) > 0) => (t = Len(h) + 1)

Pick ==
  /\ tgt = 0
  /\ \E t \in 1..G.ntargets : (Kept(hist, t) /\ Allowed(hist, t) /\ tgt' = t)
  /\ UNCHANGED hist

Next == Extend \/ Pick
Spec == Init /\ [][Next]_<<hist, tgt>>

Class == IF \E i \in 1..Len(hist) : hist[i] = tgt THEN "self" ELSE "other"
Emit == tgt # 0 => PrintT(<<"H", tgt, hist, Class>>)
=============================================================================
