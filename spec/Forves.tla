------------------------------- MODULE Forves -------------------------------
(***************************************************************************)
(* C05, external-checker adapter: whenever compare_forves answers "true"     *)
(* (with a stand-in checker that accepts everything it is given), the text    *)
(* handed to the checker must render both blocks faithfully.                 *)
(* case = [id, verdict, rendered (Seq of records [opt, orig, size]: token      *)
(*         sequences of each "#" record), a, b (the two blocks as Seq of        *)
(*         [op, val]; val = normalized hex of the operand or "")]               *)
(* Decoding the checker's input language: PUSHn 0xV -> [PUSH, V];               *)
(* METAPUSH k 0xV -> [META k, V]; any other token is an opcode.                 *)
(* The blocks are cut at the instructions the adapter hands over as isolated    *)
(* strings (tags, jumps, terminals, split instructions); every maximal run in   *)
(* between must be the decoding of one record, in order.                       *)
(***************************************************************************)
EXTENDS Naturals, Sequences, SequencesExt, Json, IOUtils, TLC

Cases == JsonDeserialize(IOEnv.CASES).cases

Isolated == {"tag", "JUMPDEST", "JUMP", "JUMPI", "STOP", "RETURN", "REVERT", "INVALID", "SELFDESTRUCT",
             "LOG0", "LOG1", "LOG2", "LOG3", "LOG4", "CALLDATACOPY", "CODECOPY", "EXTCODECOPY", "RETURNDATACOPY",
             "CALL", "STATICCALL", "DELEGATECALL", "CREATE", "CREATE2", "ASSIGNIMMUTABLE", "GAS"}
IsPushN(t) == Len(t) > 4 /\ SubSeq(t, 1, 4) = "PUSH" /\ t \notin {"PUSH0"}

RECURSIVE Decode(_)
Decode(toks) ==
  IF Len(toks) = 0 THEN <<>>
  ELSE IF toks[1] = "METAPUSH" /\ Len(toks) >= 3 THEN <<[op |-> "META" \o toks[2], val |-> toks[3]]>> \o Decode(SubSeq(toks, 4, Len(toks)))
  ELSE IF IsPushN(toks[1]) /\ Len(toks) >= 2 THEN <<[op |-> "PUSH", val |-> toks[2]]>> \o Decode(SubSeq(toks, 3, Len(toks)))
  ELSE <<[op |-> toks[1], val |-> ""]>> \o Decode(Tail(toks))

\* maximal runs of non-isolated instructions (under the split policy given with the case)
RECURSIVE Runs(_, _, _)
Runs(blk, cur, iso) ==
  IF Len(blk) = 0 THEN (IF Len(cur) > 0 THEN <<cur>> ELSE <<>>)
  ELSE IF blk[1].op \in iso THEN (IF Len(cur) > 0 THEN <<cur>> ELSE <<>>) \o Runs(Tail(blk), <<>>, iso)
  ELSE Runs(Tail(blk), Append(cur, blk[1]), iso)

Judge(cs) ==
  IF cs.verdict # "true" THEN "ok"
  ELSE LET iso == Isolated \cup (IF cs.storage THEN {"SSTORE", "MSTORE", "MSTORE8"} ELSE {})
           ra == Runs(cs.a, <<>>, iso)  rb == Runs(cs.b, <<>>, iso)
       IN  IF Len(cs.rendered) = 0 /\ Len(ra) = 0 /\ Len(rb) = 0 THEN "ok"
           ELSE IF Len(cs.rendered) # Len(ra) \/ Len(cs.rendered) # Len(rb) THEN "number of records"
           ELSE IF \E i \in 1..Len(ra) : Decode(cs.rendered[i].orig) # ra[i] THEN "original block not rendered faithfully"
           ELSE IF \E i \in 1..Len(rb) : Decode(cs.rendered[i].opt) # rb[i] THEN "optimized block not rendered faithfully"
           ELSE "ok"

VARIABLE c
Init == c = 1 /\ TLCSet(1, 0)
Next == /\ c <= Len(Cases)
        /\ LET v == Judge(Cases[c]) IN IF v = "ok" THEN TRUE ELSE PrintT(<<"VERDICT", Cases[c].id, 0, v>>)
        /\ TLCSet(1, c)
        /\ c' = c + 1
Spec == Init /\ [][Next]_c
Accepted == PrintT(<<"CONSUMED", TLCGet(1), Len(Cases)>>) /\ TLCGet(1) = Len(Cases)
=============================================================================
