------------------------------ MODULE SFSSearch ------------------------------
(***************************************************************************)
(* Exhaustive search (M/V) over ALL instruction sequences of SFSMachine      *)
(* within the published bounds of a specification: length <= b0 and stack     *)
(* height <= bs.  Several instances are explored in one run (one initial      *)
(* state per instance).  Every state that satisfies Goal is reported with     *)
(* the number of steps that reached it; TLC's breadth-first order makes the   *)
(* first report per instance the true minimum length.                        *)
(* A case is [id, sfs, b0, bs, origins, subins]:                             *)
(*   origins  the instruction tokens recorded in the specification            *)
(*   subins   the instruction tokens of the sub-block the front-end reported   *)
(***************************************************************************)
EXTENDS SFSMachine, Json, IOUtils, TLC

Cases == JsonDeserialize(IOEnv.CASES).cases

VARIABLES inst, st

Moves(S, s) ==
  {[id |-> "POP", k |-> 0, c |-> ""]}
  \cup {[id |-> "DUP", k |-> k, c |-> ""] : k \in 1..(IF Len(s.stack) < 16 THEN Len(s.stack) ELSE 16)}
  \cup {[id |-> "SWAP", k |-> k, c |-> ""] : k \in 1..(IF Len(s.stack) - 1 < 16 THEN Len(s.stack) - 1 ELSE 16)}
  \cup {[id |-> S.ins[i].id, k |-> 0, c |-> ""] : i \in 1..Len(S.ins)}

Init == inst \in 1..Len(Cases) /\ st = Start(Cases[inst].sfs)
Next ==
  LET cs == Cases[inst]  S == cs.sfs IN
  /\ ~Goal(S, st)
  /\ TLCGet("level") <= cs.b0
  /\ \E ev \in Moves(S, st) :
       LET r == Try(S, st, ev) IN
       /\ r.err = ""
       /\ Len(r.stack) <= cs.bs
       /\ st' = [stack |-> r.stack, done |-> r.done]
  /\ UNCHANGED inst
Spec == Init /\ [][Next]_<<inst, st>>

\* "invariants" that only report
Report ==
  LET cs == Cases[inst] IN
  /\ Goal(cs.sfs, st) => PrintT(<<"GOAL", cs.id, TLCGet("level") - 1>>)
  /\ (TLCGet("level") = 1 /\ cs.origins # cs.subins) => PrintT(<<"VERDICT", cs.id, 0, "original_instrs">>)
  /\ (TLCGet("level") = 1 /\ ~WellFormed(cs.sfs)) => PrintT(<<"VERDICT", cs.id, 0, "malformed sfs">>)
=============================================================================
