------------------------------ MODULE SoftCost ------------------------------
(***************************************************************************)
(* C07, pass 1: for every enumerated model M of one (specification, option     *)
(* set) problem compute Cost_c(decode(M)) with StaticCost and the weight of     *)
(* the soft constraints M violates (from the recorded soft constraints          *)
(* [j, neg, ids, w]: "t_j is one of ids" (neg FALSE) / "t_j is none of ids"),    *)
(* and check that soft(M) - Cost(M) is the same for all models of the problem.  *)
(* case = [id, sfs, crit, models (Seq of event sequences), softs, first]        *)
(***************************************************************************)
EXTENDS StaticCost, SequencesExt, Json, IOUtils, TLC, Integers

Cases == JsonDeserialize(IOEnv.CASES).cases

CostOf(cs, m) == FoldLeft(LAMBDA acc, ev : acc + EvCost(cs.sfs, ev, cs.crit), 0, m)
\* id at position j (positions start at cs.first)
IdAt(m, j, first) == LET e == m[j - first + 1] IN IF e.id \in {"DUP", "SWAP"} THEN e.id \o ToString(e.k)
                                                  ELSE IF e.id = "PUSHC" THEN "PUSH" ELSE e.id
Sat(cs, m, s) == LET here == IdAt(m, s.j, cs.first)
                     isin == \E i \in 1..Len(s.ids) : s.ids[i] = here
                 IN  IF s.neg THEN ~isin ELSE isin
SoftOf(cs, m) == FoldLeft(LAMBDA acc, s : IF Sat(cs, m, s) THEN acc ELSE acc + s.w, 0, cs.softs)

VARIABLE c
Init == c = 1 /\ TLCSet(1, 0)
Next ==
  /\ c <= Len(Cases)
  /\ LET cs == Cases[c]
         cost == [i \in 1..Len(cs.models) |-> CostOf(cs, cs.models[i])]
         soft == [i \in 1..Len(cs.models) |-> SoftOf(cs, cs.models[i])]
         diffs == {soft[i] - cost[i] : i \in 1..Len(cs.models)}
         minc == IF Len(cs.models) = 0 THEN 0 - 1
                 ELSE CHOOSE x \in {cost[i] : i \in 1..Len(cs.models)} : \A i \in 1..Len(cs.models) : x <= cost[i]
     IN  /\ PrintT(<<"COSTS", cs.id, minc, cost, soft>>)
         /\ IF Cardinality(diffs) <= 1 THEN TRUE
            ELSE LET i == CHOOSE x \in 1..Len(cs.models) : \E y \in 1..Len(cs.models) : soft[x] - cost[x] # soft[y] - cost[y]
                 IN  PrintT(<<"VERDICT", cs.id, i, "soft weight is not cost plus a constant", diffs>>)
  /\ TLCSet(1, c)
  /\ c' = c + 1
Spec == Init /\ [][Next]_c
Accepted == PrintT(<<"CONSUMED", TLCGet(1), Len(Cases)>>) /\ TLCGet(1) = Len(Cases)
=============================================================================
