-------------------------------- MODULE Asm --------------------------------
(***************************************************************************)
(* Assembly items, basic blocks, the splitting of a block's optimizable      *)
(* instruction sequence into sub-blocks, and the reassembly of a block       *)
(* (property C14).                                                           *)
(*                                                                         *)
(* An item is a record with all fields of a solc assembly item               *)
(*   n  opcode name as written ("PUSH", "PUSH [tag]", "tag", "DUP3", ...)   *)
(*   v  operand ("" when absent)        p  plain spelling ("PUSH 1", "ADD")  *)
(*   b, e, s, md  begin / end / source / modifierDepth (-1 when absent)      *)
(*   jt jumpType ("" when absent)       rv real operand (PUSHLIB)            *)
(*   op, k  the arity class of EVM.tla: DUPk / SWAPk are op "DUP"/"SWAP", k  *)
(* A block is a sequence of items.  A sub-block, as the front-end reports    *)
(* it, is a sequence of plain spellings; ADJACENT SUB-BLOCKS SHARE THE       *)
(* INSTRUCTION THEY WERE CUT AT: Last(subs[k]) and Head(subs[k+1]) are the   *)
(* same occurrence.  A policy is "default", "storage" or "partition".        *)
(***************************************************************************)
EXTENDS Integers, Sequences, SequencesExt, FiniteSets, TLC

E == INSTANCE EVM WITH NB <- 32            \* arity table, MinDepth: one source for stack effects

BeginNames == {"tag", "JUMPDEST"}
EndNames   == {"JUMP", "JUMPI", "STOP", "RETURN", "REVERT", "INVALID", "SELFDESTRUCT"}
SplitDefault == {"LOG0", "LOG1", "LOG2", "LOG3", "LOG4", "CALLDATACOPY", "CODECOPY", "EXTCODECOPY",
                 "RETURNDATACOPY", "CALL", "STATICCALL", "DELEGATECALL", "CREATE", "CREATE2",
                 "ASSIGNIMMUTABLE", "GAS"}
StoreNames == {"SSTORE", "MSTORE", "MSTORE8"}
Policies   == {"default", "storage", "partition"}

IsOptimizable(it) == it.n \notin (BeginNames \cup EndNames)
Optimizable(block) == SelectSeq(block, IsOptimizable)
\* positions (in the block) of the optimizable items, in order
OptPos(block) == SelectSeq([i \in 1..Len(block) |-> i], LAMBDA i : IsOptimizable(block[i]))
\* the optimizable items are one contiguous run (tag/JUMPDEST first, jump/terminal last)
NormalForm(block) ==
  LET P == OptPos(block) IN P = <<>> \/ P[Len(P)] - P[1] + 1 = Len(P)

\* an instruction the policy allows to cut at.  "storage": stores are split instructions;
\* "partition": stores are additional cut points the heuristic MAY use (which ones is not prescribed)
IsSplitPoint(name, policy) ==
  name \in SplitDefault \/ (policy \in {"storage", "partition"} /\ name \in StoreNames)
\* an instruction that can never be inside a specification (diagnostic only, see AsmTrace)
MustSplit(name, policy) == name \in SplitDefault \/ (policy = "storage" /\ name \in StoreNames)

-----------------------------------------------------------------------------
(* geometry of a reported split: sub-block k covers the indices Lo(k)..Hi(k)  *)
(* of the joined sequence, Lo(1) = 1, Lo(k+1) = Hi(k)                        *)
Bounds(subs) ==
  FoldLeft(LAMBDA acc, sb : LET lo == IF acc = <<>> THEN 1 ELSE acc[Len(acc)][2]
                            IN  Append(acc, <<lo, lo + Len(sb) - 1>>),
           <<>>, subs)
\* joined sequence: the duplicated shared instruction is dropped
Join(subs) == IF subs = <<>> THEN <<>> ELSE FoldLeft(LAMBDA acc, sb : acc \o Tail(sb), subs[1], Tail(subs))

\* indices (in the joined sequence) of the instructions the specification of sub-block k is about:
\* the sub-block without the split instructions it shares with its neighbours (may be empty: ILo = IHi + 1)
ILo(subs, k) == LET b == Bounds(subs)[k] IN IF k = 1 THEN b[1] ELSE b[1] + 1
IHi(subs, k) == LET b == Bounds(subs)[k] IN IF k = Len(subs) THEN b[2] ELSE b[2] - 1
InteriorEntries(subs, k) == SubSeq(Join(subs), ILo(subs, k), IHi(subs, k))
Interior(block, subs, k) == SubSeq(Optimizable(block), ILo(subs, k), IHi(subs, k))

\* a reported entry denotes an item.  Weakening (recorded in DESIGN.md section 6): the front-end names a
\* split instruction by its opcode alone ("ASSIGNIMMUTABLE" for the item "ASSIGNIMMUTABLE 7"); a split
\* instruction is never part of a specification, so its operand is not demanded.  Everything else: exact.
EntryMatches(e, it) == e = it.p \/ (e = it.n /\ it.n \in SplitDefault)

\* <<clause, position>>; clause "ok" iff ValidSplit
SplitVerdict(block, subs, policy) ==
  LET O == Optimizable(block)  K == Len(subs)  J == Join(subs)  B == Bounds(subs) IN
  IF K = 0 THEN <<"no sub-block", 0>>
  ELSE IF \E k \in 1..K : Len(subs[k]) = 0 THEN <<"empty entry list", CHOOSE k \in 1..K : Len(subs[k]) = 0>>
  ELSE IF \E k \in 1..(K - 1) : Last(subs[k]) # Head(subs[k + 1])
       THEN <<"adjacent sub-blocks do not share their split instruction",
              CHOOSE k \in 1..(K - 1) : Last(subs[k]) # Head(subs[k + 1])>>
  ELSE IF \E k \in 2..(K - 1) : Len(subs[k]) < 2
       THEN <<"one occurrence used as two cuts", CHOOSE k \in 2..(K - 1) : Len(subs[k]) < 2>>
  ELSE IF Len(J) # Len(O) THEN <<"join has a different length than the optimizable sequence", Len(J)>>
  ELSE IF \E i \in 1..Len(O) : ~EntryMatches(J[i], O[i])
       THEN <<"join differs from the optimizable sequence",
              CHOOSE i \in 1..Len(O) : ~EntryMatches(J[i], O[i]) /\ \A j \in 1..(i - 1) : EntryMatches(J[j], O[j])>>
  ELSE IF \E k \in 1..(K - 1) : ~IsSplitPoint(O[B[k][2]].n, policy)
       THEN <<"cut at an instruction the policy does not allow",
              CHOOSE k \in 1..(K - 1) : ~IsSplitPoint(O[B[k][2]].n, policy)>>
  ELSE <<"ok", 0>>

ValidSplit(block, subs, policy) == SplitVerdict(block, subs, policy)[1] = "ok"

\* diagnostic: no specification would contain an instruction that must be cut at
NoSplitInside(block, subs, policy) ==
  \A k \in 1..Len(subs) : \A i \in ILo(subs, k)..IHi(subs, k) : ~MustSplit(Optimizable(block)[i].n, policy)

-----------------------------------------------------------------------------
(* stack heights.  Delta = pushed - popped.  With d = least input depth the   *)
(* block's optimizable sequence O needs, the stack (counted from the bottom  *)
(* of those d elements) has HeightBefore(O, i) elements when O[i] starts.     *)
(* h_k = HeightBefore(O, ILo(k)); equivalently h_1 = d and                   *)
(* h_{k+1} = h_k + Delta(interior of k) + Delta(its closing split).          *)
Delta(prog) == LET d == E!DeltaPair(prog) IN d[1] - d[2]
HeightBefore(O, i) == E!MinDepth(O) + Delta(SubSeq(O, 1, i - 1))
H(block, subs, k) == HeightBefore(Optimizable(block), ILo(subs, k))

\* what can be said soundly about the specification of sub-block k from its stack sizes alone (the
\* front-end drops untouched bottom elements from both stacks and renames variables, so neither the
\* exact height nor the identity of the elements is observable):
\*  - it does not start from more elements than the previous sub-blocks and split instruction leave;
\*  - its net effect is the net effect of the instructions it is about.
SourceFits(block, subs, k, nsrc) == nsrc <= H(block, subs, k)
DeltaFits(block, subs, k, nsrc, ntgt) == ntgt - nsrc = Delta(Interior(block, subs, k))

-----------------------------------------------------------------------------
(* reassembly.  repl[k] = [some |-> FALSE, seq |-> <<>>] keeps sub-block k,   *)
(* [some |-> TRUE, seq |-> R] replaces the segment of k by R.  The segment   *)
(* of k is the stretch of the BLOCK between the split occurrences that bound *)
(* k (from the first optimizable item for k = 1, to the last one for k = K); *)
(* the split instructions themselves, and everything before the first and    *)
(* after the last optimizable item, always stay.                             *)
SegLo(block, subs, k) == LET P == OptPos(block)  b == Bounds(subs)[k] IN IF k = 1 THEN P[b[1]] ELSE P[b[1]] + 1
SegHi(block, subs, k) == LET P == OptPos(block)  b == Bounds(subs)[k] IN IF k = Len(subs) THEN P[b[2]] ELSE P[b[2]] - 1
Segment(block, subs, k) == SubSeq(block, SegLo(block, subs, k), SegHi(block, subs, k))
\* replacing is only specified when the segment consists of optimizable items
SegmentClean(block, subs, k) == \A i \in 1..Len(Segment(block, subs, k)) : IsOptimizable(Segment(block, subs, k)[i])

NoRepl(K) == [k \in 1..K |-> [some |-> FALSE, seq |-> <<>>]]
OneRepl(K, j, R) == [k \in 1..K |-> IF k = j THEN [some |-> TRUE, seq |-> R] ELSE [some |-> FALSE, seq |-> <<>>]]

\* defined for a valid split of a block with at least one optimizable item
Rebuild(block, subs, repl) ==
  LET P == OptPos(block)  K == Len(subs)  B == Bounds(subs)
      Piece(k) == (IF k = 1 THEN <<>> ELSE <<block[P[B[k][1]]]>>)
                  \o (IF repl[k].some THEN repl[k].seq ELSE Segment(block, subs, k))
  IN  SubSeq(block, 1, P[1] - 1)
      \o FoldLeft(LAMBDA acc, k : acc \o Piece(k), <<>>, [k \in 1..K |-> k])
      \o SubSeq(block, P[Len(P)] + 1, Len(block))

\* first index at which two sequences differ (Len of the shorter + 1 when one is a proper prefix)
FirstDiff(a, b) ==
  LET m == IF Len(a) < Len(b) THEN Len(a) ELSE Len(b)
      D == {i \in 1..m : a[i] # b[i]}
  IN  IF D = {} THEN m + 1 ELSE CHOOSE i \in D : \A j \in D : i <= j
=============================================================================
