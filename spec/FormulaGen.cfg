SPECIFICATION Spec
INVARIANT Emit
POSTCONDITION Total
CHECK_DEADLOCK FALSE
