SPECIFICATION Spec
CONSTANTS
  Blocks = {1, 2, 3}
  Leaky = FALSE
  MaxHist = 4
INVARIANT ResultIndependentOfHistory
CHECK_DEADLOCK FALSE
