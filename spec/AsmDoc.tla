------------------------------- MODULE AsmDoc -------------------------------
(***************************************************************************)
(* Abstract solc assembly documents (`solc --combined-json asm`), the        *)
(* documented PUSH 0 / PUSH0 spelling normalisation, block identity for the  *)
(* plain-text format, and the value of a constant as it is spelled.          *)
(*                                                                         *)
(* SCALARS.  Every JSON scalar is one TLA+ string (TLC cannot compare an int *)
(* with a string): "s:<text>" a JSON string, "i:<n>" an integer, "b:true",   *)
(* "null", "j:<canonical json>" anything else, and Absent = "-" when the key *)
(* does not occur.  A document that differs in the type, presence or value   *)
(* of a field therefore differs as an abstract document.                    *)
(*                                                                         *)
(* DOCUMENT.                                                                *)
(*   Doc      [version, extra, contracts : Seq(Contract)]   (by name)        *)
(*   Contract [name, asmkind, asm : Seq(Asm), extra]                         *)
(*            asmkind = "absent" ({}), "null" ({"asm": null}), "obj"         *)
(*            (then asm has exactly one element), "other"                    *)
(*   Asm      [code : Seq(Item), auxdata, hasdata, data : Seq(Entry),        *)
(*             hassrc, srclist : Seq(scalar), extra]                         *)
(*   Entry    [key, kind, hex, asm : Seq(Asm)]    kind = "hex" (a string     *)
(*            entry of .data) or "asm" (a nested assembly: one element)      *)
(*   Item     [name, value, jumpType, modifierDepth, begin, end, source,     *)
(*             extra]   all scalars; extra = the unknown keys, "k=<json>"    *)
(* JSON objects are unordered: the projection lists contracts, data entries  *)
(* and extra keys in key order, arrays (.code, sourceList) in their order.   *)
(***************************************************************************)
EXTENDS Naturals, Sequences, SequencesExt, FiniteSets, TLC

W == INSTANCE Words WITH NB <- 32

Absent == "-"
ItemFields == <<"name", "value", "jumpType", "modifierDepth", "begin", "end", "source", "extra">>

Map(F(_), s) == FoldLeft(LAMBDA acc, x : Append(acc, F(x)), <<>>, s)
MinOf(S)     == CHOOSE x \in S : \A y \in S : x <= y
IsStr(x)     == x \in STRING
IsStrSeq(s)  == \A i \in 1..Len(s) : IsStr(s[i])

-----------------------------------------------------------------------------
(* well-formedness: is a projected value an abstract document at all?        *)

IsItem(it) ==
  /\ DOMAIN it = {"name", "value", "jumpType", "modifierDepth", "begin", "end", "source", "extra"}
  /\ \A f \in {"name", "value", "jumpType", "modifierDepth", "begin", "end", "source"} : IsStr(it[f])
  /\ IsStrSeq(it.extra)

RECURSIVE IsAsm(_)
IsAsm(a) ==
  /\ DOMAIN a = {"code", "auxdata", "hasdata", "data", "hassrc", "srclist", "extra"}
  /\ \A i \in 1..Len(a.code) : IsItem(a.code[i])
  /\ IsStr(a.auxdata) /\ a.hasdata \in {"yes", "no"} /\ a.hassrc \in {"yes", "no"}
  /\ IsStrSeq(a.srclist) /\ IsStrSeq(a.extra)
  /\ \A i \in 1..Len(a.data) :
       LET e == a.data[i] IN
       /\ DOMAIN e = {"key", "kind", "hex", "asm"}
       /\ IsStr(e.key) /\ IsStr(e.hex)
       /\ \/ e.kind = "hex" /\ Len(e.asm) = 0
          \/ e.kind = "asm" /\ Len(e.asm) = 1 /\ IsAsm(e.asm[1])
  /\ \A i \in 1..(Len(a.data) - 1) : a.data[i].key # a.data[i + 1].key

IsContract(c) ==
  /\ DOMAIN c = {"name", "asmkind", "asm", "extra"}
  /\ IsStr(c.name) /\ IsStrSeq(c.extra)
  /\ \/ c.asmkind \in {"absent", "null", "other"} /\ Len(c.asm) = 0
     \/ c.asmkind = "obj" /\ Len(c.asm) = 1 /\ IsAsm(c.asm[1])

IsDoc(d) ==
  /\ DOMAIN d = {"version", "extra", "contracts"}
  /\ IsStr(d.version) /\ IsStrSeq(d.extra)
  /\ \A i \in 1..Len(d.contracts) : IsContract(d.contracts[i])
  /\ \A i \in 1..(Len(d.contracts) - 1) : d.contracts[i].name # d.contracts[i + 1].name

-----------------------------------------------------------------------------
(* Norm: the documented spelling of a zero push.  With PUSH0 enabled the     *)
(* tool reads the item {name: PUSH, value: "0"} as the PUSH0 instruction and *)
(* writes it as {name: PUSH0} without a value; every other field of the item *)
(* is kept.  Both sides of the round trip are normalised, so a document that *)
(* already says PUSH0 is also accepted.  With PUSH0 disabled Norm is the     *)
(* identity.  Nothing else is identified: "00", 0 (an integer), "0x0" are    *)
(* not the documented spelling and stay as they are.                        *)

NormItem(it) ==
  IF it.name = "s:PUSH" /\ it.value = "s:0"
  THEN [it EXCEPT !.name = "s:PUSH0", !.value = Absent]
  ELSE it

RECURSIVE NormAsm(_)
NormAsm(a) ==
  [a EXCEPT !.code = Map(NormItem, @),
            !.data = Map(LAMBDA e : [e EXCEPT !.asm = Map(NormAsm, @)], @)]

NormDoc(d) ==
  [d EXCEPT !.contracts = Map(LAMBDA c : [c EXCEPT !.asm = Map(NormAsm, @)], @)]

Norm(d, push0) == IF push0 = "on" THEN NormDoc(d) ELSE d

(* solc removes null members from its combined JSON: a contract without      *)
(* assembly is written {} (all 110 such contracts of the shipped examples).  *)
(* A document that spells it {"asm": null} is outside that format; the tool  *)
(* reads it and writes {}.  Such documents are compared leniently (null =    *)
(* absent) and counted as undecided, never as violations.                    *)
InFormat(d) == \A i \in 1..Len(d.contracts) : d.contracts[i].asmkind \in {"absent", "obj"}
Lenient(d) ==
  [d EXCEPT !.contracts = Map(LAMBDA c : IF c.asmkind = "null" THEN [c EXCEPT !.asmkind = "absent"] ELSE c, @)]

-----------------------------------------------------------------------------
(* first difference of two abstract documents, as a path of strings (<<>>    *)
(* when they are equal); positions in arrays are 0-based as in JSON.         *)

DiffItem(a, b) ==
  LET bad == {i \in 1..Len(ItemFields) : a[ItemFields[i]] # b[ItemFields[i]]}
      f   == ItemFields[MinOf(bad)]
  IN  IF f = "extra" THEN <<f>> ELSE <<f, a[f], b[f]>>

Keys(es) == Map(LAMBDA e : e.key, es)

RECURSIVE DiffAsm(_, _)
DiffAsm(a, b) ==
  IF a = b THEN <<>>
  ELSE IF Len(a.code) # Len(b.code) THEN <<".code", "length", ToString(Len(a.code)), ToString(Len(b.code))>>
  ELSE LET badc == {i \in 1..Len(a.code) : a.code[i] # b.code[i]} IN
  IF badc # {} THEN LET i == MinOf(badc) IN <<".code", ToString(i - 1)>> \o DiffItem(a.code[i], b.code[i])
  ELSE IF a.auxdata # b.auxdata THEN <<".auxdata", a.auxdata, b.auxdata>>
  ELSE IF a.hassrc # b.hassrc THEN <<"sourceList", a.hassrc, b.hassrc>>
  ELSE IF a.srclist # b.srclist THEN <<"sourceList", "elements">>
  ELSE IF a.hasdata # b.hasdata THEN <<".data", a.hasdata, b.hasdata>>
  ELSE IF Keys(a.data) # Keys(b.data) THEN <<".data", "keys">>
  ELSE LET badd == {i \in 1..Len(a.data) : a.data[i] # b.data[i]} IN
  IF badd # {} THEN
       LET i == MinOf(badd)  x == a.data[i]  y == b.data[i] IN
       IF x.kind # y.kind THEN <<".data", x.key, x.kind, y.kind>>
       ELSE IF x.kind = "hex" THEN <<".data", x.key, x.hex, y.hex>>
       ELSE <<".data", x.key>> \o DiffAsm(x.asm[1], y.asm[1])
  ELSE <<"extra">>

DiffContract(a, b) ==
  IF a.asmkind # b.asmkind THEN <<a.name, "asm", a.asmkind, b.asmkind>>
  ELSE IF a.asm # b.asm THEN <<a.name, "asm">> \o DiffAsm(a.asm[1], b.asm[1])
  ELSE <<a.name, "extra">>

DiffDoc(a, b) ==
  IF a = b THEN <<>>
  ELSE IF a.version # b.version THEN <<"version", a.version, b.version>>
  ELSE IF a.extra # b.extra THEN <<"extra">>
  ELSE IF Map(LAMBDA c : c.name, a.contracts) # Map(LAMBDA c : c.name, b.contracts) THEN <<"contracts", "names">>
  ELSE LET bad == {i \in 1..Len(a.contracts) : a.contracts[i] # b.contracts[i]}
       IN  <<"contracts">> \o DiffContract(a.contracts[MinOf(bad)], b.contracts[MinOf(bad)])

-----------------------------------------------------------------------------
(* Numbers.  A number is a little-endian sequence of byte limbs without      *)
(* trailing zero limbs (zero = <<>>), so equal numbers are equal values.     *)
(* NumOf results are [ok, n]; ok is FALSE for an empty or malformed numeral. *)

Ch(s, i) == SubSeq(s, i, i)

DigitTab ==
  <<"0", "1", "2", "3", "4", "5", "6", "7", "8", "9", "a", "b", "c", "d", "e", "f">>
UpperTab == <<"A", "B", "C", "D", "E", "F">>
\* value of one digit character, 99 when it is none
DigitVal(c) ==
  IF \E i \in 1..16 : DigitTab[i] = c THEN (CHOOSE i \in 1..16 : DigitTab[i] = c) - 1
  ELSE IF \E i \in 1..6 : UpperTab[i] = c THEN 9 + (CHOOSE i \in 1..6 : UpperTab[i] = c)
  ELSE 99

Trim(v) ==
  LET nz == {i \in 1..Len(v) : v[i] # 0}
  IN  IF nz = {} THEN <<>> ELSE SubSeq(v, 1, CHOOSE x \in nz : \A y \in nz : y <= x)

NL == 40                                     \* working width in limbs (values here stay below 2^264)
Bad == [ok |-> FALSE, n |-> <<>>]

\* digits of s from position `from` in the given base (10 or 16), by multiply-and-add over limbs
NumOfMA(s, from, base) ==
  IF from > Len(s) THEN Bad
  ELSE LET r == FoldLeft(LAMBDA acc, i :
                    LET d == DigitVal(Ch(s, i)) IN
                    IF ~acc.ok \/ d >= base THEN [ok |-> FALSE, w |-> acc.w]
                    ELSE LET m == W!Carry([k \in 1..NL |-> acc.w[k] * base + (IF k = 1 THEN d ELSE 0)], NL, 0)
                         IN  [ok |-> m.c = 0, w |-> m.w],
                  [ok |-> TRUE, w |-> W!ZeroV(NL)], [k \in 1..(Len(s) - from + 1) |-> from + k - 1])
       IN  IF r.ok THEN [ok |-> TRUE, n |-> Trim(r.w)] ELSE Bad

\* hexadecimal digits read directly, two per limb (any length)
HexOf(s, from) ==
  LET nd == Len(s) - from + 1
      dg(k) == IF k < 1 THEN 0 ELSE DigitVal(Ch(s, from + k - 1))          \* k-th digit, 1 = most significant
  IN  IF nd < 1 \/ \E k \in 1..nd : dg(k) >= 16 THEN Bad
      ELSE [ok |-> TRUE,
            n  |-> Trim(W!Force([j \in 1..((nd + 1) \div 2) |-> (16 * dg(nd - (2 * j) + 1)) + dg(nd - (2 * j) + 2)]))]

Has0x(s) == Len(s) >= 2 /\ SubSeq(s, 1, 2) = "0x"

\* The plain-text grammar (README, examples/blocks, the tool's own renderings):
\*   PUSH  w    w is hexadecimal, with or without 0x
\*   PUSHn w    w is 0x-prefixed hexadecimal, otherwise decimal
\*   PUSH0      zero
SpelledValue(mn, w) ==
  IF mn = "PUSH0" THEN [ok |-> TRUE, n |-> <<>>]
  ELSE IF mn = "PUSH"  THEN NumOfMA(w, IF Has0x(w) THEN 3 ELSE 1, 16)
  ELSE IF mn = "PUSHn" THEN IF Has0x(w) THEN NumOfMA(w, 3, 16) ELSE NumOfMA(w, 1, 10)
  ELSE Bad

\* the value boundary of the generator, defined here and nowhere else
Small(k) == Trim(W!FromNatN(k, 4))
Vals == << Small(0), Small(1), Small(9), Small(10), Small(255), Small(256),
           Trim(W!Force([i \in 1..9 |-> IF i = 9 THEN 1 ELSE 0])),      \* 2^64
           Trim(W!Force([i \in 1..32 |-> 255])) >>                      \* 2^256 - 1

-----------------------------------------------------------------------------
(* Blocks of the plain-text format.  A block item is [name, value] with      *)
(* value a scalar ("s:ff", "i:0", Absent).  The tool keeps the operand of    *)
(* PUSH and of the hexadecimal pseudo-pushes as hexadecimal text without     *)
(* prefix (asm_bytecode.py: "Assuming the value of asm is hexadecimal").     *)
(* Two blocks are the same block when, leaving out `tag` labels (the plain   *)
(* rendering is defined to omit them), they have the same instructions with  *)
(* operands of the same numeric value; the annotation of a jump ([in]/[out]) *)
(* is not an operand; PUSH0 and PUSH of zero are the same constant push.     *)

HexOperand == {"PUSH", "PUSH [tag]", "PUSH #[$]", "PUSH [$]", "PUSH data", "PUSHIMMUTABLE"}

Text(v) == IF Len(v) >= 2 /\ SubSeq(v, 1, 2) = "s:" THEN SubSeq(v, 3, Len(v)) ELSE ""

\* numeric value of the constant pushed by an item of a parsed block
ItemValue(it) ==
  IF it.name = "PUSH0" /\ it.value = Absent THEN [ok |-> TRUE, n |-> <<>>]
  ELSE IF it.name = "PUSH" THEN HexOf(Text(it.value), 1)
  ELSE Bad

ItemKey(it) ==          \* <<name, numeric operand, textual operand>>
  IF it.name \in {"JUMP", "JUMPI"} THEN <<it.name, <<>>, "">>
  ELSE IF it.name \in {"PUSH", "PUSH0"} /\ ItemValue(it).ok THEN <<"PUSH", ItemValue(it).n, "num">>
  ELSE IF it.name \in HexOperand /\ HexOf(Text(it.value), 1).ok THEN <<it.name, HexOf(Text(it.value), 1).n, "num">>
  ELSE <<it.name, <<>>, it.value>>

NoTags(items) == SelectSeq(items, LAMBDA it : it.name # "tag")

\* [pos, a, b]: 0 when the blocks are the same, else the 1-based position (tags left out) of the
\* first difference and the two instruction names there ("" past the end)
BlockDiff(x, y) ==
  LET a == NoTags(x)  b == NoTags(y)
      n == IF Len(a) < Len(b) THEN Len(a) ELSE Len(b)
      bad == {i \in 1..n : a[i] # b[i] /\ ItemKey(a[i]) # ItemKey(b[i])}
  IN  IF bad # {} THEN [pos |-> MinOf(bad), a |-> a[MinOf(bad)].name, b |-> b[MinOf(bad)].name]
      ELSE IF Len(a) > n THEN [pos |-> n + 1, a |-> a[n + 1].name, b |-> ""]
      ELSE IF Len(b) > n THEN [pos |-> n + 1, a |-> "", b |-> b[n + 1].name]
      ELSE [pos |-> 0, a |-> "", b |-> ""]
=============================================================================
