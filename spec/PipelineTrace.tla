---------------------------- MODULE PipelineTrace ----------------------------
(***************************************************************************)
(* Batch trace validator (V): is the event sequence recorded from the real   *)
(* optimizer (harness/worker_c10.py, attribute rebinding, logged in finally) *)
(* a behaviour of Pipeline with every comparison contained (contain = "all", *)
(* what property C10 requires)?  Every recorded event must be an enabled     *)
(* Pipeline action with the logged fields (IsEvent idiom: the event selects  *)
(* the action and its arguments).  What is not logged - which of the three   *)
(* candidate classes the solver's answer belongs to, and, for a natural      *)
(* fault, which fault the run suffers from - is left to the original action: *)
(* the validator keeps the SET of model states that are consistent with the  *)
(* prefix read so far (subset construction), one TLC state per trace step;   *)
(* an event after which the set is empty is not enabled: the trace is        *)
(* rejected at that position.  In particular an exception that leaves        *)
(* optimize_asm_in_asm_format (event "Raise") is never enabled.              *)
(*                                                                           *)
(* A case is [id, mode ("optimize" | "replay"), nb, sec, nopt, known, fault, *)
(* events, file, inp, out, ff]:                                              *)
(*   known/fault  the injected fault (known = FALSE: any single fault)       *)
(*   file, out    does the output file exist, its blocks (independent reader)*)
(*   inp          the input blocks as the tool itself serializes them        *)
(*                ("unchanged" = what a run that optimizes nothing writes;   *)
(*                fidelity of the serializer is property C15)                *)
(*   ff           the blocks written by the fault-free run (<<>> = none)     *)
(* Final clauses (C10): the run is complete and the output exists; the file  *)
(* holds exactly the emitted blocks; a block whose analysis failed is        *)
(* emitted unchanged; every other block equals the fault-free run's block.   *)
(* Replay (C11): the run ends in "replaydone" with an output or in           *)
(* "replayerr" without one.                                                  *)
(***************************************************************************)
EXTENDS Pipeline, Json, IOUtils, SequencesExt

Cases == JsonDeserialize(IOEnv.CASES).cases

VARIABLES c, pos, S, em, taken

Rng(f) == {f[i] : i \in DOMAIN f}
Pick(T) == CHOOSE t \in T : TRUE

ModelFault(f) == IF f.stage \in {"specgen", "search", "cmpspec"} THEN [b |-> f.b, stage |-> f.stage, sticky |-> f.sticky]
                 ELSE NoFault

\* replay skips blocks without instructions to optimize silently
RECURSIVE Fwd(_, _)
Fwd(s, cs) == IF s.pc = "replay" /\ s.cur <= s.nb /\ cs.nopt[s.cur] = 0 /\ ReplayBlockOK(s, s.cur) # {}
              THEN Fwd(Pick(ReplayBlockOK(s, s.cur)), cs) ELSE s

S0(cs) ==
  IF cs.mode = "replay"
  THEN {Fwd([Start(cs.nb, cs.sec, NoFault, "all") EXCEPT !.pc = "replay", !.tampered = TRUE], cs)}
  ELSE {Start(cs.nb, cs.sec, f, "all") : f \in (IF cs.known THEN {ModelFault(cs.fault)} ELSE Faults(cs.nb))}

None == [a |-> "-", n |-> {}]

\* the successors of model state s under the recorded event ev, and the name of the action taken
Succ(s, ev, cs) ==
  IF cs.mode = "optimize" THEN
    CASE ev.e = "SpecGen" /\ ev.ctx = "opt" /\ ev.ok  -> [a |-> "SpecGenOK", n |-> SpecGenOK(s, ev.b, Rng(ev.subs))]
      [] ev.e = "SpecGen" /\ ev.ctx = "opt" /\ ~ev.ok -> [a |-> "SpecGenFail", n |-> SpecGenFail(s, ev.b)]
      [] ev.e = "SpecGen" /\ ev.ctx \in {"cmpnew", "cmpold"} -> [a |-> "-", n |-> {s}]      \* inside Compare
      [] ev.e = "Opt" /\ ev.ok ->
           IF ev.b \in 1..s.nb /\ s.phase[ev.b] = "pending" THEN [a |-> "Skip", n |-> Skip(s, ev.b)]
           ELSE [a |-> "-", n |-> IF AtBlock(s, ev.b) /\ s.phase[ev.b] = "rebuilt" THEN {s} ELSE {}]
      [] ev.e = "Search" /\ ev.exc = "" ->
           [a |-> IF ev.ok \/ ~FiresSearch(s, ev.b) THEN "Search" ELSE "SearchFail",
            n |-> Search(s, ev.b, ev.k, ev.ok) \cup (IF ev.ok THEN {} ELSE SearchFail(s, ev.b, ev.k))]
      [] ev.e = "Decide" /\ ev.exc = "" ->
           [a |-> "Decide", n |-> {t \in Decide(s, ev.b, ev.k) : (t.dec[ev.b][ev.k] = "yes") = ev.ok}]
      [] ev.e = "Rebuild" /\ ev.ok ->
           [a |-> "Rebuild", n |-> {t \in Rebuild(s, ev.b) : {k \in t.subs[ev.b] : t.rebuilt[ev.b][k] # "orig"} = Rng(ev.replaced)}]
      [] ev.e = "Compare" /\ s.pc = "stats" ->
           IF ev.res = "raise" THEN [a |-> "StatsRaise", n |-> StatsRaise(s, ev.b)] ELSE [a |-> "StatsOK", n |-> StatsOK(s, ev.b)]
      [] ev.e = "Compare" /\ s.pc # "stats" ->
           CASE ev.res = "eq"  -> [a |-> "CompareEq", n |-> CompareEq(s, ev.b)]
             [] ev.res = "neq" -> [a |-> "CompareNeq", n |-> CompareNeq(s, ev.b)]
             [] OTHER          -> [a |-> "CompareRaise", n |-> CompareRaise(s, ev.b)]
      [] ev.e = "Emit" ->
           IF ev.is_old
           THEN [a |-> "EmitOld", n |-> {t \in EmitOld(s, ev.b) : ev.same_as_input}]
           ELSE [a |-> "EmitNew", n |-> {t \in EmitNew(s, ev.b) :
                                           /\ ev.same_as_cand
                                           /\ (ev.b \in t.failed \/ t.out[ev.b] = Orig(t, ev.b)) => ev.same_as_input}]
      [] ev.e = "WriteLog" -> [a |-> "WriteLog", n |-> {t \in WriteLog(s) : ev.ok /\ LogKeys(t.logfile) = Rng(ev.keys)}]
      [] ev.e = "Finish"   -> [a |-> "Finish", n |-> {t \in Finish(s) : ev.ok}]
      [] OTHER -> None                      \* "Raise", a raising Opt/Search/Decide/Rebuild: never enabled
  ELSE
    CASE ev.e = "SpecGen" /\ ev.ctx = "replay" ->
           IF s.pc = "replay" /\ s.cur = ev.b
           THEN IF ev.ok THEN [a |-> "-", n |-> {[s EXCEPT !.subs[ev.b] = Rng(ev.subs), !.phase[ev.b] = "specgen"]}]
                ELSE [a |-> "ReplayReject", n |-> {[s EXCEPT !.pc = "replayerr"]}]         \* the analysis raises: an error, no output
           ELSE None
      [] ev.e = "SpecGen" /\ ev.ctx \in {"cmpnew", "cmpold"} -> [a |-> "-", n |-> {s}]
      [] ev.e = "Rebuild" ->
           IF s.pc = "replay" /\ s.cur = ev.b /\ Rng(ev.replaced) \subseteq s.subs[ev.b]
           THEN IF ev.ok THEN [a |-> "ReplayFromLog",
                               n |-> {[s EXCEPT !.rlog = @ \cup {<<ev.b, k, g[k]>> : k \in Rng(ev.replaced)}] : g \in [Rng(ev.replaced) -> Cands]}]
                ELSE [a |-> "ReplayReject", n |-> {[s EXCEPT !.pc = "replayerr"]}]
           ELSE None
      [] ev.e = "Compare" ->
           CASE ev.res = "eq"  -> [a |-> "ReplayBlockOK", n |-> {Fwd(t, cs) : t \in ReplayBlockOK(s, ev.b)}]
             [] ev.res = "neq" -> [a |-> "ReplayReject", n |-> ReplayReject(s, ev.b)]
             [] OTHER          -> [a |-> "ReplayReject", n |-> IF s.pc = "replay" /\ s.cur = ev.b THEN {[s EXCEPT !.pc = "replayerr"]} ELSE {}]
      \* the error reaches the caller; an exception while a block is being rebuilt from its ids (e.g. an id that is
      \* not an instruction of the specification) is an error outcome too: replay stops without output
      [] ev.e = "Raise"  -> IF s.pc = "replayerr" THEN [a |-> "-", n |-> {s}]
                            ELSE IF s.pc = "replay" /\ s.cur <= s.nb /\ s.phase[s.cur] = "specgen"     \* inside a block only
                                 THEN [a |-> "ReplayReject", n |-> {[s EXCEPT !.pc = "replayerr"]}]
                            ELSE None
      [] ev.e = "Finish" -> [a |-> "ReplayFinish", n |-> {t \in ReplayFinish(s) : ev.ok}]
      [] OTHER -> None

\* final clauses on one consistent model state
Final(s, cs) ==
  IF cs.mode = "replay" THEN
    IF s.pc = "replaydone" THEN (IF cs.file THEN "ok" ELSE "replay verified every block but wrote no output")
    ELSE IF s.pc = "replayerr" THEN (IF cs.file THEN "replay stopped with an error but an output exists" ELSE "ok")
    ELSE "replay trace incomplete: pc=" \o s.pc
  ELSE
    IF s.pc # "done" THEN "run incomplete: pc=" \o s.pc
    ELSE IF ~cs.file THEN "no output file"
    ELSE IF Len(cs.out) # s.nb THEN "output has a different number of blocks"
    ELSE IF \E b \in 1..s.nb : cs.out[b] # em[b] THEN "output file differs from the emitted blocks"
    ELSE IF \E b \in s.failed : cs.out[b] # cs.inp[b] THEN "block with failed analysis not emitted unchanged"
    ELSE IF Len(cs.ff) > 0 /\ \E b \in 1..s.nb : b # cs.fault.b /\ cs.out[b] # cs.ff[b]
         THEN "a block other than the faulty one differs from the fault-free run"
    ELSE "ok"

Blank == [b \in 1..64 |-> ""]

TInit ==
        /\ c = 1 /\ pos = 1 /\ taken = {} /\ em = Blank
        /\ S = IF Len(Cases) > 0 THEN S0(Cases[1]) ELSE {}
        /\ st = 0 /\ TLCSet(1, 0)

NextCase ==
  /\ TLCSet(1, c) /\ UNCHANGED st
  /\ c' = c + 1 /\ pos' = 1 /\ taken' = {} /\ em' = Blank
  /\ S' = IF c + 1 <= Len(Cases) THEN S0(Cases[c + 1]) ELSE {}

Report(cs) ==
  LET verdicts == {Final(s, cs) : s \in S}
      w  == Pick(S)
  IN  /\ PrintT(<<"END", cs.id, w.pc, SetToSeq({s.fault.b : s \in S}), SetToSeq({s.fault.stage : s \in S}), SetToSeq(taken)>>)
      /\ IF "ok" \in verdicts THEN TRUE ELSE PrintT(<<"VERDICT", cs.id, Len(cs.events) + 1, Pick(verdicts)>>)

TNext ==
  /\ c <= Len(Cases)
  /\ LET cs == Cases[c] IN
     IF pos > Len(cs.events) THEN Report(cs) /\ NextCase
     ELSE LET ev  == cs.events[pos]
              rs  == {Succ(s, ev, cs) : s \in S}
              nxt == UNION {r.n : r \in rs}
          IN  IF nxt # {}
              THEN /\ S' = nxt /\ pos' = pos + 1 /\ c' = c /\ UNCHANGED st
                   /\ taken' = taken \cup ({r.a : r \in {q \in rs : q.n # {}}} \ {"-"})
                   /\ em' = IF ev.e = "Emit" THEN [em EXCEPT ![ev.b] = ev.items] ELSE em
              ELSE LET w == Pick(S) IN
                   /\ PrintT(<<"VERDICT", cs.id, pos,
                               "event not enabled: " \o ev.e \o (IF ev.exc # "" THEN " [" \o ev.exc \o "]" ELSE ""),
                               ev.b, w.pc, w.cur, IF ev.b \in 1..w.nb THEN w.phase[ev.b] ELSE "-", SetToSeq(taken)>>)
                   /\ NextCase
TSpec == TInit /\ [][TNext]_<<c, pos, S, em, taken, st>>

Accepted ==
  /\ PrintT(<<"CONSUMED", TLCGet(1), Len(Cases)>>)
  /\ TLCGet(1) = Len(Cases)
=============================================================================
