------------------------------- MODULE SmtLib -------------------------------
(***************************************************************************)
(* Well-formedness of an emitted SMT-LIB problem (C06): every symbol is       *)
(* declared once, and used with the arity and sorts it was declared at;       *)
(* every asserted term is Boolean.  The harness only tokenises the text into  *)
(* trees; all judgement is here.                                             *)
(*   node = [k |-> "app" | "sym" | "int", n |-> STRING, a |-> Seq(node)]      *)
(*   decl = [n |-> STRING, args |-> Seq(STRING), res |-> STRING]              *)
(*   case = [id, sorts, decls, asserts, softs]                                *)
(***************************************************************************)
EXTENDS Naturals, Sequences, FiniteSets, Json, IOUtils, TLC

Cases == JsonDeserialize(IOEnv.CASES).cases

BoolOps  == {"and", "or", "not", "=>", "xor"}
CmpOps   == {"<", "<=", ">", ">="}
ArithOps == {"+", "-", "*"}
Builtin  == BoolOps \cup CmpOps \cup ArithOps \cup {"=", "distinct", "ite", "true", "false"}

DeclOf(cs, name) == cs.decls[CHOOSE i \in 1..Len(cs.decls) : cs.decls[i].n = name]
Declared(cs, name) == \E i \in 1..Len(cs.decls) : cs.decls[i].n = name

RECURSIVE SortOf(_, _)
SortOf(cs, nd) ==
  IF nd.k = "int" THEN "Int"
  ELSE IF nd.k = "sym" THEN
         IF nd.n \in {"true", "false"} THEN "Bool"
         ELSE IF Declared(cs, nd.n) /\ Len(DeclOf(cs, nd.n).args) = 0 THEN DeclOf(cs, nd.n).res
         ELSE "ERR:undeclared " \o nd.n
  ELSE
    LET as == [i \in 1..Len(nd.a) |-> SortOf(cs, nd.a[i])]
        bad == {i \in 1..Len(as) : Len(as[i]) >= 4 /\ SubSeq(as[i], 1, 4) = "ERR:"}
    IN  IF bad # {} THEN as[CHOOSE i \in bad : TRUE]
        ELSE IF nd.n \in BoolOps THEN
               IF Len(as) >= 1 /\ (\A i \in 1..Len(as) : as[i] = "Bool") /\ (nd.n = "not" => Len(as) = 1)
                 THEN "Bool" ELSE "ERR:bool operator " \o nd.n
        ELSE IF nd.n \in {"=", "distinct"} THEN
               IF Len(as) >= 2 /\ (\A i \in 1..Len(as) : as[i] = as[1]) THEN "Bool" ELSE "ERR:sorts of " \o nd.n
        ELSE IF nd.n \in CmpOps THEN
               IF Len(as) >= 2 /\ (\A i \in 1..Len(as) : as[i] = "Int") THEN "Bool" ELSE "ERR:comparison " \o nd.n
        ELSE IF nd.n \in ArithOps THEN
               IF Len(as) >= 1 /\ (\A i \in 1..Len(as) : as[i] = "Int") THEN "Int" ELSE "ERR:arithmetic " \o nd.n
        ELSE IF nd.n = "ite" THEN
               IF Len(as) = 3 /\ as[1] = "Bool" /\ as[2] = as[3] THEN as[2] ELSE "ERR:ite"
        ELSE IF ~Declared(cs, nd.n) THEN "ERR:undeclared " \o nd.n
        ELSE LET d == DeclOf(cs, nd.n) IN
             IF Len(d.args) # Len(as) THEN "ERR:arity of " \o nd.n
             ELSE IF \E i \in 1..Len(as) : as[i] # d.args[i] THEN "ERR:argument sort of " \o nd.n
             ELSE d.res

KnownSort(cs, s) == s \in {"Int", "Bool"} \/ \E i \in 1..Len(cs.sorts) : cs.sorts[i] = s

Judge(cs) ==
  IF \E i, j \in 1..Len(cs.decls) : i # j /\ cs.decls[i].n = cs.decls[j].n THEN "declared twice"
  ELSE IF \E i \in 1..Len(cs.decls) : cs.decls[i].n \in Builtin THEN "declares a builtin"
  ELSE IF \E i, j \in 1..Len(cs.sorts) : i # j /\ cs.sorts[i] = cs.sorts[j] THEN "sort declared twice"
  ELSE IF \E i \in 1..Len(cs.decls) : ~KnownSort(cs, cs.decls[i].res)
                                      \/ \E j \in 1..Len(cs.decls[i].args) : ~KnownSort(cs, cs.decls[i].args[j])
       THEN "unknown sort in declaration"
  ELSE LET terms == cs.asserts \o cs.softs
           bad == {i \in 1..Len(terms) : SortOf(cs, terms[i]) # "Bool"}
       IN  IF bad = {} THEN "ok"
           ELSE LET i == CHOOSE x \in bad : \A y \in bad : x <= y IN "term " \o ToString(i) \o ": " \o SortOf(cs, terms[i])

VARIABLE c
Init == c = 1 /\ TLCSet(1, 0)
Next == /\ c <= Len(Cases)
        /\ LET v == Judge(Cases[c]) IN IF v = "ok" THEN TRUE ELSE PrintT(<<"VERDICT", Cases[c].id, 0, v>>)
        /\ TLCSet(1, c)
        /\ c' = c + 1
Spec == Init /\ [][Next]_c
Accepted == PrintT(<<"CONSUMED", TLCGet(1), Len(Cases)>>) /\ TLCGet(1) = Len(Cases)
=============================================================================
