------------------------------- MODULE Words -------------------------------
(***************************************************************************)
(* EVM machine words as little-endian vectors of byte limbs, in pure TLA+.  *)
(*                                                                         *)
(* A "limb vector of length n" is a function 1..n -> 0..255 (limb 1 is the  *)
(* least significant byte).  A *word* is a limb vector of length NB; the    *)
(* EVM has NB = 32.  NB = 1 and NB = 2 are used by WordsCheck.tla to check  *)
(* every operator exhaustively / on a dense grid against native integers.   *)
(*                                                                         *)
(* TLC integers are 32 bit: every intermediate below stays under 2^23.      *)
(* Style note: results are produced by EXCEPT-folds so that TLC holds them   *)
(* as explicit arrays, never as lazily re-evaluated function lambdas.       *)
(***************************************************************************)
EXTENDS Naturals, Sequences, SequencesExt, FiniteSets, Bitwise

CONSTANT NB              \* bytes per word

Idx(n)   == [i \in 1..n |-> i]
ZeroV(n) == [i \in 1..n |-> 0]
Force(f) == [f EXCEPT ![1] = @]          \* turn a function lambda into an array

WBits == 8 * NB

-----------------------------------------------------------------------------
(* limb-vector naturals of explicit length                                  *)

\* propagate carries through column sums cols[1..n], initial carry c0;
\* returns [w |-> limb vector mod 256^n, c |-> carry out]
Carry(cols, n, c0) ==
  FoldLeft(LAMBDA acc, i : LET s == cols[i] + acc.c
                           IN  [w |-> [acc.w EXCEPT ![i] = s % 256], c |-> s \div 256],
           [w |-> ZeroV(n), c |-> c0], Idx(n))

NAddC(a, b, n)     == Carry([i \in 1..n |-> a[i] + b[i]], n, 0)
NAdd(a, b, n)      == NAddC(a, b, n).w
\* a - b mod 256^n; carry out 1 iff a >= b
NSubC(a, b, n)     == Carry([i \in 1..n |-> a[i] + (255 - b[i])], n, 1)
NSub(a, b, n)      == NSubC(a, b, n).w
NMulSmall(a, d, n) == Carry([i \in 1..n |-> a[i] * d], n, 0).w     \* d <= 255

NIsZero(a, n) == \A i \in 1..n : a[i] = 0
NEq(a, b, n)  == \A i \in 1..n : a[i] = b[i]
NLt(a, b, n)  ==
  LET D == {i \in 1..n : a[i] # b[i]}
  IN  D # {} /\ LET m == CHOOSE x \in D : \A y \in D : y <= x IN a[m] < b[m]
NLe(a, b, n)  == ~NLt(b, a, n)

Ext(a, la, n) == Force([i \in 1..n |-> IF i <= la THEN a[i] ELSE 0])   \* widen / truncate

\* number of significant limbs (0 for zero)
NLen(a, n) == LET D == {i \in 1..n : a[i] # 0}
              IN IF D = {} THEN 0 ELSE CHOOSE x \in D : \A y \in D : y <= x

\* value as a TLC integer when it is below 2^24 (at most 3 significant limbs), else -1
NSmall(a, n) ==
  IF NLen(a, n) > 3 THEN 0 - 1
  ELSE (IF n >= 1 THEN a[1] ELSE 0) + (IF n >= 2 THEN a[2] * 256 ELSE 0)
       + (IF n >= 3 THEN a[3] * 65536 ELSE 0)

FromNatN(k, n) ==        \* k < 2^31
  Force([i \in 1..n |-> IF i <= 4 THEN (k \div (256 ^ (i - 1))) % 256 ELSE 0])

\* a (la limbs) * b (lb limbs) mod 256^n, schoolbook by columns, skipping zero limbs of b
NMul(a, la, b, lb, n) ==
  LET nzb == SelectSeq(Idx(lb), LAMBDA j : b[j] # 0)
      col(k) == FoldLeft(LAMBDA acc, j : IF k + 1 - j >= 1 /\ k + 1 - j <= la
                                           THEN acc + a[k + 1 - j] * b[j] ELSE acc,
                         0, nzb)
  IN  Carry([k \in 1..n |-> col(k)], n, 0).w

\* a (la limbs) divided by b (lb limbs, b # 0): [q |-> la limbs, r |-> lb limbs]
NDivMod(a, la, b, lb) ==
  LET m  == lb + 1
      bx == Ext(b, lb, m)
      bs == NSmall(b, lb)
  IN
  IF bs > 0 /\ bs < 4194304 THEN
    \* short divisor: the running remainder is a TLC integer below 2^22
    LET res == FoldLeft(LAMBDA acc, k :
                          LET i == la + 1 - k
                              t == acc.r * 256 + a[i]
                          IN  [q |-> [acc.q EXCEPT ![i] = t \div bs], r |-> t % bs],
                        [q |-> ZeroV(la), r |-> 0], Idx(la))
    IN  [q |-> res.q, r |-> FromNatN(res.r, lb)]
  ELSE
    LET Dig(t) ==
          IF NLt(t, bx, m) THEN 0
          ELSE FoldLeft(LAMBDA d, bit :
                          IF NLe(NMulSmall(bx, d + bit, m), t, m) THEN d + bit ELSE d,
                        0, <<128, 64, 32, 16, 8, 4, 2, 1>>)
        res == FoldLeft(LAMBDA acc, k :
                          LET i == la + 1 - k
                              t == Force([j \in 1..m |-> IF j = 1 THEN a[i] ELSE acc.r[j - 1]])
                              d == Dig(t)
                          IN  [q |-> [acc.q EXCEPT ![i] = d],
                               r |-> IF d = 0 THEN t ELSE NSub(t, NMulSmall(bx, d, m), m)],
                        [q |-> ZeroV(la), r |-> ZeroV(m)], Idx(la))
    IN  [q |-> res.q, r |-> Ext(res.r, m, lb)]

-----------------------------------------------------------------------------
(* words                                                                     *)

Zero       == ZeroV(NB)
FromNat(k) == FromNatN(k, NB)
One        == FromNat(1)
MaxW       == [i \in 1..NB |-> 255]
IsZero(a)  == NIsZero(a, NB)
Small(a)   == NSmall(a, NB)              \* integer value if < 2^24, else -1
BoolW(b)   == IF b THEN One ELSE Zero
Neg(a)     == NSub(Zero, a, NB)
IsNeg(a)   == a[NB] >= 128
Abs(a)     == IF IsNeg(a) THEN Neg(a) ELSE a
\* pad a (possibly shorter, little-endian) byte sequence to a word
Pad(s)     == Force([i \in 1..NB |-> IF i <= Len(s) THEN s[i] ELSE 0])

ADD(a, b) == NAdd(a, b, NB)
SUB(a, b) == NSub(a, b, NB)
MUL(a, b) == IF NLen(b, NB) <= NLen(a, NB) THEN NMul(a, NB, b, NB, NB) ELSE NMul(b, NB, a, NB, NB)
DIV(a, b) == IF IsZero(b) THEN Zero ELSE NDivMod(a, NB, b, NB).q
MOD(a, b) == IF IsZero(b) THEN Zero ELSE NDivMod(a, NB, b, NB).r
SDIV(a, b) ==
  IF IsZero(b) THEN Zero
  ELSE LET q == NDivMod(Abs(a), NB, Abs(b), NB).q
       IN  IF IsNeg(a) # IsNeg(b) THEN Neg(q) ELSE q
SMOD(a, b) ==
  IF IsZero(b) THEN Zero
  ELSE LET r == NDivMod(Abs(a), NB, Abs(b), NB).r
       IN  IF IsNeg(a) THEN Neg(r) ELSE r
ADDMOD(a, b, m) ==
  IF IsZero(m) THEN Zero
  ELSE LET s == NAddC(a, b, NB)
           wide == Force([i \in 1..(NB + 1) |-> IF i <= NB THEN s.w[i] ELSE s.c])
       IN  NDivMod(wide, NB + 1, m, NB).r
MULMOD(a, b, m) ==
  IF IsZero(m) THEN Zero
  ELSE NDivMod(NMul(a, NB, b, NB, 2 * NB), 2 * NB, m, NB).r

\* bits of e, most significant first, without leading zeros
BitsMSB(e) ==
  LET L == NLen(e, NB)
  IN  IF L = 0 THEN <<>>
      ELSE LET all == [k \in 1..(8 * L) |->
                         LET pos == 8 * L - k IN (e[(pos \div 8) + 1] \div (2 ^ (pos % 8))) % 2]
               first == CHOOSE k \in 1..(8 * L) : all[k] = 1 /\ \A j \in 1..(k - 1) : all[j] = 0
           IN  SubSeq(all, first, 8 * L)
EXP(a, e) ==
  FoldLeft(LAMBDA acc, bit : LET sq == MUL(acc, acc) IN IF bit = 1 THEN MUL(sq, a) ELSE sq,
           One, BitsMSB(e))

SIGNEXTEND(k, x) ==
  LET kn == Small(k)
  IN  IF kn < 0 \/ kn >= NB - 1 THEN x
      ELSE LET fill == IF x[kn + 1] >= 128 THEN 255 ELSE 0
           IN  Force([i \in 1..NB |-> IF i <= kn + 1 THEN x[i] ELSE fill])

LT(a, b)  == BoolW(NLt(a, b, NB))
GT(a, b)  == BoolW(NLt(b, a, NB))
SLtB(a, b) == IF IsNeg(a) # IsNeg(b) THEN IsNeg(a) ELSE NLt(a, b, NB)
SLT(a, b) == BoolW(SLtB(a, b))
SGT(a, b) == BoolW(SLtB(b, a))
EQ(a, b)  == BoolW(NEq(a, b, NB))
ISZERO(a) == BoolW(IsZero(a))
AND(a, b) == Force([i \in 1..NB |-> a[i] & b[i]])
OR(a, b)  == Force([i \in 1..NB |-> a[i] | b[i]])
XOR(a, b) == Force([i \in 1..NB |-> a[i] ^^ b[i]])
NOT(a)    == Force([i \in 1..NB |-> 255 - a[i]])
\* byte i counted from the most significant end
BYTE(i, x) ==
  LET n == Small(i)
  IN  IF n < 0 \/ n >= NB THEN Zero ELSE FromNat(x[NB - n])

LimbOr(x, j, fill) == IF j < 1 THEN 0 ELSE IF j > NB THEN fill ELSE x[j]
SHL(s, x) ==
  LET n == Small(s)
  IN  IF n < 0 \/ n >= WBits THEN Zero
      ELSE LET q == n \div 8  r == n % 8  p == 2 ^ r
           IN  Force([i \in 1..NB |-> ((LimbOr(x, i - q, 0) * p) % 256)
                                       + ((LimbOr(x, i - q - 1, 0) * p) \div 256)])
ShrFill(s, x, fill) ==
  LET n == Small(s)
  IN  IF n < 0 \/ n >= WBits THEN [i \in 1..NB |-> fill]
      ELSE LET q == n \div 8  r == n % 8  p == 2 ^ r  pc == 2 ^ (8 - r)
           IN  Force([i \in 1..NB |-> (LimbOr(x, i + q, fill) \div p)
                                       + ((LimbOr(x, i + q + 1, fill) * pc) % 256)])
SHR(s, x) == ShrFill(s, x, 0)
SAR(s, x) == ShrFill(s, x, IF IsNeg(x) THEN 255 ELSE 0)

\* 2^k as a word, k a TLC integer in 0..WBits-1
Pow2W(k) == Force([i \in 1..NB |-> IF i = (k \div 8) + 1 THEN 2 ^ (k % 8) ELSE 0])
=============================================================================
