-------------------------------- MODULE Grid --------------------------------
(***************************************************************************)
(* The grid of initial machine states on which two blocks are compared.     *)
(* For a block reading d input positions:                                   *)
(*   gen    two generic assignments (pairwise distinct pseudo-random words)  *)
(*   eq     every position holds the same boundary value                    *)
(*   one    one position swept over the boundary values, others generic     *)
(*   alias  two positions hold the same generic word                        *)
(*   two    two positions over V5 x V5, others generic (stride-sampled)      *)
(* Boundary values: V16 plus the constants pushed by the block itself.      *)
(* gen/eq/one/alias are never dropped; "two" is sampled down to the cap.     *)
(***************************************************************************)
EXTENDS Words

P255 == Pow2W(WBits - 1)
V16 == << Zero, One, FromNat(2), FromNat(31), FromNat(32), FromNat(255), FromNat(256),
          Force([i \in 1..NB |-> IF i <= 20 THEN 255 ELSE 0]),       \* 2^160 - 1
          NSub(P255, One, NB), P255, NAdd(P255, One, NB),
          NSub(MaxW, One, NB), MaxW, FromNat(33), FromNat(64), FromNat(96) >>
V5  == << Zero, One, FromNat(32), P255, MaxW >>

\* generic word number i of family g: distinct for distinct i
Gen(i, g) == Force([j \in 1..NB |-> (i * 53 + g * 101 + j * 29 + i * j * 7 + 17) % 256])

\* number of grid states for depth d with nv sweep values and room for `cap` states
NPairs(d)    == d * (d - 1)
Mandatory(d, nv) == 2 + nv + d * nv + NPairs(d)
TwoAll(d)    == NPairs(d) * 25
TwoKept(d, nv, cap) ==
  LET room == IF cap > Mandatory(d, nv) + 24 THEN cap - Mandatory(d, nv) ELSE 24
  IN  IF TwoAll(d) <= room THEN TwoAll(d) ELSE room
GridSize(d, nv, cap) == Mandatory(d, nv) + TwoKept(d, nv, cap)

\* ordered pair number n (1-based) of distinct positions of 1..d
PairP(d, n) == ((n - 1) \div (d - 1)) + 1
PairQ(d, n) == LET q == ((n - 1) % (d - 1)) + 1 IN IF q >= PairP(d, n) THEN q + 1 ELSE q

\* the stack (top first) of grid state number idx; vals = sweep values (V16 \o block constants)
GridStack(d, vals, cap, seed, idx) ==
  LET nv == Len(vals)
      a  == 2  b == a + nv  c == b + d * nv  e == c + NPairs(d)
  IN
  IF idx <= a THEN [i \in 1..d |-> Gen(i, idx)]
  ELSE IF idx <= b THEN [i \in 1..d |-> vals[idx - a]]
  ELSE IF idx <= c THEN
         LET n == idx - b - 1  p == (n \div nv) + 1  v == (n % nv) + 1
         IN  [i \in 1..d |-> IF i = p THEN vals[v] ELSE Gen(i, 1)]
  ELSE IF idx <= e THEN
         LET n == idx - c  p == PairP(d, n)  q == PairQ(d, n)
         IN  [i \in 1..d |-> IF i = q THEN Gen(p, 1) ELSE Gen(i, 1)]
  ELSE   LET kept == TwoKept(d, nv, cap)
             m == idx - e                                    \* 1..kept
             \* stride sampling over the full pair-value list, offset by the seed
             n == IF kept = TwoAll(d) THEN m
                  ELSE (((((m - 1) * TwoAll(d)) \div kept) + seed) % TwoAll(d)) + 1
             pr == ((n - 1) \div 25) + 1  vv == (n - 1) % 25
             p == PairP(d, pr)  q == PairQ(d, pr)
         IN  [i \in 1..d |-> IF i = p THEN V5[(vv \div 5) + 1]
                              ELSE IF i = q THEN V5[(vv % 5) + 1] ELSE Gen(i, 1)]
=============================================================================
