------------------------------- MODULE Rules -------------------------------
(***************************************************************************)
(* Catalogue of the simplification rules of sfs_generator/gasol_optimiza-   *)
(* tion.py (apply_transform: rules on one instruction with a constant or    *)
(* repeated operand; apply_cond_transformation: rules on an instruction     *)
(* and its consumer), each transcribed as an identity  Lhs = Rhs  over the  *)
(* word operators of Words.tla.  One TLC state per rule:                    *)
(*                                                                         *)
(*   Sound     every rule listed in Valid holds for every operand valuation *)
(*             of the width under test (NB = 1: all 2^16 pairs, 2^12        *)
(*             triples; NB = 2 and NB = 32: boundary grids);                *)
(*   Rejected  every identity listed in Refuted -- the readings the pinned  *)
(*             code had before its fix: commits, kept as documentation of   *)
(*             what the rules must NOT be -- has a counterexample.          *)
(*                                                                         *)
(* Binding to the code: Pattern(r) is a block whose specification triggers  *)
(* rule r; the C03 driver prints the catalogue from this module, runs every *)
(* pattern through the real rule engine, records which rule names fired     *)
(* and validates the emitted block against the original with EVMEquiv at    *)
(* 256 bits.  A rule name the code reports that is not in Names is listed   *)
(* in the evidence (coverage, not an alarm).                                *)
(***************************************************************************)
EXTENDS Words, Integers, Sequences, FiniteSets, TLC

CONSTANT Dom, Dom3        \* operand values as naturals: pairs range over Dom, the third operand over Dom3

VARIABLE r                \* the rule under test

Two  == FromNat(2)
\* an address occupies 160 of 256 bits; at narrower widths the same proportion of the word
ABits    == (WBits * 5) \div 8
AddrMask == NSub(Pow2W(ABits), One, NB)
IsAddr(w) == AND(w, AddrMask) = w
\* operand codes: naturals denote themselves, negative codes the boundary words of the width under test
P255 == Pow2W(WBits - 1)
W(n) == CASE n >= 0 -> FromNat(n)
          [] n = -1 -> MaxW                     [] n = -2 -> P255
          [] n = -3 -> NSub(P255, One, NB)      [] n = -4 -> NSub(MaxW, One, NB)
          [] n = -5 -> AddrMask                 [] n = -6 -> Pow2W(ABits)
          [] n = -7 -> NAdd(P255, One, NB)      [] n = -8 -> Force([i \in 1..NB |-> (i * 37 + 11) % 256])
          [] n = -9 -> Force([i \in 1..NB |-> IF i > NB \div 2 THEN 255 ELSE 0])
          [] OTHER  -> Force([i \in 1..NB |-> (i * 101 + 7 * (0 - n)) % 256])
Dom1  == 0..255
Dom31 == (0..17) \cup {100, 127, 128, 129, 254, 255}
Bnd   == {0, 1, 2, 3, 7, 8, 9, 31, 32, 33, 127, 128, 255, 256, 257, 65535} \cup {0 - k : k \in 1..14}
Bnd3  == {0, 1, 2, 8, 255, 256, 257, -1, -2, -3, -8}
Tiny  == {0, 1}          \* RulesEmit.cfg: only prints the catalogue

\* ---------------------------------------------------------------------------------------------
\* Rules on one instruction (apply_transform).  x, y are arbitrary words.
Unary == << "AND(X,0)", "AND(X,X)", "AND(X,2^256-1)", "OR(X,0)", "OR(X,X)", "XOR(X,X)", "XOR(X,0)",
            "EXP(X,0)", "EXP(X,1)", "EXP(1,X)", "ADD(X,0)", "SUB(X,0)", "SUB(X,X)", "MUL(X,0)", "MUL(X,1)",
            "DIV(X,1)", "DIV(X,0)", "DIV(0,X)", "SDIV(X,1)", "SDIV(X,0)", "SDIV(0,X)",
            "MOD(X,1)", "MOD(X,X)", "MOD(X,0)", "EQ(X,X)", "GT(0,X)", "GT(X,X)", "SGT(X,X)",
            "LT(X,0)", "LT(X,X)", "SLT(X,X)", "ISZ(0)", "ISZ(1)", "SHL(0,X)", "SHR(0,X)", "SHL(X,0)", "SHR(X,0)" >>

\* Rules on an instruction and its consumer (apply_cond_transformation).  Names are the ones the code records
\* ("AND(ADDRESS,2^160)" masks with 2^160-1 like its ORIGIN sibling; DIV(0,X) is recorded as DIV(X,0)); the MOD rules
\* and OR(X,NOT(X)) are present in the code but unreachable (MOD is not in the dispatch list, the OR consumer is
\* looked up as a NOT), so their patterns fire nothing.
Cond == << "ISZ(GT(X,0))", "GT(1,X)", "ISZ(ISZ(GT(X,Y)))", "ISZ(ISZ(SGT(X,Y)))", "ISZ(ISZ(ISZ(X)))", "EQ(1,ISZ(X))",
           "ISZ(LT(0,X))", "LT(X,1)", "ISZ(ISZ(LT(X,Y)))", "ISZ(ISZ(SLT(X,Y)))", "EQ(0,X)", "ISZ(ISZ(EQ(X,Y)))",
           "AND(X,AND(X,Y))", "OR(X,AND(X,Y))", "OR(OR(X,Y),Y)", "AND(X,OR(X,Y))", "XOR(X,XOR(X,Y))",
           "ISZ(XOR(X,Y))", "NOT(NOT(X))", "AND(X,NOT(X))", "OR(X,NOT(X))", "ISZ(SUB(X,Y))",
           "MUL(X,SHL(Y,1))", "MUL(SHL(X,1),Y)", "DIV(X,SHL(Y,1))", "AND(SHL(X,Y),SHL(X,Z))",
           "EXP(0,X)", "EXP(2,X)", "AND(ORIGIN,2^160-1)", "AND(ADDRESS,2^160)" >>

\* Readings that must not be adopted: the behaviour of the pinned code before its fix: commits (X/X = 1, SMOD
\* read as MOD, shifts returning the wrong operand) and the signed variants of the unsigned comparison rules.
Refuted == << "DIV(X,X)=1", "SDIV(X,X)=1", "SMOD=MOD", "SHL(0,X)=0", "SHR(0,X)=0", "SHL(X,0)=X", "SHR(X,0)=X",
              "ISZ(SGT(X,0))=ISZ(X)", "ISZ(SLT(0,X))=ISZ(X)" >>

Valid == Unary \o Cond
Names == Valid \o Refuted

\* the identity of rule n at operands x, y, z (words)
Holds(n, x, y, z) ==
  CASE n = "AND(X,0)"        -> AND(x, Zero) = Zero /\ AND(Zero, x) = Zero
    [] n = "AND(X,X)"        -> AND(x, x) = x
    [] n = "AND(X,2^256-1)"  -> AND(x, MaxW) = x /\ AND(MaxW, x) = x
    [] n = "OR(X,0)"         -> OR(x, Zero) = x /\ OR(Zero, x) = x
    [] n = "OR(X,X)"         -> OR(x, x) = x
    [] n = "XOR(X,X)"        -> XOR(x, x) = Zero
    [] n = "XOR(X,0)"        -> XOR(x, Zero) = x /\ XOR(Zero, x) = x
    [] n = "EXP(X,0)"        -> EXP(x, Zero) = One
    [] n = "EXP(X,1)"        -> EXP(x, One) = x
    [] n = "EXP(1,X)"        -> EXP(One, x) = One
    [] n = "ADD(X,0)"        -> ADD(x, Zero) = x /\ ADD(Zero, x) = x
    [] n = "SUB(X,0)"        -> SUB(x, Zero) = x
    [] n = "SUB(X,X)"        -> SUB(x, x) = Zero
    [] n = "MUL(X,0)"        -> MUL(x, Zero) = Zero /\ MUL(Zero, x) = Zero
    [] n = "MUL(X,1)"        -> MUL(x, One) = x /\ MUL(One, x) = x
    [] n = "DIV(X,1)"        -> DIV(x, One) = x
    [] n = "DIV(X,0)"        -> DIV(x, Zero) = Zero
    [] n = "DIV(0,X)"        -> DIV(Zero, x) = Zero
    [] n = "SDIV(X,1)"       -> SDIV(x, One) = x
    [] n = "SDIV(X,0)"       -> SDIV(x, Zero) = Zero
    [] n = "SDIV(0,X)"       -> SDIV(Zero, x) = Zero
    [] n = "MOD(X,1)"        -> MOD(x, One) = Zero
    [] n = "MOD(X,X)"        -> MOD(x, x) = Zero
    [] n = "MOD(X,0)"        -> MOD(x, Zero) = Zero
    [] n = "EQ(X,X)"         -> EQ(x, x) = One
    [] n = "GT(0,X)"         -> GT(Zero, x) = Zero
    [] n = "GT(X,X)"         -> GT(x, x) = Zero
    [] n = "SGT(X,X)"        -> SGT(x, x) = Zero
    [] n = "LT(X,0)"         -> LT(x, Zero) = Zero
    [] n = "LT(X,X)"         -> LT(x, x) = Zero
    [] n = "SLT(X,X)"        -> SLT(x, x) = Zero
    [] n = "ISZ(0)"          -> ISZERO(Zero) = One
    [] n = "ISZ(1)"          -> ISZERO(One) = Zero
    [] n = "SHL(0,X)"        -> SHL(Zero, x) = x
    [] n = "SHR(0,X)"        -> SHR(Zero, x) = x
    [] n = "SHL(X,0)"        -> SHL(x, Zero) = Zero
    [] n = "SHR(X,0)"        -> SHR(x, Zero) = Zero
    \* conditional rules
    [] n = "ISZ(GT(X,0))"        -> ISZERO(GT(x, Zero)) = ISZERO(x)
    [] n = "GT(1,X)"             -> GT(One, x) = ISZERO(x)
    [] n = "ISZ(ISZ(GT(X,Y)))"   -> ISZERO(ISZERO(GT(x, y))) = GT(x, y)
    [] n = "ISZ(ISZ(SGT(X,Y)))"  -> ISZERO(ISZERO(SGT(x, y))) = SGT(x, y)
    [] n = "ISZ(ISZ(ISZ(X)))"    -> ISZERO(ISZERO(ISZERO(x))) = ISZERO(x)
    [] n = "EQ(1,ISZ(X))"        -> EQ(One, ISZERO(x)) = ISZERO(x) /\ EQ(ISZERO(x), One) = ISZERO(x)
    [] n = "ISZ(LT(0,X))"        -> ISZERO(LT(Zero, x)) = ISZERO(x)
    [] n = "LT(X,1)"             -> LT(x, One) = ISZERO(x)
    [] n = "ISZ(ISZ(LT(X,Y)))"   -> ISZERO(ISZERO(LT(x, y))) = LT(x, y)
    [] n = "ISZ(ISZ(SLT(X,Y)))"  -> ISZERO(ISZERO(SLT(x, y))) = SLT(x, y)
    [] n = "EQ(0,X)"             -> EQ(Zero, x) = ISZERO(x) /\ EQ(x, Zero) = ISZERO(x)
    [] n = "ISZ(ISZ(EQ(X,Y)))"   -> ISZERO(ISZERO(EQ(x, y))) = EQ(x, y)
    [] n = "AND(X,AND(X,Y))"     -> AND(x, AND(x, y)) = AND(x, y) /\ AND(AND(x, y), y) = AND(x, y)
    [] n = "OR(X,AND(X,Y))"      -> OR(x, AND(x, y)) = x /\ OR(AND(y, x), x) = x
    [] n = "OR(OR(X,Y),Y)"       -> OR(OR(x, y), y) = OR(x, y) /\ OR(x, OR(x, y)) = OR(x, y)
    [] n = "AND(X,OR(X,Y))"      -> AND(x, OR(x, y)) = x /\ AND(OR(y, x), x) = x
    [] n = "XOR(X,XOR(X,Y))"     -> XOR(x, XOR(x, y)) = y /\ XOR(XOR(y, x), x) = y
    [] n = "ISZ(XOR(X,Y))"       -> ISZERO(XOR(x, y)) = EQ(x, y)
    [] n = "NOT(NOT(X))"         -> NOT(NOT(x)) = x
    [] n = "AND(X,NOT(X))"       -> AND(x, NOT(x)) = Zero /\ AND(NOT(x), x) = Zero
    [] n = "OR(X,NOT(X))"        -> OR(x, NOT(x)) = MaxW
    [] n = "ISZ(SUB(X,Y))"       -> ISZERO(SUB(x, y)) = EQ(x, y)
    [] n = "MUL(X,SHL(Y,1))"     -> MUL(x, SHL(y, One)) = SHL(y, x)
    [] n = "MUL(SHL(X,1),Y)"     -> MUL(SHL(x, One), y) = SHL(x, y)
    [] n = "DIV(X,SHL(Y,1))"     -> DIV(x, SHL(y, One)) = SHR(y, x)
    [] n = "AND(SHL(X,Y),SHL(X,Z))" -> AND(SHL(x, y), SHL(x, z)) = SHL(x, AND(y, z))
    [] n = "EXP(0,X)"            -> EXP(Zero, x) = ISZERO(x)
    [] n = "EXP(2,X)"            -> EXP(Two, x) = SHL(x, One)
    [] n = "AND(ORIGIN,2^160-1)" -> IsAddr(x) => AND(x, AddrMask) = x /\ AND(AddrMask, x) = x
    [] n = "AND(ADDRESS,2^160)" -> IsAddr(x) => AND(x, AddrMask) = x /\ AND(AddrMask, x) = x
    \* refuted readings
    [] n = "DIV(X,X)=1"          -> DIV(x, x) = One
    [] n = "SDIV(X,X)=1"         -> SDIV(x, x) = One
    [] n = "SMOD=MOD"            -> SMOD(x, y) = MOD(x, y)
    [] n = "SHL(X,0)=X"          -> SHL(x, Zero) = x
    [] n = "SHR(X,0)=X"          -> SHR(x, Zero) = x
    [] n = "ISZ(SGT(X,0))=ISZ(X)" -> ISZERO(SGT(x, Zero)) = ISZERO(x)
    [] n = "ISZ(SLT(0,X))=ISZ(X)" -> ISZERO(SLT(Zero, x)) = ISZERO(x)
    [] n = "SHL(0,X)=0"          -> SHL(Zero, x) = Zero
    [] n = "SHR(0,X)=0"          -> SHR(Zero, x) = Zero

Arity(n) == IF n = "AND(SHL(X,Y),SHL(X,Z))" THEN 3
            ELSE IF n \in {"SMOD=MOD", "ISZ(ISZ(GT(X,Y)))", "ISZ(ISZ(SGT(X,Y)))",
                           "ISZ(ISZ(LT(X,Y)))", "ISZ(ISZ(SLT(X,Y)))", "ISZ(ISZ(EQ(X,Y)))", "AND(X,AND(X,Y))",
                           "OR(X,AND(X,Y))", "OR(OR(X,Y),Y)", "AND(X,OR(X,Y))", "XOR(X,XOR(X,Y))", "ISZ(XOR(X,Y))",
                           "ISZ(SUB(X,Y))", "MUL(X,SHL(Y,1))", "MUL(SHL(X,1),Y)", "DIV(X,SHL(Y,1))"} THEN 2
            ELSE 1

Always(n) == CASE Arity(n) = 1 -> \A a \in Dom : Holds(n, W(a), Zero, Zero)
               [] Arity(n) = 2 -> \A a \in Dom, b \in Dom : Holds(n, W(a), W(b), Zero)
               [] OTHER        -> \A a \in Dom3, b \in Dom3, c \in Dom3 : Holds(n, W(a), W(b), W(c))
Fails(n)  == CASE Arity(n) = 1 -> \E a \in Dom : ~Holds(n, W(a), Zero, Zero)
               [] Arity(n) = 2 -> \E a \in Dom, b \in Dom : ~Holds(n, W(a), W(b), Zero)
               [] OTHER        -> \E a \in Dom3, b \in Dom3, c \in Dom3 : ~Holds(n, W(a), W(b), W(c))

\* ---------------------------------------------------------------------------------------------
\* A block (plain instruction text) whose specification triggers the rule; stack input x on top, then y, z.
Pattern(n) ==
  CASE n = "AND(X,0)" -> "PUSH 0 AND"          [] n = "AND(X,X)" -> "DUP1 AND"
    [] n = "AND(X,2^256-1)" -> "PUSH ffffffffffffffffffffffffffffffffffffffffffffffffffffffffffffffff AND"
    [] n = "OR(X,0)" -> "PUSH 0 OR"            [] n = "OR(X,X)" -> "DUP1 OR"
    [] n = "XOR(X,X)" -> "DUP1 XOR"            [] n = "XOR(X,0)" -> "PUSH 0 XOR"
    [] n = "EXP(X,0)" -> "PUSH 0 SWAP1 EXP"    [] n = "EXP(X,1)" -> "PUSH 1 SWAP1 EXP"
    [] n = "EXP(1,X)" -> "PUSH 1 EXP"          [] n = "ADD(X,0)" -> "PUSH 0 ADD"
    [] n = "SUB(X,0)" -> "PUSH 0 SWAP1 SUB"    [] n = "SUB(X,X)" -> "DUP1 SUB"
    [] n = "MUL(X,0)" -> "PUSH 0 MUL"          [] n = "MUL(X,1)" -> "PUSH 1 MUL"
    [] n = "DIV(X,1)" -> "PUSH 1 SWAP1 DIV"    [] n = "DIV(X,0)" -> "PUSH 0 SWAP1 DIV"
    [] n = "DIV(0,X)" -> "PUSH 0 DIV"          [] n = "SDIV(X,1)" -> "PUSH 1 SWAP1 SDIV"
    [] n = "SDIV(X,0)" -> "PUSH 0 SWAP1 SDIV"  [] n = "SDIV(0,X)" -> "PUSH 0 SDIV"
    [] n = "MOD(X,1)" -> "PUSH 1 SWAP1 MOD"    [] n = "MOD(X,X)" -> "DUP1 MOD"
    [] n = "MOD(X,0)" -> "PUSH 0 SWAP1 MOD"    [] n = "EQ(X,X)" -> "DUP1 EQ"
    [] n = "GT(0,X)" -> "PUSH 0 GT"            [] n = "GT(X,X)" -> "DUP1 GT"
    [] n = "SGT(X,X)" -> "DUP1 SGT"            [] n = "LT(X,0)" -> "PUSH 0 SWAP1 LT"
    [] n = "LT(X,X)" -> "DUP1 LT"              [] n = "SLT(X,X)" -> "DUP1 SLT"
    [] n = "ISZ(0)" -> "PUSH 0 ISZERO"         [] n = "ISZ(1)" -> "PUSH 1 ISZERO"
    [] n = "SHL(0,X)" -> "PUSH 0 SHL"          [] n = "SHR(0,X)" -> "PUSH 0 SHR"
    [] n = "SHL(X,0)" -> "PUSH 0 SWAP1 SHL"    [] n = "SHR(X,0)" -> "PUSH 0 SWAP1 SHR"
    [] n = "ISZ(GT(X,0))" -> "PUSH 0 SWAP1 GT ISZERO"
    [] n = "GT(1,X)" -> "PUSH 1 GT"
    [] n = "ISZ(ISZ(GT(X,Y)))" -> "GT ISZERO ISZERO"
    [] n = "ISZ(ISZ(SGT(X,Y)))" -> "SGT ISZERO ISZERO"
    [] n = "ISZ(ISZ(ISZ(X)))" -> "ISZERO ISZERO ISZERO"
    [] n = "EQ(1,ISZ(X))" -> "ISZERO PUSH 1 EQ"
    [] n = "ISZ(LT(0,X))" -> "PUSH 0 LT ISZERO"
    [] n = "LT(X,1)" -> "PUSH 1 SWAP1 LT"
    [] n = "ISZ(ISZ(LT(X,Y)))" -> "LT ISZERO ISZERO"
    [] n = "ISZ(ISZ(SLT(X,Y)))" -> "SLT ISZERO ISZERO"
    [] n = "EQ(0,X)" -> "PUSH 0 EQ"
    [] n = "ISZ(ISZ(EQ(X,Y)))" -> "EQ ISZERO ISZERO"
    [] n = "AND(X,AND(X,Y))" -> "DUP2 AND AND"
    [] n = "OR(X,AND(X,Y))" -> "DUP2 AND OR"
    [] n = "OR(OR(X,Y),Y)" -> "DUP2 OR OR"
    [] n = "AND(X,OR(X,Y))" -> "DUP2 OR AND"
    [] n = "XOR(X,XOR(X,Y))" -> "DUP2 XOR XOR"
    [] n = "ISZ(XOR(X,Y))" -> "XOR ISZERO"
    [] n = "NOT(NOT(X))" -> "NOT NOT"
    [] n = "AND(X,NOT(X))" -> "DUP1 NOT AND"
    [] n = "OR(X,NOT(X))" -> "DUP1 NOT OR"
    [] n = "ISZ(SUB(X,Y))" -> "SUB ISZERO"
    [] n = "MUL(X,SHL(Y,1))" -> "SWAP1 PUSH 1 SWAP1 SHL SWAP1 MUL"
    [] n = "MUL(SHL(X,1),Y)" -> "PUSH 1 SWAP1 SHL MUL"
    [] n = "DIV(X,SHL(Y,1))" -> "SWAP1 PUSH 1 SWAP1 SHL SWAP1 DIV"
    [] n = "AND(SHL(X,Y),SHL(X,Z))" -> "SWAP2 DUP2 SHL SWAP2 SWAP1 SHL AND"
    [] n = "EXP(0,X)" -> "PUSH 0 EXP"
    [] n = "EXP(2,X)" -> "PUSH 2 EXP"
    [] n = "AND(ORIGIN,2^160-1)" -> "ORIGIN PUSH ffffffffffffffffffffffffffffffffffffffff AND"
    [] n = "AND(ADDRESS,2^160)" -> "ADDRESS PUSH ffffffffffffffffffffffffffffffffffffffff AND"
    [] OTHER -> ""

Init == r = 1 /\ PrintT(<<"CATALOGUE", Len(Unary), Len(Cond), Len(Refuted)>>)
Next == r < Len(Names) /\ r' = r + 1
Spec == Init /\ [][Next]_r

Sound    == r <= Len(Valid) => (Always(Names[r]) \/ ~PrintT(<<"UNSOUND", Names[r]>>))
Rejected == r > Len(Valid)  => (Fails(Names[r])  \/ ~PrintT(<<"NOT-REFUTED", Names[r]>>))
Emit     == r <= Len(Valid) => PrintT(<<"RULE", Names[r], Arity(Names[r]), Pattern(Names[r])>>)
Distinct == Cardinality({Names[i] : i \in 1..Len(Names)}) = Len(Names)
Patterned == \A i \in 1..Len(Valid) : Pattern(Valid[i]) # ""
Covered  == TLCGet("stats").distinct = Len(Names)
=============================================================================
