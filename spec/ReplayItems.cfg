SPECIFICATION Spec
CONSTANT NB = 32
POSTCONDITION Accepted
CHECK_DEADLOCK FALSE
