SPECIFICATION Spec
CONSTANTS
  Blocks = {1, 2, 3}
  Leaky = TRUE
  MaxHist = 4
INVARIANT ResultIndependentOfHistory
CHECK_DEADLOCK FALSE
