---------------------------- MODULE SkeletonGen ----------------------------
(***************************************************************************)
(* Generator (G) for C09 / C17: the shapes of synthesized solc documents.    *)
(* A shape fixes everything about a document except the bodies of its        *)
(* blocks (those come from SeqGen.tla) :                                     *)
(*   noasm   a contract without asm: "none", written {} ("empty"), written   *)
(*           {"asm": null} ("null")                                          *)
(*   sib     a second code-bearing sub-assembly next to the run-time one in the  *)
(*           top-level .data (e.g. the creation code of a child contract)        *)
(*   nest    levels of .data below the run-time assembly: 0, 1 (hex string   *)
(*           entries), 2 (a nested assembly with its own .code and .data)    *)
(*   tophex  a hex string entry next to the run-time assembly                *)
(*   aux     .auxdata present                                                *)
(*   src     sourceList present                                              *)
(*   jt      annotation of jumps: "none", as "value" (solc < 0.8.14), as the *)
(*           field "jumpType"                                                *)
(*   md      modifierDepth present on some items                             *)
(*   two     a second contract with assembly (for contract selection)        *)
(* The concrete JSON of a shape lives with the harness (harness/skeldoc.py), *)
(* as for SeqGen.  One initial state per shape; the invariant prints it.     *)
(***************************************************************************)
EXTENDS Naturals, TLC

Shapes == [noasm : {"none", "empty", "null"}, nest : 0..2, tophex : BOOLEAN, aux : BOOLEAN, src : BOOLEAN,
           jt : {"none", "value", "field"}, md : BOOLEAN, two : BOOLEAN, sib : BOOLEAN]

VARIABLE sh
Init == sh \in Shapes
Next == UNCHANGED sh
Spec == Init /\ [][Next]_sh

Emit == PrintT(<<"SH", sh.noasm, sh.nest, sh.tophex, sh.aux, sh.src, sh.jt, sh.md, sh.two, sh.sib>>)
=============================================================================
