------------------------------ MODULE Lockstep ------------------------------
(***************************************************************************)
(* Validator (V) of C13: all runs of one (input, options) produce the same  *)
(* trace, event for event.                                                  *)
(*   Cases[c] = [id, runs], runs[j] = [label, events], an event is          *)
(*   [k, b, v]: kind (the component: "sfs" specification with identifiers,  *)
(*   "greedy" id lists, "optimized" emitted block, "bounds", "stats",       *)
(*   "exception", "file" output bytes, ...), block index, value (canonical  *)
(*   text or a hash of it).  runs[1] is the reference run (hash seed 0);    *)
(*   label names the process environment (hash seed, load).                 *)
(* Property:  \A p, q : trace_p = trace_q.  Equality is transitive, so each  *)
(* run is compared with the reference run; the walk is in lockstep, one TLC *)
(* state per compared event, and stops at the first event that differs:     *)
(*   <<"VERDICT", id, label_1, label_j, position, component>>               *)
(* component is the kind of the reference event ("length" when one trace is *)
(* a proper prefix of the other, "kind" when the kinds differ).             *)
(***************************************************************************)
EXTENDS Naturals, Sequences, Json, IOUtils, TLC

Cases == JsonDeserialize(IOEnv.CASES).cases

\* the property for one case (stated; the batch below finds the first difference per run)
Deterministic(cs) == \A j \in 1..Len(cs.runs) : cs.runs[j].events = cs.runs[1].events

VARIABLES c, j, pos

NextCase == TLCSet(1, c) /\ c' = c + 1 /\ j' = 2 /\ pos' = 1
NextRun  == TLCSet(2, TLCGet(2) + 1) /\ j' = j + 1 /\ pos' = 1 /\ c' = c

Init == c = 1 /\ j = 2 /\ pos = 1 /\ TLCSet(1, 0) /\ TLCSet(2, 0)

Next ==
  /\ c <= Len(Cases)
  /\ LET cs == Cases[c] IN
     IF j > Len(cs.runs) THEN NextCase
     ELSE LET ref == cs.runs[1].events
              ev  == cs.runs[j].events
              Report(comp) == PrintT(<<"VERDICT", cs.id, cs.runs[1].label, cs.runs[j].label, pos, comp>>)
          IN  IF pos > Len(ref) /\ pos > Len(ev) THEN NextRun
              ELSE IF pos > Len(ref) \/ pos > Len(ev) THEN Report("length") /\ NextRun
              ELSE IF ref[pos] = ev[pos] THEN pos' = pos + 1 /\ UNCHANGED <<c, j>>
              ELSE IF ref[pos].k # ev[pos].k \/ ref[pos].b # ev[pos].b THEN Report("kind") /\ NextRun
              ELSE Report(ref[pos].k) /\ NextRun
Spec == Init /\ [][Next]_<<c, j, pos>>

Accepted ==
  /\ PrintT(<<"CONSUMED", TLCGet(1), Len(Cases), TLCGet(2)>>)
  /\ TLCGet(1) = Len(Cases)
=============================================================================
