SPECIFICATION Spec
CONSTANTS
  NB = 2
  SecOf <- Sec12
  MaxSubs = 2
  Contain = "all"
  WithReplay = TRUE
  MaxTamper = 1
INVARIANTS TypeOK NoEscape FailureCostsOneBlock KeepOrRevert OutSound LogMatchesOutput ReplayReproduces TamperedLogErrorsOrEquivalent
PROPERTIES ReplayEnds
CHECK_DEADLOCK FALSE
