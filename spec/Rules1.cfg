SPECIFICATION Spec
CONSTANT NB = 1
CONSTANT Dom <- Dom1
CONSTANT Dom3 <- Dom31
INVARIANT Sound
INVARIANT Rejected
INVARIANT Emit
INVARIANT Distinct
INVARIANT Patterned
POSTCONDITION Covered
CHECK_DEADLOCK FALSE
