------------------------------ MODULE LogMutate ------------------------------
(***************************************************************************)
(* Generator (G) for C11: all single mutations of a recorded optimization    *)
(* log.  Input (JSON, env LOG): [logs |-> Seq([entries |-> Seq([name, blk,   *)
(* ids]), first, last]), extra |-> Seq(id)] - the logs written by runs, one  *)
(* entry per optimized sub-block (blk = the basic block it belongs to), and  *)
(* the range of entries to mutate.  Per log l, entry e in first..last and    *)
(* position i of its id list:                                                *)
(*   subst   ids[i] replaced by every other id of the same block and by      *)
(*           every id of other blocks (foreign) and by the extra ids         *)
(*   delete  ids[i] removed          dup     ids[i] repeated                 *)
(*   swap    ids[i], ids[i+1] exchanged (adjacent transposition)             *)
(*   index   a DUPk / SWAPk id replaced by the neighbouring depth k+1 / k-1  *)
(*           (the sequence keeps its stack shape, another value is used)     *)
(*   insert  any pool id inserted before position i (i = Len+1: appended)    *)
(* and per entry: dropentry (the entry disappears: the sub-block is reported *)
(* as not optimized), empty (empty id list), moveto (the id list is filed    *)
(* under another entry's name and vice versa: reordered log), truncate (only *)
(* the first e - 1 entries are kept).  Every reachable initial state is one  *)
(* mutant, printed as <<"M", l, e, kind, i, id, e2, new id list>>; the harness*)
(* writes the log with entry e replaced accordingly and replays it.          *)
(***************************************************************************)
EXTENDS Naturals, Sequences, FiniteSets, Json, IOUtils, TLC

In == JsonDeserialize(IOEnv.LOG)       \* [logs |-> Seq([entries, first, last]), extra |-> Seq(id)]

VARIABLE m

Rng(f) == {f[i] : i \in DOMAIN f}
Ent(l) == In.logs[l].entries
SameBlock(l, e) == UNION {Rng(Ent(l)[x].ids) : x \in {y \in 1..Len(Ent(l)) : Ent(l)[y].blk = Ent(l)[e].blk}}
Foreign(l, e)   == UNION {Rng(Ent(l)[x].ids) : x \in {y \in 1..Len(Ent(l)) : Ent(l)[y].blk # Ent(l)[e].blk}}
Pool(l, e)      == SameBlock(l, e) \cup Foreign(l, e) \cup Rng(In.extra)

Without(s, i)     == SubSeq(s, 1, i - 1) \o SubSeq(s, i + 1, Len(s))
InsertAt(s, i, x) == SubSeq(s, 1, i - 1) \o <<x>> \o SubSeq(s, i, Len(s))

\* DUPk / SWAPk with the neighbouring depths
Neighbours(id) ==
  UNION {{pre \o ToString(j) : j \in {k - 1, k + 1} \cap (1..16)} : <<pre, k>> \in {pk \in {"DUP", "SWAP"} \X (1..16) : id = pk[1] \o ToString(pk[2])}}

Mutants(l, e) ==
  LET ids == Ent(l)[e].ids  L == Len(ids) IN
       {[l |-> l, e |-> e, kind |-> "subst", i |-> i, id |-> x, e2 |-> 0, ids |-> [ids EXCEPT ![i] = x]] : i \in 1..L, x \in Pool(l, e)}
  \cup {[l |-> l, e |-> e, kind |-> "index", i |-> i, id |-> x, e2 |-> 0, ids |-> [ids EXCEPT ![i] = x]] : <<i, x>> \in UNION {{<<j, y>> : y \in Neighbours(ids[j])} : j \in 1..L}}
  \cup {[l |-> l, e |-> e, kind |-> "delete", i |-> i, id |-> "", e2 |-> 0, ids |-> Without(ids, i)] : i \in 1..L}
  \cup {[l |-> l, e |-> e, kind |-> "dup", i |-> i, id |-> "", e2 |-> 0, ids |-> InsertAt(ids, i, ids[i])] : i \in 1..L}
  \cup {[l |-> l, e |-> e, kind |-> "swap", i |-> i, id |-> "", e2 |-> 0, ids |-> [ids EXCEPT ![i] = ids[i + 1], ![i + 1] = ids[i]]] : i \in 1..(L - 1)}
  \cup {[l |-> l, e |-> e, kind |-> "insert", i |-> i, id |-> x, e2 |-> 0, ids |-> InsertAt(ids, i, x)] : i \in 1..(L + 1), x \in Pool(l, e)}
  \cup {[l |-> l, e |-> e, kind |-> "dropentry", i |-> 0, id |-> "", e2 |-> 0, ids |-> <<>>],
        [l |-> l, e |-> e, kind |-> "empty", i |-> 0, id |-> "", e2 |-> 0, ids |-> <<>>],
        [l |-> l, e |-> e, kind |-> "truncate", i |-> 0, id |-> "", e2 |-> 0, ids |-> <<>>]}
  \cup {[l |-> l, e |-> e, kind |-> "moveto", i |-> 0, id |-> "", e2 |-> x, ids |-> Ent(l)[x].ids] : x \in (1..Len(Ent(l))) \ {e}}

\* a mutation that leaves the entry as it was is not a mutant
Changed(x) == x.kind \in {"dropentry", "empty", "truncate"} \/ x.ids # Ent(x.l)[x.e].ids

Range(l) == In.logs[l].first..(IF In.logs[l].last < Len(Ent(l)) THEN In.logs[l].last ELSE Len(Ent(l)))
Init == m \in {x \in UNION {UNION {Mutants(l, e) : e \in Range(l)} : l \in 1..Len(In.logs)} : Changed(x)}
Next == UNCHANGED m
Spec == Init /\ [][Next]_m

Emit == PrintT(<<"M", m.l, m.e, m.kind, m.i, m.id, m.e2, m.ids>>)
=============================================================================
