------------------------------ MODULE LogMutate ------------------------------
(***************************************************************************)
(* Generator (G) for C11: all single mutations of a recorded optimization    *)
(* log.  Input (JSON, env LOG): [entries |-> Seq([name, blk, ids]), extra |->*)
(* Seq(id), first, last] - the log written by a run, one entry per optimized *)
(* sub-block (blk = the basic block it belongs to), and the range of entries *)
(* to mutate.  Per entry e in first..last and position i of its id list:     *)
(*   subst   ids[i] replaced by every other id of the same block and by      *)
(*           every id of other blocks (foreign) and by the extra ids         *)
(*   delete  ids[i] removed          dup     ids[i] repeated                 *)
(*   swap    ids[i], ids[i+1] exchanged (adjacent transposition)             *)
(*   insert  any pool id inserted before position i (i = Len+1: appended)    *)
(* and per entry: dropentry (the entry disappears: the sub-block is reported *)
(* as not optimized), empty (empty id list), moveto (the id list is filed    *)
(* under another entry's name and vice versa: reordered log), truncate (only *)
(* the first e - 1 entries are kept).  Every reachable initial state is one  *)
(* mutant, printed as <<"M", e, kind, i, id, e2, new id list>>; the harness  *)
(* writes the log with entry e replaced accordingly and replays it.          *)
(***************************************************************************)
EXTENDS Naturals, Sequences, FiniteSets, Json, IOUtils, TLC

In      == JsonDeserialize(IOEnv.LOG)
Entries == In.entries
N       == Len(Entries)

VARIABLE m

Rng(f)      == {f[i] : i \in DOMAIN f}
SameBlock(e) == UNION {Rng(Entries[x].ids) : x \in {y \in 1..N : Entries[y].blk = Entries[e].blk}}
Foreign(e)   == UNION {Rng(Entries[x].ids) : x \in {y \in 1..N : Entries[y].blk # Entries[e].blk}}
Pool(e)      == SameBlock(e) \cup Foreign(e) \cup Rng(In.extra)

Without(s, i)   == SubSeq(s, 1, i - 1) \o SubSeq(s, i + 1, Len(s))
InsertAt(s, i, x) == SubSeq(s, 1, i - 1) \o <<x>> \o SubSeq(s, i, Len(s))

Mutants(e) ==
  LET ids == Entries[e].ids  L == Len(ids) IN
       {[e |-> e, kind |-> "subst", i |-> i, id |-> x, e2 |-> 0, ids |-> [ids EXCEPT ![i] = x]] : i \in 1..L, x \in Pool(e)}
  \cup {[e |-> e, kind |-> "delete", i |-> i, id |-> "", e2 |-> 0, ids |-> Without(ids, i)] : i \in 1..L}
  \cup {[e |-> e, kind |-> "dup", i |-> i, id |-> "", e2 |-> 0, ids |-> InsertAt(ids, i, ids[i])] : i \in 1..L}
  \cup {[e |-> e, kind |-> "swap", i |-> i, id |-> "", e2 |-> 0, ids |-> [ids EXCEPT ![i] = ids[i + 1], ![i + 1] = ids[i]]] : i \in 1..(L - 1)}
  \cup {[e |-> e, kind |-> "insert", i |-> i, id |-> x, e2 |-> 0, ids |-> InsertAt(ids, i, x)] : i \in 1..(L + 1), x \in Pool(e)}
  \cup {[e |-> e, kind |-> "dropentry", i |-> 0, id |-> "", e2 |-> 0, ids |-> <<>>],
        [e |-> e, kind |-> "empty", i |-> 0, id |-> "", e2 |-> 0, ids |-> <<>>],
        [e |-> e, kind |-> "truncate", i |-> 0, id |-> "", e2 |-> 0, ids |-> <<>>]}
  \cup {[e |-> e, kind |-> "moveto", i |-> 0, id |-> "", e2 |-> x, ids |-> Entries[x].ids] : x \in (1..N) \ {e}}

\* a mutation that leaves the entry as it was is not a mutant
Changed(x) == x.kind \in {"dropentry", "empty", "truncate"} \/ x.ids # Entries[x.e].ids

Init == m \in {x \in UNION {Mutants(e) : e \in In.first..(IF In.last < N THEN In.last ELSE N)} : Changed(x)}
Next == UNCHANGED m
Spec == Init /\ [][Next]_m

Emit == PrintT(<<"M", m.e, m.kind, m.i, m.id, m.e2, m.ids>>)
=============================================================================
