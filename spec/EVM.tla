-------------------------------- MODULE EVM --------------------------------
(***************************************************************************)
(* Concrete semantics of a basic block of solc assembly items.              *)
(*                                                                         *)
(* An instruction is a record [op |-> STRING, k |-> Nat, w |-> byte seq]:    *)
(*   op  opcode name; DUPk / SWAPk are op "DUP"/"SWAP" with depth k;        *)
(*   w   little-endian bytes of the pushed constant (PUSH), or of the word   *)
(*       the harness derived from (kind, operand) for a pseudo-push.        *)
(* The machine state is [stack, mem, sto, obs, halt, ms, ss]; the stack top  *)
(* is element 1.  Memory is a finite map over touched addresses with an      *)
(* arbitrary (seeded) initial content, storage likewise.  Everything the     *)
(* outside world can see is appended to obs as an event.                    *)
(*                                                                         *)
(* Gas exhaustion is not modelled: an access above 2^20 or a data range      *)
(* above 4 KiB ends the run with halt = "oog" (verdict: undecided).         *)
(***************************************************************************)
EXTENDS Words, TLC

MemLimit == 1048576
MaxRange == 4096

-----------------------------------------------------------------------------
(* arities: <<popped, pushed>>                                              *)
ArityTab ==
  [ADD |-> <<2,1>>, MUL |-> <<2,1>>, SUB |-> <<2,1>>, DIV |-> <<2,1>>, SDIV |-> <<2,1>>,
   MOD |-> <<2,1>>, SMOD |-> <<2,1>>, ADDMOD |-> <<3,1>>, MULMOD |-> <<3,1>>, EXP |-> <<2,1>>,
   SIGNEXTEND |-> <<2,1>>, LT |-> <<2,1>>, GT |-> <<2,1>>, SLT |-> <<2,1>>, SGT |-> <<2,1>>,
   EQ |-> <<2,1>>, ISZERO |-> <<1,1>>, AND |-> <<2,1>>, OR |-> <<2,1>>, XOR |-> <<2,1>>,
   NOT |-> <<1,1>>, BYTE |-> <<2,1>>, SHL |-> <<2,1>>, SHR |-> <<2,1>>, SAR |-> <<2,1>>,
   KECCAK256 |-> <<2,1>>, SHA3 |-> <<2,1>>,
   ADDRESS |-> <<0,1>>, BALANCE |-> <<1,1>>, ORIGIN |-> <<0,1>>, CALLER |-> <<0,1>>,
   CALLVALUE |-> <<0,1>>, CALLDATALOAD |-> <<1,1>>, CALLDATASIZE |-> <<0,1>>,
   CALLDATACOPY |-> <<3,0>>, CODESIZE |-> <<0,1>>, CODECOPY |-> <<3,0>>, GASPRICE |-> <<0,1>>,
   EXTCODESIZE |-> <<1,1>>, EXTCODECOPY |-> <<4,0>>, RETURNDATASIZE |-> <<0,1>>,
   RETURNDATACOPY |-> <<3,0>>, EXTCODEHASH |-> <<1,1>>, BLOCKHASH |-> <<1,1>>,
   COINBASE |-> <<0,1>>, TIMESTAMP |-> <<0,1>>, NUMBER |-> <<0,1>>, DIFFICULTY |-> <<0,1>>,
   PREVRANDAO |-> <<0,1>>, GASLIMIT |-> <<0,1>>, CHAINID |-> <<0,1>>, SELFBALANCE |-> <<0,1>>,
   BASEFEE |-> <<0,1>>,
   POP |-> <<1,0>>, MLOAD |-> <<1,1>>, MSTORE |-> <<2,0>>, MSTORE8 |-> <<2,0>>,
   SLOAD |-> <<1,1>>, SSTORE |-> <<2,0>>, JUMP |-> <<1,0>>, JUMPI |-> <<2,0>>, GAS |-> <<0,1>>,
   JUMPDEST |-> <<0,0>>, tag |-> <<0,0>>,
   LOG0 |-> <<2,0>>, LOG1 |-> <<3,0>>, LOG2 |-> <<4,0>>, LOG3 |-> <<5,0>>, LOG4 |-> <<6,0>>,
   CREATE |-> <<3,1>>, CALL |-> <<7,1>>, CALLCODE |-> <<7,1>>, RETURN |-> <<2,0>>,
   DELEGATECALL |-> <<6,1>>, CREATE2 |-> <<4,1>>, STATICCALL |-> <<6,1>>, REVERT |-> <<2,0>>,
   INVALID |-> <<0,0>>, STOP |-> <<0,0>>, SELFDESTRUCT |-> <<1,0>>, ASSIGNIMMUTABLE |-> <<2,0>>,
   PUSH |-> <<0,1>>, PUSH0 |-> <<0,1>>, PUSHTAG |-> <<0,1>>, PUSHLIB |-> <<0,1>>,
   PUSHSUBSIZE |-> <<0,1>>, PUSHSUB |-> <<0,1>>, PUSHDEPLOYADDRESS |-> <<0,1>>,
   PUSHDATA |-> <<0,1>>, PUSHSIZE |-> <<0,1>>, PUSHIMMUTABLE |-> <<0,1>>]

Known(ins) == ins.op \in DOMAIN ArityTab \/ (ins.op \in {"DUP", "SWAP"} /\ ins.k \in 1..16)
Pops(ins)  == IF ins.op = "DUP" THEN ins.k ELSE IF ins.op = "SWAP" THEN ins.k + 1 ELSE ArityTab[ins.op][1]
Pushes(ins) == IF ins.op = "DUP" THEN ins.k + 1 ELSE IF ins.op = "SWAP" THEN ins.k + 1 ELSE ArityTab[ins.op][2]

\* least input depth a block needs, and its net effect on the height (both static)
DepthScan(prog) ==
  FoldLeft(LAMBDA acc, ins :
             LET p == Pops(ins)  q == Pushes(ins)
             IN  IF p > acc.cur THEN [need |-> acc.need + (p - acc.cur), cur |-> q]
                 ELSE [need |-> acc.need, cur |-> acc.cur - p + q],
           [need |-> 0, cur |-> 0], prog)
MinDepth(prog) == DepthScan(prog).need
\* height after minus height before (may be negative): represented as <<pushed, popped>> totals
DeltaPair(prog) ==
  FoldLeft(LAMBDA acc, ins : <<acc[1] + Pushes(ins), acc[2] + Pops(ins)>>, <<0, 0>>, prog)
SameDelta(p1, p2) ==
  LET d1 == DeltaPair(p1)  d2 == DeltaPair(p2) IN d1[1] + d2[2] = d2[1] + d1[2]

-----------------------------------------------------------------------------
(* generic environment: fixed pseudo-random functions                        *)

\* two running polynomial hashes of a byte sequence, expanded to a word;
\* limbs 1..3 and 4..6 carry the two accumulators, so distinct pairs give distinct words
HashAcc(bs) ==
  FoldLeft(LAMBDA acc, j : <<(acc[1] * 131 + bs[j] + 1) % 1000003,
                             (acc[2] * 257 + bs[j] * 3 + j) % 999983>>,
           <<Len(bs) + 7, 3 * Len(bs) + 11>>, Idx(Len(bs)))
HashW(bs) ==
  LET h == HashAcc(bs) IN
  Force([i \in 1..NB |->
           IF i <= 3 THEN (h[1] \div (256 ^ (i - 1))) % 256
           ELSE IF i <= 6 THEN (h[2] \div (256 ^ (i - 4))) % 256
           ELSE ((h[1] % 4093) * (i + 2) + (h[2] % 4099) * (2 * i + 1) + i * i) % 256])
\* same, truncated to 160 bits (addresses)
Mask160(w) == Force([i \in 1..NB |-> IF i <= 20 THEN w[i] ELSE 0])

BytesOf(w) == [i \in 1..NB |-> w[i]]
EnvIdx ==
  [ADDRESS |-> 1, ORIGIN |-> 2, CALLER |-> 3, CALLVALUE |-> 4, CALLDATASIZE |-> 5, CODESIZE |-> 6,
   GASPRICE |-> 7, COINBASE |-> 8, TIMESTAMP |-> 9, NUMBER |-> 10, DIFFICULTY |-> 11,
   PREVRANDAO |-> 11, GASLIMIT |-> 12, CHAINID |-> 13, SELFBALANCE |-> 14, BASEFEE |-> 15,
   BALANCE |-> 21, CALLDATALOAD |-> 22, EXTCODESIZE |-> 23, EXTCODEHASH |-> 24, BLOCKHASH |-> 25,
   RETURNDATASIZE |-> 30]
Env0(op) == LET w == HashW(<<EnvIdx[op], 77>>)
            IN  IF op \in {"ADDRESS", "ORIGIN", "CALLER", "COINBASE"} THEN Mask160(w) ELSE w
Env1(op, a) ==
  IF op = "BALANCE" /\ a = Env0("ADDRESS") THEN Env0("SELFBALANCE")
  ELSE HashW(<<EnvIdx[op], 78>> \o BytesOf(a))
EvWord(idx)    == HashW(<<200, idx % 256, idx \div 256>>)
EvByte(idx, j) == (idx * 37 + j * 11 + (j \div 32) * 5 + 3) % 256
InitByte(ms, a) == (a * 31 + (a \div 32) * 7 + ms * 17 + 5) % 256
InitSto(ss, key) == HashW(<<90, ss>> \o BytesOf(key))

-----------------------------------------------------------------------------
(* memory                                                                    *)
MemAt(st, a) == IF a \in DOMAIN st.mem THEN st.mem[a] ELSE InitByte(st.ms, a)
ReadBytes(st, a, n) == IF n = 0 THEN <<>> ELSE Force([i \in 1..n |-> MemAt(st, a + i - 1)])
WriteBytes(mem, a, bs) ==
  IF Len(bs) = 0 THEN mem
  ELSE LET R == a..(a + Len(bs) - 1)
       IN  [x \in (DOMAIN mem) \cup R |-> IF x \in R THEN bs[x - a + 1] ELSE mem[x]]
\* memory is big-endian: the first byte is the most significant limb
WordOfMem(bs) == Force([i \in 1..NB |-> bs[NB + 1 - i]])
MemOfWord(w)  == Force([i \in 1..NB |-> w[NB + 1 - i]])
\* a (offset, length) pair of words: -1 = out of the modelled range, otherwise the offset
RangeOK(off, len) ==
  LET l == Small(len)  o == Small(off)
  IN  IF l = 0 THEN TRUE
      ELSE l > 0 /\ l <= MaxRange /\ o >= 0 /\ o + l <= MemLimit
RangeLen(len) == Small(len)
RangeOff(off, len) == IF Small(len) = 0 THEN 0 ELSE Small(off)

-----------------------------------------------------------------------------
Rest(s, k) == SubSeq(s, k + 1, Len(s))
Event(op, args, data, tg) == [op |-> op, args |-> args, data |-> data, tag |-> tg]

InitState(stack, ms, ss) ==
  [stack |-> stack, mem |-> [x \in {} |-> 0], sto |-> [x \in {} |-> 0], obs |-> <<>>,
   halt |-> "none", ms |-> ms, ss |-> ss]

Bin(op, a, b) ==
  CASE op = "ADD" -> ADD(a, b) [] op = "MUL" -> MUL(a, b) [] op = "SUB" -> SUB(a, b)
    [] op = "DIV" -> DIV(a, b) [] op = "SDIV" -> SDIV(a, b) [] op = "MOD" -> MOD(a, b)
    [] op = "SMOD" -> SMOD(a, b) [] op = "EXP" -> EXP(a, b) [] op = "SIGNEXTEND" -> SIGNEXTEND(a, b)
    [] op = "LT" -> LT(a, b) [] op = "GT" -> GT(a, b) [] op = "SLT" -> SLT(a, b)
    [] op = "SGT" -> SGT(a, b) [] op = "EQ" -> EQ(a, b) [] op = "AND" -> AND(a, b)
    [] op = "OR" -> OR(a, b) [] op = "XOR" -> XOR(a, b) [] op = "BYTE" -> BYTE(a, b)
    [] op = "SHL" -> SHL(a, b) [] op = "SHR" -> SHR(a, b) [] op = "SAR" -> SAR(a, b)

BinOps  == {"ADD", "MUL", "SUB", "DIV", "SDIV", "MOD", "SMOD", "EXP", "SIGNEXTEND", "LT", "GT",
            "SLT", "SGT", "EQ", "AND", "OR", "XOR", "BYTE", "SHL", "SHR", "SAR"}
Env0Ops == {"ADDRESS", "ORIGIN", "CALLER", "CALLVALUE", "CALLDATASIZE", "CODESIZE", "GASPRICE",
            "COINBASE", "TIMESTAMP", "NUMBER", "DIFFICULTY", "PREVRANDAO", "GASLIMIT", "CHAINID",
            "SELFBALANCE", "BASEFEE"}
Env1Ops == {"BALANCE", "CALLDATALOAD", "EXTCODESIZE", "EXTCODEHASH", "BLOCKHASH"}
PushOps == {"PUSH", "PUSHTAG", "PUSHLIB", "PUSHSUBSIZE", "PUSHSUB", "PUSHDEPLOYADDRESS",
            "PUSHDATA", "PUSHSIZE", "PUSHIMMUTABLE"}
LogOps  == {"LOG0", "LOG1", "LOG2", "LOG3", "LOG4"}
CallOps == {"CALL", "CALLCODE", "DELEGATECALL", "STATICCALL"}
CopyOps == {"CALLDATACOPY", "CODECOPY", "RETURNDATACOPY", "EXTCODECOPY"}
Terminals == {"JUMP", "JUMPI", "STOP", "RETURN", "REVERT", "INVALID", "SELFDESTRUCT"}

Halt(st, h) == [st EXCEPT !.halt = h]
CallsSoFar(st) == Cardinality({i \in 1..Len(st.obs) : st.obs[i].op \in CallOps \cup {"CREATE", "CREATE2"}})

\* one instruction
Step(st, ins) ==
  IF st.halt # "none" THEN st
  ELSE IF ~Known(ins) THEN Halt(st, "unsupported")
  ELSE IF Len(st.stack) < Pops(ins) THEN Halt(st, "underflow")
  ELSE
  LET op == ins.op  s == st.stack  ev == Len(st.obs) + 1 IN
  CASE op \in {"tag", "JUMPDEST"} -> st
    [] op \in PushOps ->
         IF Len(ins.w) > NB THEN Halt(st, "badpush")
         ELSE [st EXCEPT !.stack = <<Pad(ins.w)>> \o s]
    [] op = "PUSH0" -> [st EXCEPT !.stack = <<Zero>> \o s]
    [] op = "POP"  -> [st EXCEPT !.stack = Tail(s)]
    [] op = "DUP"  -> [st EXCEPT !.stack = <<s[ins.k]>> \o s]
    [] op = "SWAP" -> [st EXCEPT !.stack = [s EXCEPT ![1] = s[ins.k + 1], ![ins.k + 1] = s[1]]]
    [] op \in BinOps -> [st EXCEPT !.stack = <<Bin(op, s[1], s[2])>> \o Rest(s, 2)]
    [] op = "ISZERO" -> [st EXCEPT !.stack = <<ISZERO(s[1])>> \o Rest(s, 1)]
    [] op = "NOT"    -> [st EXCEPT !.stack = <<NOT(s[1])>> \o Rest(s, 1)]
    [] op = "ADDMOD" -> [st EXCEPT !.stack = <<ADDMOD(s[1], s[2], s[3])>> \o Rest(s, 3)]
    [] op = "MULMOD" -> [st EXCEPT !.stack = <<MULMOD(s[1], s[2], s[3])>> \o Rest(s, 3)]
    [] op \in Env0Ops -> [st EXCEPT !.stack = <<Env0(op)>> \o s]
    [] op \in Env1Ops -> [st EXCEPT !.stack = <<Env1(op, s[1])>> \o Rest(s, 1)]
    [] op = "RETURNDATASIZE" ->
         [st EXCEPT !.stack = <<HashW(<<30, CallsSoFar(st)>>)>> \o s]
    [] op = "MLOAD" ->
         IF ~RangeOK(s[1], FromNat(NB)) THEN Halt(st, "oog")
         ELSE [st EXCEPT !.stack = <<WordOfMem(ReadBytes(st, Small(s[1]), NB))>> \o Rest(s, 1)]
    [] op = "MSTORE" ->
         IF ~RangeOK(s[1], FromNat(NB)) THEN Halt(st, "oog")
         ELSE [st EXCEPT !.stack = Rest(s, 2),
                         !.mem = WriteBytes(st.mem, Small(s[1]), MemOfWord(s[2]))]
    [] op = "MSTORE8" ->
         IF ~RangeOK(s[1], One) THEN Halt(st, "oog")
         ELSE [st EXCEPT !.stack = Rest(s, 2),
                         !.mem = WriteBytes(st.mem, Small(s[1]), <<s[2][1]>>)]
    [] op = "SLOAD" ->
         [st EXCEPT !.stack = <<IF s[1] \in DOMAIN st.sto THEN st.sto[s[1]] ELSE InitSto(st.ss, s[1])>>
                               \o Rest(s, 1)]
    [] op = "SSTORE" ->
         [st EXCEPT !.stack = Rest(s, 2),
                    !.sto = [x \in (DOMAIN st.sto) \cup {s[1]} |-> IF x = s[1] THEN s[2] ELSE st.sto[x]]]
    [] op \in {"KECCAK256", "SHA3"} ->
         IF ~RangeOK(s[1], s[2]) THEN Halt(st, "oog")
         ELSE [st EXCEPT !.stack = <<HashW(<<60>> \o ReadBytes(st, RangeOff(s[1], s[2]), RangeLen(s[2])))>>
                                   \o Rest(s, 2)]
    [] op \in LogOps ->
         IF ~RangeOK(s[1], s[2]) THEN Halt(st, "oog")
         ELSE [st EXCEPT !.stack = Rest(s, Pops(ins)),
                         !.obs = Append(@, Event(op, SubSeq(s, 1, Pops(ins)),
                                                 ReadBytes(st, RangeOff(s[1], s[2]), RangeLen(s[2])), <<>>))]
    [] op \in CallOps ->
         LET v == IF op \in {"CALL", "CALLCODE"} THEN 1 ELSE 0     \* value operand present
             io == s[3 + v]  il == s[4 + v]  oo == s[5 + v]  ol == s[6 + v]
         IN  IF ~RangeOK(io, il) \/ ~RangeOK(oo, ol) THEN Halt(st, "oog")
             ELSE [st EXCEPT !.stack = <<EvWord(ev)>> \o Rest(s, Pops(ins)),
                             !.mem = WriteBytes(st.mem, RangeOff(oo, ol),
                                                [j \in 1..RangeLen(ol) |-> EvByte(ev, j)]),
                             !.obs = Append(@, Event(op, SubSeq(s, 1, Pops(ins)),
                                                     ReadBytes(st, RangeOff(io, il), RangeLen(il)), <<>>))]
    [] op \in {"CREATE", "CREATE2"} ->
         IF ~RangeOK(s[2], s[3]) THEN Halt(st, "oog")
         ELSE [st EXCEPT !.stack = <<EvWord(ev)>> \o Rest(s, Pops(ins)),
                         !.obs = Append(@, Event(op, SubSeq(s, 1, Pops(ins)),
                                                 ReadBytes(st, RangeOff(s[2], s[3]), RangeLen(s[3])), <<>>))]
    [] op \in CopyOps ->
         LET x == IF op = "EXTCODECOPY" THEN 1 ELSE 0
             dst == s[1 + x]  len == s[3 + x]
         IN  IF ~RangeOK(dst, len) THEN Halt(st, "oog")
             ELSE [st EXCEPT !.stack = Rest(s, Pops(ins)),
                             !.mem = WriteBytes(st.mem, RangeOff(dst, len),
                                                [j \in 1..RangeLen(len) |-> EvByte(ev, j)]),
                             !.obs = Append(@, Event(op, SubSeq(s, 1, Pops(ins)), <<>>, <<>>))]
    [] op = "ASSIGNIMMUTABLE" ->
         [st EXCEPT !.stack = Rest(s, 2), !.obs = Append(@, Event(op, SubSeq(s, 1, 2), <<>>, ins.w))]
    [] op = "GAS" ->
         [st EXCEPT !.stack = <<EvWord(ev)>> \o s, !.obs = Append(@, Event(op, <<>>, <<>>, <<>>))]
    [] op = "JUMP" ->
         [st EXCEPT !.stack = Rest(s, 1), !.obs = Append(@, Event(op, SubSeq(s, 1, 1), <<>>, <<>>)),
                    !.halt = "jump"]
    [] op = "JUMPI" ->
         [st EXCEPT !.stack = Rest(s, 2), !.obs = Append(@, Event(op, SubSeq(s, 1, 2), <<>>, <<>>)),
                    !.halt = "jumpi"]
    [] op \in {"RETURN", "REVERT"} ->
         IF ~RangeOK(s[1], s[2]) THEN Halt(st, "oog")
         ELSE [st EXCEPT !.stack = Rest(s, 2),
                         !.obs = Append(@, Event(op, SubSeq(s, 1, 2),
                                                 ReadBytes(st, RangeOff(s[1], s[2]), RangeLen(s[2])), <<>>)),
                         !.halt = IF op = "RETURN" THEN "return" ELSE "revert"]
    [] op = "STOP" -> [st EXCEPT !.obs = Append(@, Event(op, <<>>, <<>>, <<>>)), !.halt = "stop"]
    [] op = "INVALID" -> [st EXCEPT !.obs = Append(@, Event(op, <<>>, <<>>, <<>>)), !.halt = "invalid"]
    [] op = "SELFDESTRUCT" ->
         [st EXCEPT !.stack = Rest(s, 1), !.obs = Append(@, Event(op, SubSeq(s, 1, 1), <<>>, <<>>)),
                    !.halt = "selfdestruct"]
    [] OTHER -> Halt(st, "unsupported")

Run(st, prog) == FoldLeft(Step, st, prog)

\* what an observer can still see after the block
Continues(st) == st.halt \in {"none", "jump", "jumpi"}
Persists(st)  == Continues(st) \/ st.halt \in {"stop", "return", "selfdestruct"}
Undecided(st) == st.halt \in {"oog", "unsupported"}
MemEq(s1, s2) ==
  \A a \in (DOMAIN s1.mem) \cup (DOMAIN s2.mem) : MemAt(s1, a) = MemAt(s2, a)
StoAt(st, key) == IF key \in DOMAIN st.sto THEN st.sto[key] ELSE InitSto(st.ss, key)
StoEq(s1, s2) ==
  \A key \in (DOMAIN s1.sto) \cup (DOMAIN s2.sto) : StoAt(s1, key) = StoAt(s2, key)
=============================================================================
