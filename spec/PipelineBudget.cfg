SPECIFICATION BSpec
CONSTANTS
  NB = 1
  SecOf <- Sec11
  MaxSubs = 2
  Contain = "all"
  WithReplay = FALSE
  MaxTamper = 0
POSTCONDITION Accepted
CHECK_DEADLOCK FALSE
