--------------------------- MODULE PipelineBudget ---------------------------
(***************************************************************************)
(* Batch validator (V) for the first clause of C10: every run of the         *)
(* pipeline on a single block (worker command `c10`, one one-block document  *)
(* per command through the real optimize_asm_in_asm_format, its own killable *)
(* process) terminates within Budget(n) without an exception and writes the  *)
(* output file.  TLA+ cannot observe CPU time or   *)
(* memory: the harness measures wall-clock seconds and the peak resident     *)
(* set of the worker process; this module only compares the recorded         *)
(* numbers with Pipeline!BudgetMs / BudgetRssKb.                             *)
(* A case is [id, n, wall_ms, rss_kb, killed, stage, exc, file]; stage = ""   *)
(* when no exception left the pipeline, else the stage it escaped from.      *)
(***************************************************************************)
EXTENDS Pipeline, Json, IOUtils

Cases == JsonDeserialize(IOEnv.CASES).cases

VARIABLE c

Verdict(cs) ==
  IF cs.killed THEN "killed: no termination within the budget"
  ELSE IF cs.stage # "" THEN "exception escapes " \o cs.stage \o " stage"
  ELSE IF ~cs.file THEN "no output file"
  ELSE IF cs.wall_ms > BudgetMs(cs.n) THEN "time budget exceeded"
  ELSE IF cs.rss_kb > BudgetRssKb THEN "memory budget exceeded"
  ELSE "ok"

BInit == c = 1 /\ st = 0 /\ TLCSet(1, 0)
BNext == /\ c <= Len(Cases)
         /\ LET cs == Cases[c]  v == Verdict(cs)
            IN  IF v = "ok" THEN TRUE ELSE PrintT(<<"VERDICT", cs.id, BudgetMs(cs.n), v>>)
         /\ TLCSet(1, c)
         /\ c' = c + 1 /\ UNCHANGED st
BSpec == BInit /\ [][BNext]_<<c, st>>

Accepted ==
  /\ PrintT(<<"CONSUMED", TLCGet(1), Len(Cases)>>)
  /\ TLCGet(1) = Len(Cases)
=============================================================================
