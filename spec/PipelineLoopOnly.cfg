SPECIFICATION Spec
CONSTANTS
  NB = 3
  SecOf <- Sec3
  MaxSubs = 2
  Contain = "loop"
  WithReplay = FALSE
  MaxTamper = 0
INVARIANTS TypeOK NoEscape
CHECK_DEADLOCK FALSE
