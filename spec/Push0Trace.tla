----------------------------- MODULE Push0Trace -----------------------------
(***************************************************************************)
(* Batch validator (V) for C17: instruction-set restrictions chosen by the   *)
(* user are honoured.  One TLC state per case.                              *)
(*                                                                         *)
(* kind "block"   one block through the real optimize + compare + keep-or-   *)
(*   revert pipeline under one option set:                                  *)
(*     push0  "on" / "off"  (the flag -push0 switches PUSH0 OFF)            *)
(*     orig, out   the block as the tool parsed it and as it emitted it,     *)
(*                 items [n |-> name, v |-> operand text or ""]             *)
(*     size, gas, length   <<input, emitted>> as the TOOL computed them      *)
(*   clauses                                                                *)
(*     push0-off   ~push0 => (PUSH0 \in out => PUSH0 \in orig)              *)
(*     size / gas / length   the reported figure of EACH side equals         *)
(*                 Cost.tla's with the SAME flag; when exactly one side      *)
(*                 disagrees the flag was not applied identically           *)
(*                 (witness says which side); gas only when                  *)
(*                 Cost!GasComparable (no warm access possible)             *)
(*                                                                         *)
(* kind "select"  one whole-document run with -c <sel>:                      *)
(*     in      abstract document (AsmDoc.tla) of the input file              *)
(*     after   abstract document of the parsed input object, serialized      *)
(*             AFTER the run (shows in-place changes of other contracts)     *)
(*     outasm  abstract assembly of the emitted file (with -c the tool       *)
(*             writes the selected contract alone, as solc --asm-json)       *)
(*     events  one record [contract, block, changed] per block that went     *)
(*             through the optimizer (update_gas_count is called once per    *)
(*             processed block; the contract is the argument of the          *)
(*             enclosing optimize_asm_contract call)                         *)
(*   clauses                                                                *)
(*     event     every event belongs to the selected contract                *)
(*     untouched every other contract of `after` equals the one of `in`      *)
(*               (up to the documented PUSH 0 / PUSH0 spelling)              *)
(*     emitted   the emitted assembly is the selected contract: same         *)
(*               metadata, same skeleton, well-formed items (Skeleton.tla);  *)
(*               with PUSH0 off no stream contains a PUSH0 unless the input  *)
(*               stream does                                                 *)
(*   A run whose name selects no or several contracts is outside the         *)
(*   property ("when only one contract is selected"): UNDECIDED.            *)
(*                                                                         *)
(* Output: <<"VERDICT", id, position, clause, witness>>, <<"UNDECIDED", id,   *)
(* why>>, <<"GUARDS", blocks where the optimizer introduced a zero push with *)
(* PUSH0 on, the same with PUSH0 off, blocks whose gas was not comparable,   *)
(* undecided cases, events of selected contracts, unselected contracts with  *)
(* code that were compared, blocks whose emitted form differs from the       *)
(* input>>.                                                                 *)
(***************************************************************************)
EXTENDS Skeleton, Json, IOUtils

C == INSTANCE Cost

Cases == JsonDeserialize(IOEnv.CASES).cases

VARIABLE c

Count(k, n) == TLCSet(k, TLCGet(k) + n)
Fail(cs, pos, clause, wit) == PrintT(<<"VERDICT", cs.id, pos, clause, wit>>)
Undecided(cs, why) == PrintT(<<"UNDECIDED", cs.id, why>>) /\ Count(5, 1)

-----------------------------------------------------------------------------
\* one cost measure: reported <<in, out>> against the spec's figures with the same flag on both sides
CostClause(cs, what, rep, specIn, specOut) ==
  LET badIn == rep[1] # specIn  badOut == rep[2] # specOut IN
  IF ~badIn /\ ~badOut THEN TRUE
  ELSE Fail(cs, <<>>, what,
            <<IF badIn /\ badOut THEN "both sides differ from the specified price"
              ELSE IF badIn THEN "flag not applied identically: input side differs"
              ELSE "flag not applied identically: emitted side differs",
              "reported", rep[1], rep[2], "specified", specIn, specOut>>)

BlockCase(cs) ==
  LET p == cs.push0 = "on" IN
  IF ~(C!Priceable(cs.orig) /\ C!Priceable(cs.out)) THEN Undecided(cs, "a PUSH constant is not readable")
  ELSE
  /\ IF ~p /\ C!HasPush0(cs.out) /\ ~C!HasPush0(cs.orig)
     THEN Fail(cs, <<CHOOSE i \in 1..Len(cs.out) : cs.out[i].n = "PUSH0">>, "push0-off", <<"PUSH0 emitted although disabled and absent from the input">>)
     ELSE TRUE
  /\ CostClause(cs, "size", cs.size, C!Size(cs.orig, p), C!Size(cs.out, p))
  /\ CostClause(cs, "length", cs.length, C!Length(cs.orig), C!Length(cs.out))
  /\ IF C!GasComparable(cs.orig) /\ C!GasComparable(cs.out)
     THEN CostClause(cs, "gas", cs.gas, C!GasStatic(cs.orig, p), C!GasStatic(cs.out, p))
     ELSE Count(4, 1)
  \* blocks with several storage / account accesses: the tool's symbolic warm/cold accounting, restated (Cost!SymGas)
  /\ IF C!SymPriceable(cs.orig) /\ C!SymPriceable(cs.out)
     THEN CostClause(cs, "gas (symbolic warm/cold accounting)", cs.gas, C!SymGas(cs.orig, p), C!SymGas(cs.out, p))
     ELSE TRUE
  /\ IF C!ZeroPushes(cs.out) > C!ZeroPushes(cs.orig) THEN Count(IF p THEN 2 ELSE 3, 1) ELSE TRUE
  /\ IF cs.out # cs.orig THEN Count(8, 1) ELSE TRUE

-----------------------------------------------------------------------------
ContractOf(d, full) == CHOOSE x \in {d.contracts[i] : i \in 1..Len(d.contracts)} : x.name = full
HasContract(d, full) == \E i \in 1..Len(d.contracts) : d.contracts[i].name = full

SelectCase(cs) ==
  LET din == Lenient(cs.in)
      sel == {i \in 1..Len(din.contracts) : ShortName(din.contracts[i].name) = cs.sel}
  IN
  IF ~IsDoc(cs.in) THEN PrintT(<<"MACHINERY", cs.id, "input is not an abstract document">>)
  ELSE IF Cardinality(sel) # 1 THEN Undecided(cs, "the name does not select exactly one contract")
  ELSE IF cs.status # "ok" THEN Undecided(cs, cs.status)
  ELSE
  LET full == din.contracts[CHOOSE i \in sel : TRUE].name
      others == {i \in 1..Len(din.contracts) : i \notin sel}
      badEv == {k \in 1..Len(cs.events) : ShortName(cs.events[k].contract) # cs.sel}
      outdoc == [version |-> din.version, extra |-> <<>>,
                 contracts |-> <<[name |-> full, asmkind |-> "obj", asm |-> <<cs.outasm>>, extra |-> <<>>]>>]
      inR == OnlyContract(din, full)
  IN
  \* event
  /\ IF badEv = {} THEN TRUE
     ELSE LET k == MinOf(badEv) IN Fail(cs, <<k - 1>>, "event", <<"a block of an unselected contract went through the optimizer",
                                                                   cs.events[k].contract, cs.events[k].block>>)
  /\ Count(6, Cardinality({k \in 1..Len(cs.events) : ShortName(cs.events[k].contract) = cs.sel}))
  \* untouched
  /\ IF ~IsDoc(cs.after) THEN Fail(cs, <<>>, "untouched", <<"the parsed document cannot be serialized after the run">>)
     ELSE LET a == Norm(din, cs.push0)  b == Norm(Lenient(cs.after), cs.push0)
              bad == {i \in others : ~HasContract(b, a.contracts[i].name) \/ ContractOf(b, a.contracts[i].name) # a.contracts[i]}
          IN  /\ IF bad = {} THEN TRUE
                 ELSE LET i == MinOf(bad) IN
                      Fail(cs, <<>>, "untouched",
                           IF HasContract(b, a.contracts[i].name) THEN DiffContract(a.contracts[i], ContractOf(b, a.contracts[i].name))
                           ELSE <<a.contracts[i].name, "missing">>)
              /\ Count(7, Cardinality({i \in others : din.contracts[i].asmkind = "obj"}))
  \* emitted
  /\ IF ~IsAsm(cs.outasm) THEN Fail(cs, <<>>, "emitted", <<"the emitted file is not an assembly">>)
     ELSE IF MetaDoc(outdoc) # MetaDoc(inR) THEN Fail(cs, <<>>, "emitted: metadata", DiffDoc(MetaDoc(inR), MetaDoc(outdoc)))
     ELSE \A k \in 1..Len(DocSections(inR)) :
            LET si == DocSections(inR)[k]  so == DocSections(outdoc)[k]
                vs == SectionVerdicts(si.code, so.code, cs.policy)
                p0(code) == {i \in 1..Len(code) : Name(code[i]) = "PUSH0"}
            IN  /\ \A j \in 1..Len(vs) : Fail(cs, <<si.contract, si.path>> \o vs[j][2], "emitted: " \o vs[j][1], vs[j][3])
                /\ IF cs.push0 = "off" /\ p0(so.code) # {} /\ p0(si.code) = {}
                   THEN Fail(cs, <<si.contract, si.path, MinOf(p0(so.code)) - 1>>, "emitted: push0-off",
                             <<"PUSH0 in the emitted stream although disabled and absent from the input stream">>)
                   ELSE TRUE

Check(cs) ==
  IF cs.kind = "block" THEN BlockCase(cs)
  ELSE IF cs.kind = "select" THEN SelectCase(cs)
  ELSE PrintT(<<"MACHINERY", cs.id, "unknown kind">>)

Init == c = 1 /\ \A k \in 1..8 : TLCSet(k, 0)
Next == /\ c <= Len(Cases)
        /\ Check(Cases[c])
        /\ TLCSet(1, c)
        /\ c' = c + 1
Spec == Init /\ [][Next]_c

Accepted ==
  /\ PrintT(<<"CONSUMED", TLCGet(1), Len(Cases)>>)
  /\ PrintT(<<"GUARDS", TLCGet(2), TLCGet(3), TLCGet(4), TLCGet(5), TLCGet(6), TLCGet(7), TLCGet(8)>>)
  /\ TLCGet(1) = Len(Cases)
=============================================================================
