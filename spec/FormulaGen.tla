----------------------------- MODULE FormulaGen -----------------------------
(***************************************************************************)
(* Generator (G) for C18: construction scripts.                              *)
(*                                                                         *)
(* A script is a straight-line sequence of calls of the constraint           *)
(* construction interface; step k is <<op, args>> and its value is named     *)
(* "r<k>".  An argument is a leaf or the name of an earlier result.          *)
(*   leaves  Bool: p q true false      Int: a b 0 1 2 3 fa (= f(a))          *)
(*   op      and or (1-3 Bool args)  not  imp (2 Bool)  lt le (2 Int)        *)
(*           eq (Bool Bool | Int Int | Bool Int | Int Bool: the mixed forms  *)
(*               are ill-sorted and end up "undecided" in the validator)     *)
(*           dis (2-3 Bool | 2-3 Int)                                        *)
(* Results are formulas, so an earlier result may stand wherever a Bool      *)
(* argument is expected.                                                     *)
(*                                                                         *)
(* G.minlen..G.maxlen  script lengths generated                              *)
(* G.chain             TRUE: every step after the first uses at least one    *)
(*                     earlier result (a script that does not is two         *)
(*                     shorter scripts); used for exhaustive enumeration     *)
(* G.stride            >= 1; only every stride-th complete script (in TLC's    *)
(*                     deterministic breadth-first order, one worker) is     *)
(*                     printed: a deterministic strided sample of the space  *)
(* A step is chosen in micro-steps (signature, then one argument at a time)  *)
(* so that `-simulate` has few successors per state and draws the            *)
(* signature and every argument uniformly.  Complete scripts are the states  *)
(* with fin = TRUE; model checking enumerates all of them, simulation draws  *)
(* random ones from the same space.                                          *)
(***************************************************************************)
EXTENDS Naturals, Sequences, FiniteSets, Json, IOUtils, TLC

G == JsonDeserialize(IOEnv.GEN)

BoolLeaves == {"p", "q", "true", "false"}
IntLeaves  == {"a", "b", "0", "1", "2", "3", "fa"}
ResNames   == <<"r1", "r2", "r3", "r4">>

B1 == <<"B">>   B2 == <<"B", "B">>   B3 == <<"B", "B", "B">>
I2 == <<"I", "I">>   I3 == <<"I", "I", "I">>
OpSigs == {<<"and", B1>>, <<"and", B2>>, <<"and", B3>>, <<"or", B1>>, <<"or", B2>>, <<"or", B3>>,
           <<"not", B1>>, <<"imp", B2>>,
           <<"eq", B2>>, <<"eq", I2>>, <<"eq", <<"B", "I">>>>, <<"eq", <<"I", "B">>>>,
           <<"lt", I2>>, <<"le", I2>>,
           <<"dis", B2>>, <<"dis", B3>>, <<"dis", I2>>, <<"dis", I3>>}

VARIABLES script, op, sig, args, len, fin
vars == <<script, op, sig, args, len, fin>>

Results   == {ResNames[k] : k \in 1..Len(script)}
HasB(s)   == \E j \in 1..Len(s) : s[j] = "B"
UsesRes(a) == \E j \in 1..Len(a) : a[j] \in Results
MoreB(pos) == \E j \in (pos + 1)..Len(sig) : sig[j] = "B"
MustChain == G.chain /\ Len(script) >= 1

Pool(pos) ==
  IF sig[pos] = "I" THEN IntLeaves
  ELSE IF MustChain /\ ~UsesRes(args) /\ ~MoreB(pos) THEN Results
  ELSE BoolLeaves \cup Results

Init == /\ script = <<>> /\ op = "" /\ sig = <<>> /\ args = <<>> /\ fin = FALSE
        /\ len \in G.minlen..G.maxlen
        /\ TLCSet(9, 0)

Pick == /\ ~fin /\ op = "" /\ Len(script) < len
        /\ \E os \in OpSigs :
             /\ MustChain => HasB(os[2])
             /\ op' = os[1] /\ sig' = os[2]
        /\ UNCHANGED <<script, args, len, fin>>

Arg ==  /\ op # ""
        /\ \E x \in Pool(Len(args) + 1) :
             IF Len(args) + 1 = Len(sig)
             THEN /\ script' = Append(script, <<op, Append(args, x)>>)
                  /\ op' = "" /\ sig' = <<>> /\ args' = <<>>
             ELSE /\ args' = Append(args, x) /\ UNCHANGED <<script, op, sig>>
        /\ UNCHANGED <<len, fin>>

Fin ==  /\ ~fin /\ op = "" /\ Len(script) = len
        /\ fin' = TRUE /\ UNCHANGED <<script, op, sig, args, len>>

Next == Pick \/ Arg \/ Fin
Spec == Init /\ [][Next]_vars

Emit == fin => /\ (IF TLCGet(9) % G.stride = 0 THEN PrintT(<<"S", script>>) ELSE TRUE)
               /\ TLCSet(9, TLCGet(9) + 1)
Total == PrintT(<<"TOTAL", TLCGet(9)>>)      \* POSTCONDITION: number of complete scripts reached
=============================================================================
