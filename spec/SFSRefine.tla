------------------------------ MODULE SFSRefine ------------------------------
(***************************************************************************)
(* Refinement between the two readings of a specification (M):               *)
(*   SFSDenote   what S means: its memory, storage and hash operations, each  *)
(*               executed once, in any order that respects data flow and the  *)
(*               declared happens-before pairs;                              *)
(*   SFSMachine  what a back-end may return for S: any instruction sequence    *)
(*               that ends in Goal (operations may be repeated as far as the   *)
(*               pairs allow, operands of a commutative instruction in either   *)
(*               order, values duplicated and dropped at will).               *)
(* The oracle of C04, C06, C07 and C16 is SFSMachine; the oracle of C02 and   *)
(* C03 is SFSDenote.  They must agree: executed concretely, EVERY sequence     *)
(* SFSMachine accepts has to produce a result that SOME admissible schedule of  *)
(* the denotation produces.  Otherwise a back-end could be judged correct by    *)
(* one oracle on a specification the other oracle judged equivalent to a block, *)
(* and the block it emits would still be wrong.                               *)
(*                                                                         *)
(* Instances are hand-built specifications (SFSGen), so that dependency sets    *)
(* the front-end would never emit - too few pairs, pairs between accesses that   *)
(* do not conflict - are covered: where pairs are missing the denotation itself   *)
(* is ambiguous (several results), and the machine may produce any of them,       *)
(* but nothing else.                                                            *)
(*                                                                         *)
(* case = [id, sfs, depth, b0, bs, pick]; sfs as in SFSDenote plus sto.  The      *)
(* set of denotation results is computed by recursion over the order ideals;      *)
(* TLC explores the product of the symbolic machine and the concrete machine.     *)
(***************************************************************************)
EXTENDS EVM, Grid, Json, IOUtils

M == INSTANCE SFSMachine

Input == JsonDeserialize(IOEnv.CASES)
Cases == Input.cases
Seed  == Input.seed

VARIABLES c, g, sym, con
vars == <<c, g, sym, con>>

MemKinds  == {"MLOAD", "SLOAD", "KECCAK256", "SHA3", "MSTORE", "MSTORE8", "SSTORE"}
LoadKinds == {"MLOAD", "SLOAD", "KECCAK256", "SHA3"}

InsById(S, id) == S.ins[CHOOSE i \in 1..Len(S.ins) : S.ins[i].id = id]
MemOps(S) == {S.ins[i].id : i \in {j \in 1..Len(S.ins) : S.ins[j].op \in MemKinds}}
Producer(S, x) == S.ins[CHOOSE i \in 1..Len(S.ins) : \E j \in 1..Len(S.ins[i].out) : S.ins[i].out[j] = x]
InSrc(S, x) == \E i \in 1..Len(S.src) : S.src[i] = x
SrcIdx(S, x) == CHOOSE i \in 1..Len(S.src) : S.src[i] = x

RECURSIVE OpsOf(_, _)
OpsOf(S, x) ==
  IF InSrc(S, x) THEN {}
  ELSE LET p == Producer(S, x) IN
       IF p.op \in MemKinds THEN {p.id} ELSE UNION {OpsOf(S, p.inp[j]) : j \in 1..Len(p.inp)}
WaitsFor(S, id) ==
  LET i == InsById(S, id) IN
  UNION {OpsOf(S, i.inp[j]) : j \in 1..Len(i.inp)} \cup {S.deps[k][1] : k \in {n \in 1..Len(S.deps) : S.deps[n][2] = id}}

\* everything an operation has to wait for, transitively
RECURSIVE Anc(_, _)
Anc(S, id) == WaitsFor(S, id) \cup UNION {Anc(S, p) : p \in WaitsFor(S, id)}
DomainOf(op) == IF op \in {"SLOAD", "SSTORE"} THEN "sto" ELSE "mem"
\* declared pairs only, transitively
DeclBefore(S, id) == {S.deps[k][1] : k \in {n \in 1..Len(S.deps) : S.deps[n][2] = id}}
RECURSIVE DeclAnc(_, _)
DeclAnc(S, id) == DeclBefore(S, id) \cup UNION {DeclAnc(S, p) : p \in DeclBefore(S, id)}
\* the claim is made for specifications in which every load is ordered with every store of its domain: the store first (a chain
\* of declared pairs and data flow ending in the load), or the load first BY DECLARED PAIRS.  Data flow alone (the store consumes the
\* loaded value) orders only the first occurrence of the load: a back-end may compute the load again after the store - two different
\* values under one name - which no schedule of the denotation produces.  TLC found both variants on hand-built specifications: no
\* pair at all, and data flow without a pair.  The front-end declares the pair in that situation; a specification that does not is
\* rejected by C02, so here it is counted, not judged.
LoadStoreOrdered(S) ==
  \A l \in {x \in MemOps(S) : InsById(S, x).op \in LoadKinds} :
    \A t \in {x \in MemOps(S) : InsById(S, x).op \notin LoadKinds} :
       DomainOf(InsById(S, l).op) = DomainOf(InsById(S, t).op) => (l \in DeclAnc(S, t) \/ t \in Anc(S, l))

\* value of a term on the initial stack st0; loads take the value recorded when they were executed
RECURSIVE Ev(_, _, _, _)
Ev(S, x, st0, vl) ==
  IF InSrc(S, x) THEN st0[SrcIdx(S, x)]
  ELSE LET p == Producer(S, x)  A(j) == Ev(S, p.inp[j], st0, vl) IN
       CASE p.op \in LoadKinds -> vl[p.id]
         [] p.op \in BinOps -> Bin(p.op, A(1), A(2))
         [] p.op = "ISZERO" -> ISZERO(A(1))
         [] p.op = "NOT" -> NOT(A(1))
         [] p.op = "PUSH0" -> Zero
         [] p.op \in PushOps -> Pad(p.w)

\* effect of one operation on the pseudo machine state mm (only mem, sto, halt are used)
Effect(S, st0, mm, vl, id) ==
  LET i == InsById(S, id)  A(j) == Ev(S, i.inp[j], st0, vl) IN
  CASE i.op = "MLOAD" -> IF ~RangeOK(A(1), FromNat(NB)) THEN [m |-> Halt(mm, "oog"), v |-> Zero]
                         ELSE [m |-> mm, v |-> WordOfMem(ReadBytes(mm, Small(A(1)), NB))]
    [] i.op = "SLOAD" -> [m |-> mm, v |-> StoAt(mm, A(1))]
    [] i.op \in {"KECCAK256", "SHA3"} ->
         IF ~RangeOK(A(1), A(2)) THEN [m |-> Halt(mm, "oog"), v |-> Zero]
         ELSE [m |-> mm, v |-> HashW(<<60>> \o ReadBytes(mm, RangeOff(A(1), A(2)), RangeLen(A(2))))]
    [] i.op = "MSTORE" -> IF ~RangeOK(A(1), FromNat(NB)) THEN [m |-> Halt(mm, "oog"), v |-> Zero]
                          ELSE [m |-> [mm EXCEPT !.mem = WriteBytes(mm.mem, Small(A(1)), MemOfWord(A(2)))], v |-> Zero]
    [] i.op = "MSTORE8" -> IF ~RangeOK(A(1), One) THEN [m |-> Halt(mm, "oog"), v |-> Zero]
                           ELSE [m |-> [mm EXCEPT !.mem = WriteBytes(mm.mem, Small(A(1)), <<A(2)[1]>>)], v |-> Zero]
    [] i.op = "SSTORE" ->
         [m |-> [mm EXCEPT !.sto = [x \in (DOMAIN mm.sto) \cup {A(1)} |-> IF x = A(1) THEN A(2) ELSE mm.sto[x]]], v |-> Zero]

\* every result the denotation admits: [stack (values of tgt), m (final pseudo state), oog]
RECURSIVE Results(_, _, _, _, _)
Results(S, st0, done, mm, vl) ==
  IF mm.halt # "none" THEN {[stack |-> <<>>, m |-> mm, oog |-> TRUE]}
  ELSE IF done = MemOps(S) THEN {[stack |-> [i \in 1..Len(S.tgt) |-> Ev(S, S.tgt[i], st0, vl)], m |-> mm, oog |-> FALSE]}
  ELSE UNION {LET r == Effect(S, st0, mm, vl, id)
                  nv == IF InsById(S, id).op \in LoadKinds THEN [x \in (DOMAIN vl) \cup {id} |-> IF x = id THEN r.v ELSE vl[x]] ELSE vl
              IN  Results(S, st0, done \cup {id}, r.m, nv)
              : id \in {o \in MemOps(S) \ done : WaitsFor(S, o) \subseteq done}}

Size(cs)  == IF cs.depth = 0 THEN 2 ELSE GridSize(cs.depth, Len(V16), 48)
Stack0(cs, idx) == IF cs.depth = 0 THEN <<>> ELSE GridStack(cs.depth, V16, 48, Seed, idx)
Start(cs, idx)  == InitState(Stack0(cs, idx), idx % 3, idx % 2)
Pick(cs) ==
  LET n == Size(cs)  k == cs.pick IN
  IF n <= k \/ k < 3 THEN 1..n
  ELSE {1, 2} \cup {3 + ((((j * (n - 2)) \div (k - 2)) + Seed) % (n - 2)) : j \in 0..(k - 3)}

Moves(S, s) ==
  {[id |-> "POP", k |-> 0, c |-> ""]}
  \cup {[id |-> "DUP", k |-> k, c |-> ""] : k \in 1..(IF Len(s.stack) < 16 THEN Len(s.stack) ELSE 16)}
  \cup {[id |-> "SWAP", k |-> k, c |-> ""] : k \in 1..(IF Len(s.stack) - 1 < 16 THEN Len(s.stack) - 1 ELSE 16)}
  \cup {[id |-> S.ins[i].id, k |-> 0, c |-> ""] : i \in 1..Len(S.ins)}
Concrete(S, ev) ==
  IF ev.id \in {"POP", "DUP", "SWAP"} THEN [op |-> ev.id, k |-> ev.k, w |-> <<>>]
  ELSE LET i == M!InsOf(S, ev.id) IN [op |-> i.op, k |-> 0, w |-> i.w]

Init ==
  /\ c \in 1..Len(Cases) /\ g \in Pick(Cases[c])
  /\ sym = M!Start(Cases[c].sfs)
  /\ con = Start(Cases[c], g)
Next ==
  LET cs == Cases[c]  S == cs.sfs IN
  /\ ~M!Goal(S, sym) /\ con.halt = "none"
  /\ TLCGet("level") <= cs.b0
  /\ \E ev \in Moves(S, sym) :
       LET r == M!Try(S, sym, ev) IN
       /\ r.err = "" /\ Len(r.stack) <= cs.bs
       /\ sym' = [stack |-> r.stack, done |-> r.done]
       /\ con' = Step(con, Concrete(S, ev))
  /\ UNCHANGED <<c, g>>
Spec == Init /\ [][Next]_vars

Check ==
  LET cs == Cases[c]  S == cs.sfs IN
  (M!Goal(S, sym) /\ con.halt = "none") =>
     LET st0 == Stack0(cs, g)
         R == Results(S, st0, {}, Start(cs, g), [x \in {} |-> Zero])
     IN  IF ~LoadStoreOrdered(S) THEN PrintT(<<"UNORDERED", cs.id, g>>)
         ELSE IF \E r \in R : r.oog THEN PrintT(<<"UNDECIDED", cs.id, g>>)
         ELSE /\ PrintT(<<"GOAL", cs.id, g, Cardinality(R)>>)
              /\ IF \E r \in R : r.stack = con.stack /\ MemEq(r.m, con) /\ StoEq(r.m, con) THEN TRUE
                 ELSE PrintT(<<"VERDICT", cs.id, g, "not a result of the denotation", sym.done>>)

Expected == FoldLeft(LAMBDA acc, cs : acc + Cardinality(Pick(cs)), 0, Cases)
Accepted ==
  /\ PrintT(<<"INITS", Expected>>)
  /\ TLCGet("stats").distinct >= Expected
=============================================================================
