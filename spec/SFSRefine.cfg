SPECIFICATION Spec
CONSTANT NB = 32
INVARIANT Check
POSTCONDITION Accepted
CHECK_DEADLOCK FALSE
