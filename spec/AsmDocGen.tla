----------------------------- MODULE AsmDocGen -----------------------------
(***************************************************************************)
(* Generator (G) for C15.  TLC enumerates                                    *)
(*  - document shapes: every combination of                                  *)
(*      noasm   a contract without asm: none / written {} / written          *)
(*              {"asm": null}                                                *)
(*      nest    levels of .data below the run-time assembly: 0 (none),       *)
(*              1 (hex string entries), 2 (a nested assembly that has its    *)
(*              own .data)                                                   *)
(*      tophex  a hex string entry next to the run-time assembly             *)
(*      aux     .auxdata present                                             *)
(*      src     sourceList present                                           *)
(*      jt      annotation of jumps: none / as "value" (solc < 0.8.14) /     *)
(*              as "jumpType"                                                *)
(*      md      modifierDepth present                                        *)
(*      pk      the pseudo-push kind that occurs: none, each single kind,    *)
(*              or all of them                                               *)
(*  - spellings of a constant in the plain-text grammar of AsmDoc.tla:       *)
(*      vi (index into AsmDoc!Vals), mn (PUSH / PUSHn / PUSH0), base,        *)
(*      pre (0x), up (upper-case digits), lz (0..2 leading zero digits).     *)
(* The concrete JSON / text of a shape lives with the harness                *)
(* (harness/asmdoc.py), as for SeqGen.  One initial state per element; the   *)
(* invariant prints it.                                                      *)
(***************************************************************************)
EXTENDS AsmDoc

PKinds == {"PUSH [tag]", "PUSH #[$]", "PUSH [$]", "PUSH data", "PUSHLIB", "PUSHIMMUTABLE",
           "PUSHSIZE", "PUSHDEPLOYADDRESS", "ASSIGNIMMUTABLE"}

DocShapes ==
  [noasm : {"none", "empty", "null"}, nest : 0..2, tophex : BOOLEAN, aux : BOOLEAN, src : BOOLEAN,
   jt : {"none", "value", "field"}, md : BOOLEAN, pk : PKinds \cup {"none", "all"}]

\* number of hexadecimal digits of a value (1 for zero)
HexDigits(n) == IF Len(n) = 0 THEN 1 ELSE (2 * Len(n)) - (IF n[Len(n)] < 16 THEN 1 ELSE 0)

GoodSpelling(s) ==
  /\ s.mn = "PUSH0" => s.vi = 1 /\ s.base = "hex" /\ ~s.pre /\ ~s.up /\ s.lz = 0
  /\ s.mn = "PUSH"  => s.base = "hex"
  /\ s.base = "dec" => ~s.pre /\ ~s.up
  /\ (s.mn = "PUSHn" /\ s.base = "hex") => s.pre
  \* a PUSHn operand has at most 32 bytes
  /\ (s.mn = "PUSHn" /\ s.base = "hex") => HexDigits(Vals[s.vi]) + s.lz <= 64

Spellings ==
  {s \in [vi : 1..Len(Vals), mn : {"PUSH", "PUSHn", "PUSH0"}, base : {"hex", "dec"}, pre : BOOLEAN,
          up : BOOLEAN, lz : 0..2] : GoodSpelling(s)}

VARIABLES kind, sh

Init == \/ kind = "doc" /\ sh \in DocShapes
        \/ kind = "spell" /\ sh \in Spellings
Next == UNCHANGED <<kind, sh>>
Spec == Init /\ [][Next]_<<kind, sh>>

Emit ==
  IF kind = "doc"
  THEN PrintT(<<"D", sh.noasm, sh.nest, sh.tophex, sh.aux, sh.src, sh.jt, sh.md, sh.pk>>)
  ELSE PrintT(<<"S", sh.vi, sh.mn, sh.base, sh.pre, sh.up, sh.lz>>)
=============================================================================
