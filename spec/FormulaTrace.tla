---------------------------- MODULE FormulaTrace ----------------------------
(***************************************************************************)
(* Batch validator (V) for C18.  One TLC state per recorded step / pair.     *)
(*                                                                         *)
(* A case is [id, steps, eqs]:                                               *)
(*   steps[k] = [conn, args, call, exc, result, toks, chk]                   *)
(*      conn, args  the call the generated script prescribes (connector      *)
(*                  name, argument names: leaves or "r<j>", j < k)           *)
(*      call        the unsimplified formula: connector applied to the       *)
(*                  projections of the objects actually passed               *)
(*      exc         "" or the exception the constructor raised               *)
(*      result      projection of the returned object                        *)
(*      toks        tokens of translate_formula(result) (read by SExpr)      *)
(*      chk         FALSE: an identical record is judged in another case     *)
(*   eqs[m] = [i, j, x, y, exc]: the code answered `x == y`; i, j > 0 name   *)
(*      results of this case, otherwise x, y are given.                      *)
(*                                                                         *)
(* Clauses (first failing one is reported, with a witness valuation):        *)
(*   binding    the recorded call is not the call of the script (an earlier  *)
(*              result changed after it was returned, or a harness fault)    *)
(*   exception  a well-sorted call raised                                    *)
(*   sort       a well-sorted call returned something that is no formula     *)
(*   simplify   EvalB(result, v) # EvalB(call, v)                            *)
(*   render     the text is no term, or EvalB(Parse(text), v) # EvalB(result)*)
(*   equality   x == y was answered but EvalB(x, v) # EvalB(y, v)            *)
(* Ill-sorted calls / pairs are undecided (see Formula.tla).                 *)
(***************************************************************************)
EXTENDS SExpr, Json, IOUtils, TLC

Cases == JsonDeserialize(IOEnv.CASES).cases

ResIdx  == "r1" :> 1 @@ "r2" :> 2 @@ "r3" :> 3 @@ "r4" :> 4
LeafAst == "p" :> BVar("p") @@ "q" :> BVar("q") @@ "true" :> BoolLit(TRUE) @@ "false" :> BoolLit(FALSE)
           @@ "a" :> IVar("a") @@ "b" :> IVar("b") @@ "0" :> IntLit(0) @@ "1" :> IntLit(1) @@ "2" :> IntLit(2)
           @@ "3" :> IntLit(3) @@ "fa" :> IApp("f", <<IVar("a")>>)

ArgAst(cs, k, tok) ==
  IF tok \in DOMAIN ResIdx THEN (IF ResIdx[tok] < k THEN cs.steps[ResIdx[tok]].result ELSE NoneNode)
  ELSE IF tok \in DOMAIN LeafAst THEN LeafAst[tok] ELSE NoneNode

V(c, w) == [c |-> c, w |-> w]
Witness(d, x, y) == LET v == CHOOSE v \in d : TRUE IN <<Show(v), EvalB(x, v), EvalB(y, v)>>

StepVerdict(cs, k) ==
  LET e == cs.steps[k]
      bound == /\ e.call.k = e.conn /\ Len(e.call.a) = Len(e.args)
               /\ \A j \in 1..Len(e.args) : e.call.a[j] = ArgAst(cs, k, e.args[j])
  IN  IF ~bound THEN V("binding", <<>>)
      ELSE IF Sort(e.call) # "bool" THEN V("undecided", <<>>)
      ELSE IF e.exc # "" THEN V("exception", <<e.exc>>)
      ELSE IF Sort(e.result) # "bool" THEN V("sort", <<>>)
      ELSE LET d == Differ(e.call, e.result) IN
        IF d # {} THEN V("simplify", Witness(d, e.call, e.result))
        ELSE LET ps == Parse(e.toks) IN
          IF Sort(ps) # "bool" THEN V("render", <<"unreadable">>)
          ELSE LET d2 == Differ(e.result, ps) IN
            IF d2 # {} THEN V("render", Witness(d2, e.result, ps)) ELSE V("ok", <<>>)

EqVerdict(cs, m) ==
  LET e == cs.eqs[m]
      inr == e.i >= 1 /\ e.i <= Len(cs.steps) /\ e.j >= 1 /\ e.j <= Len(cs.steps)
      x == IF e.i > 0 THEN (IF inr THEN cs.steps[e.i].result ELSE NoneNode) ELSE e.x
      y == IF e.i > 0 THEN (IF inr THEN cs.steps[e.j].result ELSE NoneNode) ELSE e.y
  IN  IF e.i > 0 /\ ~inr THEN V("binding", <<>>)
      ELSE IF Sort(x) # "bool" \/ Sort(y) # "bool" THEN V("undecided", <<>>)
      ELSE IF e.exc # "" THEN V("exception", <<e.exc>>)
      ELSE LET d == Differ(x, y) IN
        IF d # {} THEN V("equality", Witness(d, x, y))
        ELSE V(IF x = y THEN "ok-same" ELSE "ok", <<>>)

\* counters: 1 cases consumed, 2 undecided steps/pairs, 3 steps judged, 4 cases in which some well-sorted
\*           call returned a formula different from the unsimplified call (the simplifier fired),
\*           5 pairs judged, 6 of them with x # y, 7 steps not judged here (chk = FALSE)
Bump(n) == TLCSet(n, TLCGet(n) + 1)

Fired(cs) == \E k \in 1..Len(cs.steps) :
               LET e == cs.steps[k] IN e.exc = "" /\ e.result # e.call /\ Sort(e.call) = "bool"

VARIABLES c, pos

Init == c = 1 /\ pos = 1 /\ \A n \in 1..7 : TLCSet(n, 0)

Judge(cs, p) ==
  LET ns == Len(cs.steps) IN
  IF p <= ns THEN
    IF ~cs.steps[p].chk THEN Bump(7)
    ELSE LET v == StepVerdict(cs, p) IN
      IF v.c = "undecided" THEN Bump(2)
      ELSE /\ Bump(3)
           /\ IF v.c = "ok" THEN TRUE ELSE PrintT(<<"VERDICT", cs.id, p, v.c, v.w>>)
  ELSE LET v == EqVerdict(cs, p - ns) IN
      IF v.c = "undecided" THEN Bump(2)
      ELSE /\ Bump(5)
           /\ IF v.c # "ok-same" THEN Bump(6) ELSE TRUE
           /\ IF v.c \in {"ok", "ok-same"} THEN TRUE ELSE PrintT(<<"VERDICT", cs.id, p, v.c, v.w>>)

Next ==
  /\ c <= Len(Cases)
  /\ LET cs == Cases[c] IN
     IF pos > Len(cs.steps) + Len(cs.eqs)
     THEN /\ TLCSet(1, c) /\ c' = c + 1 /\ pos' = 1
          /\ IF Fired(cs) THEN Bump(4) ELSE TRUE
     ELSE Judge(cs, pos) /\ pos' = pos + 1 /\ c' = c
Spec == Init /\ [][Next]_<<c, pos>>

Accepted ==
  /\ PrintT(<<"CONSUMED", TLCGet(1), Len(Cases), TLCGet(2), TLCGet(3), TLCGet(4), TLCGet(5), TLCGet(6), TLCGet(7)>>)
  /\ TLCGet(1) = Len(Cases)
=============================================================================
