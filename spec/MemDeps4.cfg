SPECIFICATION Spec
CONSTANT N = 4
CONSTANT Offs = {0, 1, 31, 32}
CONSTANT ClosestOnly = FALSE
INVARIANT Sufficient
INVARIANT ClosureKept
INVARIANT ProgramOrder
CHECK_DEADLOCK FALSE
