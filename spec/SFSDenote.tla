------------------------------ MODULE SFSDenote ------------------------------
(***************************************************************************)
(* The meaning of a stack functional specification (SFS) under EVERY          *)
(* admissible schedule of its memory, storage and hash operations, compared   *)
(* with the concrete run of the sub-block it was derived from (C02, C03).     *)
(*                                                                         *)
(* case = [id, sfs, prog]                                                    *)
(*   sfs.src, sfs.tgt   initial / final stack (top first): variable names or  *)
(*                      constant names "#ff"                                 *)
(*   sfs.ins            [id, op, inp, out, w, comm]: w = bytes of the pushed  *)
(*                      word for PUSH-like instructions; comm = the           *)
(*                      specification lets a back-end feed the two operands   *)
(*                      in either order                                      *)
(*   sfs.deps           happens-before pairs <<a, b>>                         *)
(*   sfs.cw             record: constant name -> little-endian bytes          *)
(*   prog               the sub-block's instructions (EVM.tla form)           *)
(* One initial state per (case, grid state).  An operation is ready when the   *)
(* operations producing its operands and its declared predecessors are done;   *)
(* TLC explores all orders (the reachable states are the order ideals).       *)
(* At completion: <<tgt values, memory, storage>> = Run(prog).                *)
(* OverlapOrdered: two operations enabled together commute on the current     *)
(* concrete state.  OrderFree: an instruction flagged commutative has the     *)
(* same value with its operands swapped (the flag is part of the meaning:     *)
(* greedy, the encoder and the checker all accept either operand order).      *)
(***************************************************************************)
EXTENDS EVM, Grid, Json, IOUtils

Input == JsonDeserialize(IOEnv.CASES)
Cases == Input.cases
Seed  == Input.seed

VARIABLES c, g, done, m, val, bad, aux
vars == <<c, g, done, m, val, bad, aux>>

MemKinds == {"MLOAD", "SLOAD", "KECCAK256", "SHA3", "MSTORE", "MSTORE8", "SSTORE"}
LoadKinds == {"MLOAD", "SLOAD", "KECCAK256", "SHA3"}

InsById(S, id) == S.ins[CHOOSE i \in 1..Len(S.ins) : S.ins[i].id = id]
MemOps(S) == {S.ins[i].id : i \in {j \in 1..Len(S.ins) : S.ins[j].op \in MemKinds}}
HasProducer(S, x) == \E i \in 1..Len(S.ins) : \E j \in 1..Len(S.ins[i].out) : S.ins[i].out[j] = x
Producer(S, x) == S.ins[CHOOSE i \in 1..Len(S.ins) : \E j \in 1..Len(S.ins[i].out) : S.ins[i].out[j] = x]
IsConst(x) == Len(x) > 0 /\ SubSeq(x, 1, 1) = "#"
SrcIdx(S, x) == CHOOSE i \in 1..Len(S.src) : S.src[i] = x
InSrc(S, x) == \E i \in 1..Len(S.src) : S.src[i] = x

\* memory/storage/hash operations a term depends on (through pure instructions)
RECURSIVE OpsOf(_, _)
OpsOf(S, x) ==
  IF IsConst(x) \/ InSrc(S, x) \/ ~HasProducer(S, x) THEN {}
  ELSE LET p == Producer(S, x) IN
       IF p.op \in MemKinds THEN {p.id}
       ELSE UNION {OpsOf(S, p.inp[j]) : j \in 1..Len(p.inp)}
NeededOps(S, id) == LET i == InsById(S, id) IN UNION {OpsOf(S, i.inp[j]) : j \in 1..Len(i.inp)}
DeclaredBefore(S, id) == {S.deps[i][1] : i \in {j \in 1..Len(S.deps) : S.deps[j][2] = id}}

\* value of a term; loads take the value recorded when they were executed
RECURSIVE Ev(_, _, _, _)
Ev(S, x, st0, vl) ==
  IF IsConst(x) THEN Pad(S.cw[x])
  ELSE IF InSrc(S, x) THEN st0[SrcIdx(S, x)]
  ELSE IF ~HasProducer(S, x) THEN Zero          \* flagged separately as "unbound"
  ELSE
    LET p == Producer(S, x)
        A(j) == Ev(S, p.inp[j], st0, vl)
    IN  CASE p.op \in LoadKinds -> vl[p.id]
          [] p.op \in BinOps -> Bin(p.op, A(1), A(2))
          [] p.op = "ISZERO" -> ISZERO(A(1))
          [] p.op = "NOT" -> NOT(A(1))
          [] p.op = "ADDMOD" -> ADDMOD(A(1), A(2), A(3))
          [] p.op = "MULMOD" -> MULMOD(A(1), A(2), A(3))
          [] p.op \in Env0Ops -> Env0(p.op)
          [] p.op \in Env1Ops -> Env1(p.op, A(1))
          [] p.op = "PUSH0" -> Zero
          [] p.op \in PushOps -> Pad(p.w)
          [] OTHER -> Zero                          \* flagged separately as "unsupported"
SupportedOp(op) == op \in MemKinds \cup BinOps \cup Env0Ops \cup Env1Ops \cup PushOps
                          \cup {"ISZERO", "NOT", "ADDMOD", "MULMOD", "PUSH0"}
Supported(S) == \A i \in 1..Len(S.ins) : SupportedOp(S.ins[i].op) /\ (S.ins[i].op \in PushOps => Len(S.ins[i].w) <= NB)

\* instructions flagged commutative whose value changes when the operands are swapped
OrderBound(S, st0, vl) ==
  {S.ins[i].id : i \in {j \in 1..Len(S.ins) :
       /\ S.ins[j].comm /\ Len(S.ins[j].inp) = 2 /\ S.ins[j].op \in BinOps
       /\ LET a == Ev(S, S.ins[j].inp[1], st0, vl)  b == Ev(S, S.ins[j].inp[2], st0, vl)
          IN  Bin(S.ins[j].op, a, b) # Bin(S.ins[j].op, b, a)}}

\* the block may need a deeper stack than the specification mentions (untouched elements)
Depth(cs) == LET a == Len(cs.sfs.src)  b == MinDepth(cs.prog) IN IF a > b THEN a ELSE b
Size(cs) == IF Depth(cs) = 0 THEN 2 ELSE GridSize(Depth(cs), Len(V16), cs.cap)
Stack0(cs, idx) == IF Depth(cs) = 0 THEN <<>> ELSE GridStack(Depth(cs), V16, cs.cap, Seed, idx)
Start(cs, idx) == InitState(Stack0(cs, idx), idx % 3, idx % 2)

\* effect of one operation on the pseudo machine state m (an EVM.tla state record whose stack is unused)
After(S, st0, mm, vl, id) ==
  LET i == InsById(S, id)
      A(j) == Ev(S, i.inp[j], st0, vl)
  IN  CASE i.op = "MLOAD" ->
             IF ~RangeOK(A(1), FromNat(NB)) THEN [m |-> Halt(mm, "oog"), v |-> Zero]
             ELSE [m |-> mm, v |-> WordOfMem(ReadBytes(mm, Small(A(1)), NB))]
        [] i.op = "SLOAD" -> [m |-> mm, v |-> StoAt(mm, A(1))]
        [] i.op \in {"KECCAK256", "SHA3"} ->
             IF ~RangeOK(A(1), A(2)) THEN [m |-> Halt(mm, "oog"), v |-> Zero]
             ELSE [m |-> mm, v |-> HashW(<<60>> \o ReadBytes(mm, RangeOff(A(1), A(2)), RangeLen(A(2))))]
        [] i.op = "MSTORE" ->
             IF ~RangeOK(A(1), FromNat(NB)) THEN [m |-> Halt(mm, "oog"), v |-> Zero]
             ELSE [m |-> [mm EXCEPT !.mem = WriteBytes(mm.mem, Small(A(1)), MemOfWord(A(2)))], v |-> Zero]
        [] i.op = "MSTORE8" ->
             IF ~RangeOK(A(1), One) THEN [m |-> Halt(mm, "oog"), v |-> Zero]
             ELSE [m |-> [mm EXCEPT !.mem = WriteBytes(mm.mem, Small(A(1)), <<A(2)[1]>>)], v |-> Zero]
        [] i.op = "SSTORE" ->
             [m |-> [mm EXCEPT !.sto = [x \in (DOMAIN mm.sto) \cup {A(1)} |-> IF x = A(1) THEN A(2) ELSE mm.sto[x]]],
              v |-> Zero]

\* aux caches, per case, the operations each operation has to wait for (data flow and declared order)
WaitsFor(S) == [id \in MemOps(S) |-> NeededOps(S, id) \cup DeclaredBefore(S, id)]
Ready(dn, id) == id \notin dn /\ aux[id] \subseteq dn

Init ==
  /\ c \in 1..Len(Cases) /\ g \in 1..Size(Cases[c])
  /\ done = {} /\ m = Start(Cases[c], g) /\ val = [x \in {} |-> Zero] /\ bad = FALSE
  /\ aux = WaitsFor(Cases[c].sfs)
Next ==
  LET cs == Cases[c]  S == cs.sfs  st0 == Stack0(cs, g) IN
  /\ ~bad /\ Supported(S)
  /\ \E id \in MemOps(S) :
       /\ Ready(done, id)
       /\ LET r == After(S, st0, m, val, id) IN
          /\ m' = r.m
          /\ val' = IF InsById(S, id).op \in LoadKinds THEN [x \in (DOMAIN val) \cup {id} |-> IF x = id THEN r.v ELSE val[x]]
                    ELSE val
          /\ bad' = (r.m.halt # "none")
       /\ done' = done \cup {id}
  /\ UNCHANGED <<c, g, aux>>
Spec == Init /\ [][Next]_vars

\* same observable effect of executing a then b, or b then a, from the current state
Commute(S, st0, a, b) ==
  LET ra  == After(S, st0, m, val, a)
      va  == IF InsById(S, a).op \in LoadKinds THEN [x \in (DOMAIN val) \cup {a} |-> IF x = a THEN ra.v ELSE val[x]] ELSE val
      rab == After(S, st0, ra.m, va, b)
      rb  == After(S, st0, m, val, b)
      vb  == IF InsById(S, b).op \in LoadKinds THEN [x \in (DOMAIN val) \cup {b} |-> IF x = b THEN rb.v ELSE val[x]] ELSE val
      rba == After(S, st0, rb.m, vb, a)
  IN  \/ ra.m.halt # "none" \/ rb.m.halt # "none" \/ rab.m.halt # "none" \/ rba.m.halt # "none"
      \/ /\ MemEq(rab.m, rba.m) /\ StoEq(rab.m, rba.m)
         /\ ra.v = rba.v /\ rb.v = rab.v

Check ==
  LET cs == Cases[c]  S == cs.sfs  st0 == Stack0(cs, g) IN
  IF ~Supported(S) THEN (done = {} => PrintT(<<"VERDICT", cs.id, g, "undecided-unsupported", done>>))
  ELSE IF bad THEN PrintT(<<"VERDICT", cs.id, g, "undecided-oog">>)
  ELSE
  /\ LET R == {id \in MemOps(S) \ done : Ready(done, id)} IN
     \A P \in SUBSET R :
        (Cardinality(P) = 2 /\ LET a == CHOOSE x \in P : TRUE  b == CHOOSE y \in P \ {a} : TRUE IN ~Commute(S, st0, a, b))
          => PrintT(<<"VERDICT", cs.id, g, "unordered", P>>)
  /\ (done = MemOps(S)) =>
        LET ref == Run(Start(cs, g), cs.prog)
            tv  == [i \in 1..Len(S.tgt) |-> Ev(S, S.tgt[i], st0, val)]
        IN  IF Undecided(ref) THEN PrintT(<<"VERDICT", cs.id, g, "undecided-" \o ref.halt, done>>)
            ELSE IF ref.halt # "none" THEN PrintT(<<"VERDICT", cs.id, g, "reference-" \o ref.halt, done>>)
            ELSE IF ref.stack # tv \o SubSeq(st0, Len(S.src) + 1, Len(st0))
                   THEN PrintT(<<"VERDICT", cs.id, g, "stack", done>>)
            ELSE IF ~MemEq(ref, m) THEN PrintT(<<"VERDICT", cs.id, g, "mem", done>>)
            ELSE IF ~StoEq(ref, m) THEN PrintT(<<"VERDICT", cs.id, g, "sto", done>>)
            ELSE IF OrderBound(S, st0, val) # {} THEN PrintT(<<"VERDICT", cs.id, g, "commutative", OrderBound(S, st0, val)>>)
            ELSE TRUE
  /\ (done # MemOps(S) /\ \A id \in MemOps(S) \ done : ~Ready(done, id))
        => PrintT(<<"VERDICT", cs.id, g, "stuck", done>>)

Expected == FoldLeft(LAMBDA acc, cs : acc + Size(cs), 0, Cases)
Accepted ==
  /\ PrintT(<<"INITS", Expected>>)
  /\ TLCGet("stats").distinct >= Expected
=============================================================================
