--------------------------- MODULE PipelineFaults ---------------------------
(***************************************************************************)
(* Generator (G): the single-point faults of Pipeline for a contract of NB   *)
(* blocks = the initial states of the model, one per (block, stage, sticky), *)
(* plus the perturbation "wrongcand" (the search answers with a sequence     *)
(* that does not realize the specification; not a failure of the analysis,   *)
(* it exercises CompareNeq / EmitOld).  The harness injects each of them     *)
(* into the real optimizer by attribute rebinding (harness/worker_c10.py).   *)
(***************************************************************************)
EXTENDS Pipeline

FInit == st \in {Start(NB, SecOf, f, "all") : f \in Faults(NB)}
                \cup {Start(NB, SecOf, [b |-> b, stage |-> "wrongcand", sticky |-> FALSE], "all") : b \in 1..NB}
FNext == UNCHANGED st
FSpec == FInit /\ [][FNext]_st

Emit == PrintT(<<"F", st.fault.b, st.fault.stage, st.fault.sticky>>)
=============================================================================
