---------------------------- MODULE ReplayVerdict ----------------------------
(***************************************************************************)
(* Batch validator (V) for C11: outcome of a replay run (`-optimize-from-log`*)
(* of the real CLI, or optimize_asm_from_log in a worker process).           *)
(* A case is [id, kind, rc1, has1, h1, rc2, has2, h2, err]:                  *)
(*   kind "roundtrip": run 1 = optimization with -log, run 2 = replay of the *)
(*        log it wrote with the same input and options; h1/h2 = SHA-256 of   *)
(*        the two output files.  ReplayReproduces: both exist and h1 = h2.   *)
(*   kind "mutant": run 2 = replay of a mutated log.  Outcome classes:       *)
(*        "rejected"  no output and an error (non-zero exit / exception)     *)
(*        "accepted"  an output was written: every block of it is then       *)
(*                    compared with the input block by EVMEquiv              *)
(*        anything else is reported.                                         *)
(* A logging run that itself fails is C10's business: undecided here.        *)
(***************************************************************************)
EXTENDS Naturals, Sequences, Json, IOUtils, TLC

Cases == JsonDeserialize(IOEnv.CASES).cases

VARIABLE c

Class(cs) ==
  IF cs.kind = "roundtrip" THEN
    IF cs.rc1 # 0 \/ ~cs.has1 THEN "undecided: the logging run failed"
    ELSE IF cs.rc2 # 0 \/ ~cs.has2 THEN "violates: replay of the untampered log failed"
    ELSE IF cs.h1 # cs.h2 THEN "violates: replay of the untampered log writes different bytes"
    ELSE "reproduced"
  ELSE
    IF cs.has2 THEN "accepted"
    ELSE IF cs.rc2 # 0 \/ cs.err # "" THEN "rejected"
    ELSE "violates: neither an output nor an error"

Init == c = 1 /\ TLCSet(1, 0)
Next == /\ c <= Len(Cases)
        /\ PrintT(<<"OUTCOME", Cases[c].id, Class(Cases[c])>>)
        /\ TLCSet(1, c)
        /\ c' = c + 1
Spec == Init /\ [][Next]_c

Accepted ==
  /\ PrintT(<<"CONSUMED", TLCGet(1), Len(Cases)>>)
  /\ TLCGet(1) = Len(Cases)
=============================================================================
