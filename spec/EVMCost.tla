------------------------------- MODULE EVMCost -------------------------------
(***************************************************************************)
(* Independent cost of a block in the three criteria (C08), on the EVM.tla    *)
(* instruction form [op, k, w].                                              *)
(*   Size    assembler rule: 1 byte per opcode, PUSH 1 + max(1, bytes of the    *)
(*           constant), PUSH0 1, tag 0; pseudo-push widths by the tool's        *)
(*           documented convention (an assumption: they cannot be derived from   *)
(*           a block alone and are equal on both sides of every comparison)      *)
(*   Length  instructions other than tag                                      *)
(*   Gas     RUN-TIME gas of the concrete run from a machine state: Yellow-paper  *)
(*           tiers; SLOAD/SSTORE/BALANCE/EXTCODE* priced cold (2100/2600) on the  *)
(*           first access to a concrete slot/account in the block and warm (100)  *)
(*           afterwards; SSTORE as EIP-2200 with the value at block entry as the     *)
(*           original value: 100 if the value does not change or the slot is dirty,  *)
(*           2900 for the first change of a clean slot (reset price; no refunds);    *)
(*           KECCAK256 30 + 6/word, EXP 10 + 50/exponent byte, LOG 375 + 375/topic *)
(*           + 8/byte, copies 3 + 3/word.  No memory expansion.                  *)
(***************************************************************************)
EXTENDS EVM

SizeOfIns(ins) ==
  CASE ins.op = "PUSH" -> 1 + (IF Len(ins.w) = 0 THEN 1 ELSE Len(ins.w))
    [] ins.op = "tag" -> 0
    [] ins.op \in {"PUSHTAG", "PUSHDATA", "PUSHSUB"} -> 3
    [] ins.op \in {"PUSHSUBSIZE", "PUSHSIZE"} -> 5
    [] ins.op \in {"PUSHLIB", "PUSHDEPLOYADDRESS"} -> 21
    [] ins.op = "PUSHIMMUTABLE" -> 33
    [] ins.op = "ASSIGNIMMUTABLE" -> 35
    [] OTHER -> 1
SizeOfBlock(prog)   == FoldLeft(LAMBDA acc, ins : acc + SizeOfIns(ins), 0, prog)
LengthOfBlock(prog) == Len(SelectSeq(prog, LAMBDA ins : ins.op # "tag"))

GVeryLow == {"ADD", "SUB", "NOT", "LT", "GT", "SLT", "SGT", "EQ", "ISZERO", "AND", "OR", "XOR", "BYTE", "SHL", "SHR", "SAR",
             "CALLDATALOAD", "MLOAD", "MSTORE", "MSTORE8", "DUP", "SWAP"} \cup PushOps
GLow  == {"MUL", "DIV", "SDIV", "MOD", "SMOD", "SIGNEXTEND", "SELFBALANCE"}
GBase == (Env0Ops \ {"SELFBALANCE"}) \cup {"POP", "PUSH0", "RETURNDATASIZE", "GAS"}
Words32(n) == (n + 31) \div 32

\* acc = [st, gas, slots, written, accts]
GasStep(acc, ins) ==
  LET st == acc.st  s == st.stack  op == ins.op
      enough == st.halt = "none" /\ Known(ins) /\ Len(s) >= Pops(ins)
      g == IF ~enough THEN 0
           ELSE CASE op \in GVeryLow -> 3
                  [] op \in GLow -> 5
                  [] op \in {"ADDMOD", "MULMOD", "JUMP"} -> 8
                  [] op = "JUMPI" -> 10
                  [] op \in GBase -> 2
                  [] op = "JUMPDEST" -> 1
                  [] op = "EXP" -> 10 + 50 * NLen(s[2], NB)
                  [] op \in {"KECCAK256", "SHA3"} -> IF RangeOK(s[1], s[2]) THEN 30 + 6 * Words32(RangeLen(s[2])) ELSE 30
                  [] op = "SLOAD" -> IF s[1] \in acc.slots THEN 100 ELSE 2100
                  [] op = "SSTORE" -> (IF s[1] \in acc.slots THEN 0 ELSE 2100)
                                      + (IF StoAt(st, s[1]) = s[2] THEN 100                          \* no-op
                                         ELSE IF StoAt(st, s[1]) = InitSto(st.ss, s[1]) THEN 2900      \* clean slot
                                         ELSE 100)                                                    \* dirty slot
                  [] op \in {"BALANCE", "EXTCODESIZE", "EXTCODEHASH", "EXTCODECOPY"} -> IF s[1] \in acc.accts THEN 100 ELSE 2600
                  [] op = "BLOCKHASH" -> 20
                  [] op \in LogOps -> 375 * (Pops(ins) - 1) + (IF RangeOK(s[1], s[2]) THEN 8 * RangeLen(s[2]) ELSE 0)
                  [] op \in {"CALLDATACOPY", "CODECOPY", "RETURNDATACOPY"} -> 3 + (IF RangeOK(s[1], s[3]) THEN 3 * Words32(RangeLen(s[3])) ELSE 0)
                  [] op \in CallOps -> 100
                  [] op \in {"CREATE", "CREATE2"} -> 32000
                  [] op = "SELFDESTRUCT" -> 5000
                  [] OTHER -> 0
  IN  [st |-> Step(st, ins), gas |-> acc.gas + g,
       slots |-> IF enough /\ op \in {"SLOAD", "SSTORE"} THEN acc.slots \cup {s[1]} ELSE acc.slots,
       written |-> IF enough /\ op = "SSTORE" THEN acc.written \cup {s[1]} ELSE acc.written,
       accts |-> IF enough /\ op \in {"BALANCE", "EXTCODESIZE", "EXTCODEHASH", "EXTCODECOPY"} THEN acc.accts \cup {s[1]} ELSE acc.accts]
GasRun(st0, prog) ==
  FoldLeft(GasStep, [st |-> st0, gas |-> 0, slots |-> {}, written |-> {}, accts |-> {}], prog)
=============================================================================
