SPECIFICATION Spec
CONSTANTS
  NB = 3
  SecOf <- Sec3
  MaxSubs = 2
  Contain = "all"
  WithReplay = TRUE
  MaxTamper = 1
INVARIANTS TypeOK NoEscape FailureCostsOneBlock KeepOrRevert LogMatchesOutput ReplayReproduces TamperedLogErrorsOrEquivalent
CHECK_DEADLOCK FALSE
