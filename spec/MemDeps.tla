------------------------------ MODULE MemDeps ------------------------------
(***************************************************************************)
(* Design-level model (M) of the ordering constraints between memory        *)
(* accesses (C02): generate_dependences / simplify_dependences of           *)
(* sfs_generator/gasol_optimization.py, abstracted to byte ranges.           *)
(*                                                                         *)
(* An instance is a program-ordered sequence of N accesses, each a word     *)
(* store (32 bytes), a byte store (1 byte) or a word load at a constant     *)
(* offset.  Two accesses conflict when at least one is a store and their    *)
(* byte ranges intersect.  GenDeps scans, for every access, ALL its         *)
(* predecessors and emits an edge for every conflict (the pinned code);      *)
(* Reduce removes the edges implied by transitivity (simplify_dependences). *)
(* One TLC state per instance:                                              *)
(*   Sufficient   every linearization of the reduced edges leaves the same  *)
(*                memory and gives every load the same value as program     *)
(*                order (all store bytes distinct: the strongest observer); *)
(*   ClosureKept  Reduce keeps the transitive closure;                      *)
(*   ClosestOnlyRefuted (property of the whole model, cfg MemDepsRefute):   *)
(*                the variant that stops the backward scan at the closest   *)
(*                conflicting store -- "may overlap" is not transitive --   *)
(*                admits a linearization with a different outcome (this is   *)
(*                seeded change C02-closest-conflicting-store-only).        *)
(* The code is bound to this through SFSDenote (C02), which explores the     *)
(* linearizations of the dependences the real front-end emits.              *)
(***************************************************************************)
EXTENDS Naturals, Sequences, FiniteSets, TLC

CONSTANTS N,            \* accesses per instance
          Offs,         \* constant offsets
          ClosestOnly   \* TRUE: the refuted variant of the backward scan

Kinds == {"W32", "W1", "R32"}
Acc   == [k : Kinds, o : Offs]
VARIABLE inst
IsStore(a) == a.k # "R32"
Width(a)   == IF a.k = "W1" THEN 1 ELSE 32
Range(a)   == a.o .. (a.o + Width(a) - 1)
Conflict(a, b) == (IsStore(a) \/ IsStore(b)) /\ Range(a) \cap Range(b) # {}

\* edges <<j, i>>, j before i, as the backward scan over the predecessors of i emits them
RECURSIVE Scan(_, _, _, _)
Scan(s, i, j, stopped) ==
  IF j = 0 THEN {}
  ELSE LET hit == Conflict(s[j], s[i]) /\ ~stopped IN
       (IF hit THEN {<<j, i>>} ELSE {})
          \cup Scan(s, i, j - 1, stopped \/ (ClosestOnly /\ hit /\ IsStore(s[i]) /\ IsStore(s[j])))
GenDeps(s) == UNION {Scan(s, i, i - 1, FALSE) : i \in 1..Len(s)}

Closure(E) ==
  LET RECURSIVE C(_, _)
      C(S, k) == IF k = 0 THEN S
                 ELSE C(S \cup {<<a, b>> \in (1..N) \X (1..N) : \E m \in 1..N : <<a, m>> \in S /\ <<m, b>> \in S}, k - 1)
  IN  C(E, N)
Reduce(E) == {e \in E : e \notin Closure(E \ {e})}        \* the transitive reduction of a DAG is unique

Perms == {p \in [1..N -> 1..N] : \A a, b \in 1..N : a # b => p[a] # p[b]}     \* p[t] = access executed at time t
Respects(p, E) == \A e \in E : (CHOOSE t \in 1..N : p[t] = e[1]) < (CHOOSE t \in 1..N : p[t] = e[2])

\* memory: byte address -> <<store index, byte index>> (<<0, address>> initially); loads record what they read
MaxAddr == 40 + 32
Mem0 == [x \in 0..MaxAddr |-> <<0, x>>]
RECURSIVE Exec(_, _, _, _, _)
Exec(s, p, t, mem, seen) ==
  IF t > N THEN <<mem, seen>>
  ELSE LET i == p[t]  a == s[i] IN
       IF IsStore(a)
       THEN Exec(s, p, t + 1, [x \in 0..MaxAddr |-> IF x \in Range(a) THEN <<i, x - a.o>> ELSE mem[x]], seen)
       ELSE Exec(s, p, t + 1, mem, [seen EXCEPT ![i] = [x \in Range(a) |-> mem[x]]])
Outcome(s, p) == Exec(s, p, 1, Mem0, [i \in 1..N |-> <<>>])
Ident == [t \in 1..N |-> t]

Init == inst \in [1..N -> Acc]
Next == UNCHANGED inst
Spec == Init /\ [][Next]_inst

Sufficient ==
  LET E == Reduce(GenDeps(inst)) IN
  \A p \in Perms : Respects(p, E) => Outcome(inst, p) = Outcome(inst, Ident)
ClosureKept == Closure(Reduce(GenDeps(inst))) = Closure(GenDeps(inst))
ProgramOrder == \A e \in GenDeps(inst) : e[1] < e[2]

\* MemDepsRefute.cfg (ClosestOnly = TRUE): TLC must FIND an instance violating this
NeverWrong == Sufficient
=============================================================================
