------------------------------- MODULE SFSCost -------------------------------
(***************************************************************************)
(* C07, pass 2: exhaustive search over ALL sequences of SFSMachine within     *)
(* the published bounds, carrying the cost of the chosen criterion.  Reports  *)
(* every goal state cheaper than what the encoding offered:                   *)
(*   ubmodels  least cost among all models of the hard constraints (or -1      *)
(*             when the enumeration was not complete)                          *)
(*   optcost   cost of the sequence decoded from the solver's optimum (or -1)  *)
(*   sat       whether the hard constraints were satisfiable; known = whether   *)
(*             that is known (enumeration complete or a model found)           *)
(* case = [id, sfs, b0, bs, crit, ubmodels, optcost, sat, known, cap]           *)
(***************************************************************************)
EXTENDS SFSMachine, StaticCost, Json, IOUtils, TLC, Integers

Cases == JsonDeserialize(IOEnv.CASES).cases

VARIABLES inst, st, cost

Moves(S, s) ==
  {[id |-> "POP", k |-> 0, c |-> ""]}
  \cup {[id |-> "DUP", k |-> k, c |-> ""] : k \in 1..(IF Len(s.stack) < 16 THEN Len(s.stack) ELSE 16)}
  \cup {[id |-> "SWAP", k |-> k, c |-> ""] : k \in 1..(IF Len(s.stack) - 1 < 16 THEN Len(s.stack) - 1 ELSE 16)}
  \cup {[id |-> S.ins[i].id, k |-> 0, c |-> ""] : i \in 1..Len(S.ins)}

Init == inst \in 1..Len(Cases) /\ st = Start(Cases[inst].sfs) /\ cost = 0
Next ==
  LET cs == Cases[inst]  S == cs.sfs IN
  /\ ~Goal(S, st)
  /\ TLCGet("level") <= cs.b0
  /\ \E ev \in Moves(S, st) :
       LET r == Try(S, st, ev)  nc == cost + EvCost(S, ev, cs.crit) IN
       /\ r.err = ""
       /\ Len(r.stack) <= cs.bs
       /\ nc <= cs.cap                                \* nothing above the best known program matters
       /\ st' = [stack |-> r.stack, done |-> r.done]
       /\ cost' = nc
  /\ UNCHANGED inst
Spec == Init /\ [][Next]_<<inst, st, cost>>

Report ==
  LET cs == Cases[inst] IN
  Goal(cs.sfs, st) =>
    /\ PrintT(<<"GOAL", cs.id, cost, TLCGet("level") - 1>>)
    /\ (cs.known /\ ~cs.sat) => PrintT(<<"VERDICT", cs.id, cost, "realizable within the bounds but the hard constraints are unsatisfiable">>)
    /\ (cs.ubmodels >= 0 /\ cost < cs.ubmodels)
          => PrintT(<<"VERDICT", cs.id, cost, "a cheaper realizing sequence is excluded by the hard constraints", cs.ubmodels>>)
    /\ (cs.optcost >= 0 /\ cost < cs.optcost)
          => PrintT(<<"VERDICT", cs.id, cost, "the solver's optimum is costlier than a realizing sequence", cs.optcost>>)
=============================================================================
