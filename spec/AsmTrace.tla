------------------------------ MODULE AsmTrace ------------------------------
(***************************************************************************)
(* Batch validator (V) of property C14.  A case records, for one block and   *)
(* one split policy, what the real code did:                                 *)
(*   id, name (block name), policy                                           *)
(*   items  the distinct item records of the case; block, marker and every   *)
(*          recorded reassembly result are sequences of indices into items   *)
(*          (equal indices <=> equal records: the harness interns them)      *)
(*   subs   sub-block list reported by the front-end of the normal pipeline  *)
(*   has2, subs2   the list reported by the predictor path (get_subblocks)   *)
(*   keys   Seq([key, src, tgt, orig]) one per specification: its key, the   *)
(*          sizes of its source and target stack, its `original_instrs`      *)
(*   rbs    Seq([which, k, exc, out]) one per call of the real reassembly:   *)
(*          which = 1/2 (sub-block list used), k = 0 nothing replaced, else  *)
(*          sub-block k (1-based) replaced by marker; exc = "" or exception  *)
(* Stage 0 checks ValidSplit, stage 1 the keys and the stack relations,      *)
(* stage 1 + j the j-th reassembly against Asm!Rebuild.  The first failing   *)
(* clause of a case is printed as <<"VERDICT", id, position, clause>> and    *)
(* the case is closed.  Counters of what was exercised are printed at the    *)
(* end (<<"STATS", ...>>); they feed the vacuity guards, never a verdict.    *)
(***************************************************************************)
EXTENDS Asm, Json, IOUtils

Cases == JsonDeserialize(IOEnv.CASES).cases

VARIABLES c, stage, stat

\* stat: <<cases with >= 2 sub-blocks, with consecutive splits, with an empty sub-block,
\*         partitioned at a store, keys checked, reassemblies compared, undecided, split inside (diagnostic)>>
Zero == <<0, 0, 0, 0, 0, 0, 0, 0>>
Bump(s, i, n) == [s EXCEPT ![i] = @ + n]
B2N(b) == IF b THEN 1 ELSE 0

Init == c = 1 /\ stage = 0 /\ stat = Zero /\ TLCSet(1, 0)

NextCase(s) ==
  /\ TLCSet(1, c)
  /\ c' = c + 1 /\ stage' = 0 /\ stat' = s
  /\ IF c = Len(Cases) THEN PrintT(<<"STATS", s>>) ELSE TRUE

Fail(cs, pos, clause) == PrintT(<<"VERDICT", cs.id, pos, clause>>) /\ NextCase(stat)

SubsOf(cs, which) == IF which = 1 THEN cs.subs ELSE cs.subs2
\* the item sequence an index sequence stands for (forced to an explicit tuple)
Mat(cs, ix) == FoldLeft(LAMBDA acc, i : Append(acc, cs.items[i]), <<>>, ix)
Blk(cs) == Mat(cs, cs.block)

\* ----- stage 0 -------------------------------------------------------------
SplitStats(cs) ==
  LET S == cs.subs  K == Len(S)  O == Optimizable(Blk(cs))  B == Bounds(S)
      consec == \E k \in 2..(K - 1) : Len(S[k]) = 2
      empty  == \E k \in 1..K : IHi(S, k) < ILo(S, k)
      store  == cs.policy = "partition" /\ \E k \in 1..(K - 1) : O[B[k][2]].n \in StoreNames
      inside == ~NoSplitInside(Blk(cs), S, cs.policy)
  IN  Bump(Bump(Bump(Bump(Bump(stat, 1, B2N(K >= 2)), 2, B2N(consec)), 3, B2N(empty)), 4, B2N(store)), 8, B2N(inside))

Stage0(cs) ==
  LET v1 == SplitVerdict(Blk(cs), cs.subs, cs.policy) IN
  IF v1[1] # "ok" THEN Fail(cs, v1[2], "split: " \o v1[1])
  ELSE LET v2 == IF cs.has2 THEN SplitVerdict(Blk(cs), cs.subs2, cs.policy) ELSE <<"ok", 0>> IN
       IF v2[1] # "ok" THEN Fail(cs, v2[2], "split (get_subblocks): " \o v2[1])
       ELSE c' = c /\ stage' = 1 /\ stat' = SplitStats(cs)

\* ----- stage 1 -------------------------------------------------------------
\* sub-blocks (1-based) a key names: key = <block name>_<k-1>
Named(cs, key) == {k \in 1..Len(cs.subs) : key = cs.name \o "_" \o ToString(k - 1)}

KeyVerdict(cs, i) ==
  LET q == cs.keys[i]  N == Named(cs, q.key) IN
  IF Cardinality(N) # 1 THEN "key names no reported sub-block"
  ELSE LET k == CHOOSE x \in N : TRUE IN
       IF \E j \in 1..(i - 1) : cs.keys[j].key = q.key THEN "two specifications for one sub-block"
       ELSE IF q.orig # InteriorEntries(cs.subs, k) THEN "specification is about other instructions than its sub-block"
       ELSE IF ~SourceFits(Blk(cs), cs.subs, k, q.src) THEN "source stack deeper than the stack the previous sub-block leaves"
       ELSE IF ~DeltaFits(Blk(cs), cs.subs, k, q.src, q.tgt) THEN "stack sizes do not match the net effect of the sub-block"
       ELSE "ok"

Stage1(cs) ==
  LET bad == {i \in 1..Len(cs.keys) : KeyVerdict(cs, i) # "ok"} IN
  IF bad # {} THEN LET i == CHOOSE x \in bad : \A y \in bad : x <= y IN Fail(cs, i, "keys: " \o KeyVerdict(cs, i))
  ELSE c' = c /\ stage' = 2 /\ stat' = Bump(stat, 5, Len(cs.keys))

\* ----- stage 2.. -----------------------------------------------------------
StageRb(cs, j) ==
  LET r == cs.rbs[j]  S == SubsOf(cs, r.which)  K == Len(S)
      what == (IF r.k = 0 THEN "nothing replaced" ELSE "sub-block " \o ToString(r.k) \o " replaced")
              \o (IF r.which = 2 THEN " (get_subblocks)" ELSE "")
  IN
  IF r.exc # "" THEN Fail(cs, r.k, "rebuild raised, " \o what \o ": " \o r.exc)
  ELSE IF r.k > 0 /\ ~SegmentClean(Blk(cs), S, r.k)
       THEN c' = c /\ stage' = stage + 1 /\ stat' = Bump(stat, 7, 1)        \* undecided: replacing is not specified here
  ELSE LET want == Rebuild(Blk(cs), S, IF r.k = 0 THEN NoRepl(K) ELSE OneRepl(K, r.k, Mat(cs, cs.marker)))
           got  == Mat(cs, r.out) IN
       IF got # want THEN Fail(cs, FirstDiff(got, want), "rebuild differs, " \o what)
       ELSE c' = c /\ stage' = stage + 1 /\ stat' = Bump(stat, 6, 1)

Next ==
  /\ c <= Len(Cases)
  /\ LET cs == Cases[c] IN
     IF stage = 0 THEN Stage0(cs)
     ELSE IF stage = 1 THEN Stage1(cs)
     ELSE IF stage - 1 <= Len(cs.rbs) THEN StageRb(cs, stage - 1)
     ELSE NextCase(stat)

Spec == Init /\ [][Next]_<<c, stage, stat>>

Accepted ==
  /\ PrintT(<<"CONSUMED", TLCGet(1), Len(Cases)>>)
  /\ TLCGet(1) = Len(Cases)
=============================================================================
