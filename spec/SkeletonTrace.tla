--------------------------- MODULE SkeletonTrace ---------------------------
(***************************************************************************)
(* Batch validator (V) for C09.  A case is one run of the real command line  *)
(* tool on one solc document:                                               *)
(*   id, policy ("default" / "storage" / "partition"), push0 ("on"/"off"),   *)
(*   status   "ok", or why there is no output to judge ("no output: ...")    *)
(*   in       the abstract document (AsmDoc.tla) of the input file           *)
(*   out      the abstract document of the emitted file, read by the         *)
(*            harness's own JSON reader                                      *)
(*   rstatus  "ok" or "raised: ..." : the tool's parser on the emitted file  *)
(*   requal, rndiff, rdiffs   parse_asm(emitted file).to_json() against the  *)
(*            emitted file: the harness compared the two JSON values         *)
(*            (requal) and logged the positions where they are not the same  *)
(*            value (rndiff of them, the first ones in rdiffs), an element   *)
(*            of a .code list as a whole abstract item [path, what, a, b]    *)
(*   sel      "" or the full name of the selected contract (-c): then `out`  *)
(*            is that contract alone and `in` is restricted to it            *)
(* One TLC state per (case, instruction stream); step 0 of a case judges the *)
(* metadata and the re-parse, step k the k-th stream of DocSections.         *)
(*                                                                         *)
(* Clauses                                                                  *)
(*   metadata   MetaDoc(out) = MetaDoc(in)  (a contract written {"asm":null} *)
(*              and one written {} both are "without asm": Lenient)         *)
(*   skeleton   Skeleton(out stream) = Skeleton(in stream)                  *)
(*   <item clause>  every emitted item of every block is a WellFormedItem    *)
(*   reparse    the tool's parser re-reads the emitted file to the same      *)
(*              document: with PUSH0 off requal; with PUSH0 on every logged  *)
(*              difference is a pair of items with the same Norm (the        *)
(*              documented PUSH 0 / PUSH0 spelling, AsmDoc.tla)              *)
(* Output: <<"VERDICT", id, position, clause, witness>> per failing clause   *)
(* (a skeleton difference once per stream, an ill-formed item once per       *)
(* stream and (clause, opcode)), <<"UNDECIDED", id, why>>, <<"GUARDS",       *)
(* changed blocks, emitted items judged, streams, undecided cases>>.         *)
(***************************************************************************)
EXTENDS Skeleton, Json, IOUtils

Cases == JsonDeserialize(IOEnv.CASES).cases

VARIABLES c, s

Count(k, n) == TLCSet(k, TLCGet(k) + n)
Fail(cs, pos, clause, wit) == PrintT(<<"VERDICT", cs.id, pos, clause, wit>>)

In(cs)  == IF cs.sel = "" THEN Lenient(cs.in) ELSE OnlyContract(Lenient(cs.in), cs.sel)
Out(cs) == Lenient(cs.out)

MetaOK(cs) == MetaDoc(Out(cs)) = MetaDoc(In(cs))

Step0(cs) ==
  IF cs.status # "ok" THEN PrintT(<<"UNDECIDED", cs.id, cs.status>>) /\ Count(5, 1)
  ELSE IF ~IsDoc(cs.in) THEN PrintT(<<"MACHINERY", cs.id, "input is not an abstract document">>)
  ELSE IF ~IsDoc(cs.out) THEN Fail(cs, <<>>, "metadata", <<"output is not a document">>)
  ELSE /\ IF MetaOK(cs) THEN TRUE
          ELSE Fail(cs, <<>>, "metadata", DiffDoc(MetaDoc(In(cs)), MetaDoc(Out(cs))))
       /\ IF cs.rstatus # "ok" THEN Fail(cs, <<>>, "reparse", <<cs.rstatus>>)
          ELSE IF cs.sel # "" THEN TRUE                   \* a single-contract file is not an input of parse_asm
          ELSE IF (cs.requal <=> cs.rndiff # 0) \/ Len(cs.rdiffs) > cs.rndiff
               THEN PrintT(<<"MACHINERY", cs.id, "difference log inconsistent">>)
          ELSE IF cs.push0 = "off" THEN
               IF cs.requal THEN TRUE ELSE Fail(cs, <<>>, "reparse", <<cs.rdiffs[1].path>>)
          ELSE LET bad == {i \in 1..Len(cs.rdiffs) :
                             \/ cs.rdiffs[i].what # "item"
                             \/ ~IsItem(cs.rdiffs[i].a) \/ ~IsItem(cs.rdiffs[i].b)
                             \/ NormItem(cs.rdiffs[i].a) # NormItem(cs.rdiffs[i].b)}
               IN  IF bad = {} THEN TRUE ELSE Fail(cs, <<>>, "reparse", <<cs.rdiffs[MinOf(bad)].path>>)

Judged(cs) == cs.status = "ok" /\ IsDoc(cs.in) /\ IsDoc(cs.out) /\ MetaOK(cs)
NSections(cs) == IF Judged(cs) THEN Len(DocSections(In(cs))) ELSE 0

StepK(cs, k) ==
  LET si == DocSections(In(cs))[k]  so == DocSections(Out(cs))[k]
      rp == SectionReport(si.code, so.code, cs.policy)
      vs == rp.verdicts
  IN  /\ \A j \in 1..Len(vs) : Fail(cs, <<si.contract, si.path>> \o vs[j][2], vs[j][1], vs[j][3])
      /\ Count(2, rp.changed)
      /\ Count(3, rp.emitted)
      /\ Count(4, 1)

Init == c = 1 /\ s = 0 /\ TLCSet(1, 0) /\ TLCSet(2, 0) /\ TLCSet(3, 0) /\ TLCSet(4, 0) /\ TLCSet(5, 0)
Next ==
  /\ c <= Len(Cases)
  /\ LET cs == Cases[c] IN
     /\ IF s = 0 THEN Step0(cs) ELSE StepK(cs, s)
     /\ IF s < NSections(cs) THEN c' = c /\ s' = s + 1
        ELSE TLCSet(1, c) /\ c' = c + 1 /\ s' = 0
Spec == Init /\ [][Next]_<<c, s>>

Accepted ==
  /\ PrintT(<<"CONSUMED", TLCGet(1), Len(Cases)>>)
  /\ PrintT(<<"GUARDS", TLCGet(2), TLCGet(3), TLCGet(4), TLCGet(5)>>)
  /\ TLCGet(1) = Len(Cases)
=============================================================================
