------------------------------ MODULE Formula ------------------------------
(***************************************************************************)
(* Formulas of the constraint-construction interface (C18) and their truth  *)
(* value with SMT-LIB meaning.                                               *)
(*                                                                         *)
(* A node is a record [k, n, i, a] (every node has all four fields, so that  *)
(* TLC never compares an integer with a string):                             *)
(*   k  kind: "and" "or" "not" "=>" "=" "<" "<=" "distinct"   connectors     *)
(*            "bool" (literal, i = 1 for true, 0 for false)                  *)
(*            "int"  (literal, value i)                                      *)
(*            "bvar" / "ivar"  declared constant of sort Bool / Int, name n  *)
(*            "iapp" application of the declared function n : Int -> Int     *)
(*            "none" no formula (a call that raised, unreadable text, a      *)
(*                   term of a sort this module does not interpret)          *)
(*   a  the sequence of children                                             *)
(*                                                                         *)
(* SORTS.  SMT-LIB is many-sorted: `=` and `distinct` take arguments of one  *)
(* sort, and/or/not/=> take Bool, < and <= take Int.  Sort(f) is "bool",     *)
(* "int" or "bad".  The Python interface is untyped and its own tests build  *)
(* ill-sorted formulas (an integer constant under `or`, `True == 1` holds in *)
(* Python, so add_eq(True, 1) folds to True).  SMT-LIB gives an ill-sorted   *)
(* term NO meaning (it is not "false", it is rejected); the property speaks  *)
(* of truth values, which only well-sorted formulas have.  Intended meaning  *)
(* fixed here: EvalB/EvalI are defined on well-sorted nodes only; every      *)
(* check on a call or a pair that involves a node of sort "bad" is           *)
(* UNDECIDED (counted, never alarmed).  In particular equality between a     *)
(* boolean and an integer literal is undecided whatever the code answers.    *)
(*                                                                         *)
(* n-ary and/or: conjunction / disjunction of all children (one child: the   *)
(* child itself; this only occurs in unsimplified calls).  `distinct`:       *)
(* pairwise different.  `=`: two children, iff on Bool, equality on Int.     *)
(***************************************************************************)
EXTENDS Integers, Sequences, FiniteSets

Node(k, n, i, a) == [k |-> k, n |-> n, i |-> i, a |-> a]
NoneNode   == Node("none", "", 0, <<>>)
BoolLit(b) == Node("bool", "", IF b THEN 1 ELSE 0, <<>>)
IntLit(i)  == Node("int", "", i, <<>>)
BVar(n)    == Node("bvar", n, 0, <<>>)
IVar(n)    == Node("ivar", n, 0, <<>>)
IApp(n, args) == Node("iapp", n, 0, args)

\* the declarations (what `declare-fun` lines would say)
BoolAtoms == {"p", "q"}
IntAtoms  == {"a", "b"}
IntFuns   == {"f"}                  \* f : Int -> Int
CoreOps   == {"and", "or", "not", "=>", "=", "<", "<=", "distinct"}

RECURSIVE Sort(_)
Sort(f) ==
  LET n  == Len(f.a)
      ss == {Sort(f.a[j]) : j \in 1..n}
  IN  CASE f.k = "bool"     -> IF n = 0 /\ f.i \in {0, 1} THEN "bool" ELSE "bad"
        [] f.k = "int"      -> IF n = 0 THEN "int" ELSE "bad"
        [] f.k = "bvar"     -> IF n = 0 /\ f.n \in BoolAtoms THEN "bool" ELSE "bad"
        [] f.k = "ivar"     -> IF n = 0 /\ f.n \in IntAtoms THEN "int" ELSE "bad"
        [] f.k = "iapp"     -> IF n = 1 /\ f.n \in IntFuns /\ ss = {"int"} THEN "int" ELSE "bad"
        [] f.k \in {"and", "or"} -> IF n >= 1 /\ ss = {"bool"} THEN "bool" ELSE "bad"
        [] f.k = "not"      -> IF n = 1 /\ ss = {"bool"} THEN "bool" ELSE "bad"
        [] f.k = "=>"       -> IF n = 2 /\ ss = {"bool"} THEN "bool" ELSE "bad"
        [] f.k = "="        -> IF n = 2 /\ (ss = {"bool"} \/ ss = {"int"}) THEN "bool" ELSE "bad"
        [] f.k \in {"<", "<="} -> IF n = 2 /\ ss = {"int"} THEN "bool" ELSE "bad"
        [] f.k = "distinct" -> IF n >= 2 /\ (ss = {"bool"} \/ ss = {"int"}) THEN "bool" ELSE "bad"
        [] OTHER            -> "bad"

\* the declared symbols that occur in f
RECURSIVE Atoms(_)
Atoms(f) == (IF f.k \in {"bvar", "ivar", "iapp"} THEN {f.n} ELSE {})
            \cup UNION {Atoms(f.a[j]) : j \in 1..Len(f.a)}

(***************************************************************************)
(* Valuations: p, q range over BOOLEAN, a, b over IntRange (one value below  *)
(* and one above the constants 0..3 the generator uses, so that both sides   *)
(* of every comparison with a constant are reached), f over three            *)
(* interpretations.  Every valuation is a genuine SMT-LIB model of the       *)
(* declarations, so a difference found here is a real difference.            *)
(***************************************************************************)
IntRange == -1..4
FNames   == {"id", "zero", "succ"}
FApply(name, x) == CASE name = "id" -> x [] name = "zero" -> 0 [] OTHER -> x + 1

Valuations  == [p : BOOLEAN, q : BOOLEAN, a : IntRange, b : IntRange, f : FNames]
\* EvalB/EvalI read a symbol only where it occurs, so the symbols that do not occur in any of the
\* formulas fs are fixed to one value: the quantification over Valuations loses nothing by it
ValsFor(fs) ==
  LET at == UNION {Atoms(fs[j]) : j \in 1..Len(fs)} IN
  [p : IF "p" \in at THEN BOOLEAN ELSE {FALSE}, q : IF "q" \in at THEN BOOLEAN ELSE {FALSE},
   a : IF "a" \in at THEN IntRange ELSE {0},    b : IF "b" \in at THEN IntRange ELSE {0},
   f : IF "f" \in at THEN FNames ELSE {"id"}]
Show(v) == <<v.p, v.q, v.a, v.b, v.f>>

RECURSIVE EvalB(_, _), EvalI(_, _)
EvalI(f, v) ==
  CASE f.k = "int"  -> f.i
    [] f.k = "ivar" -> v[f.n]
    [] f.k = "iapp" -> FApply(v.f, EvalI(f.a[1], v))

EvalB(f, v) ==
  LET n == Len(f.a) IN
  CASE f.k = "bool" -> f.i = 1
    [] f.k = "bvar" -> v[f.n]
    [] f.k = "and"  -> \A j \in 1..n : EvalB(f.a[j], v)
    [] f.k = "or"   -> \E j \in 1..n : EvalB(f.a[j], v)
    [] f.k = "not"  -> ~EvalB(f.a[1], v)
    [] f.k = "=>"   -> EvalB(f.a[1], v) => EvalB(f.a[2], v)
    [] f.k = "="    -> IF Sort(f.a[1]) = "bool" THEN EvalB(f.a[1], v) = EvalB(f.a[2], v)
                                                ELSE EvalI(f.a[1], v) = EvalI(f.a[2], v)
    [] f.k = "<"    -> EvalI(f.a[1], v) < EvalI(f.a[2], v)
    [] f.k = "<="   -> EvalI(f.a[1], v) <= EvalI(f.a[2], v)
    [] f.k = "distinct" ->
         IF Sort(f.a[1]) = "bool"
         THEN \A i \in 1..n : \A j \in (i + 1)..n : EvalB(f.a[i], v) # EvalB(f.a[j], v)
         ELSE \A i \in 1..n : \A j \in (i + 1)..n : EvalI(f.a[i], v) # EvalI(f.a[j], v)

\* the valuations on which two bool-sorted formulas differ
Differ(x, y) == {v \in ValsFor(<<x, y>>) : EvalB(x, v) # EvalB(y, v)}
=============================================================================
