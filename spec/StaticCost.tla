----------------------------- MODULE StaticCost -----------------------------
(***************************************************************************)
(* Context-free cost of one instruction of an SFS sequence, per criterion     *)
(* (C07).  Gas: the Yellow-paper tier of every opcode whose price does not     *)
(* depend on the machine state; for state- or size-dependent opcodes (EXP,     *)
(* KECCAK256, SLOAD, SSTORE, BALANCE, EXTCODE*, BLOCKHASH) the documented       *)
(* static convention recorded in the specification itself (field gas: cold     *)
(* access, one word, one exponent byte) is used.  Size: one byte per opcode,   *)
(* PUSH = 1 + significant bytes of the constant, PUSH0 = 1; pseudo-pushes use   *)
(* the width recorded in the specification.  Length: 1 per instruction.        *)
(***************************************************************************)
EXTENDS Naturals, Sequences

VeryLow == {"ADD", "SUB", "NOT", "LT", "GT", "SLT", "SGT", "EQ", "ISZERO", "AND", "OR", "XOR", "BYTE", "CALLDATALOAD",
            "MLOAD", "MSTORE", "MSTORE8", "SHL", "SHR", "SAR", "PUSH", "PUSH [tag]", "PUSH #[$]", "PUSH [$]", "PUSH data",
            "PUSHLIB", "PUSHDEPLOYADDRESS", "PUSHSIZE", "PUSHIMMUTABLE"}
Low     == {"MUL", "DIV", "SDIV", "MOD", "SMOD", "SIGNEXTEND", "SELFBALANCE"}
Mid     == {"ADDMOD", "MULMOD"}
Base    == {"ADDRESS", "ORIGIN", "CALLER", "CALLVALUE", "CALLDATASIZE", "CODESIZE", "GASPRICE", "COINBASE", "TIMESTAMP",
            "NUMBER", "DIFFICULTY", "PREVRANDAO", "GASLIMIT", "CHAINID", "BASEFEE", "RETURNDATASIZE", "PUSH0", "POP"}

\* hex digits of a constant element "#ff" -> number of bytes (at least 1)
ConstBytes(c) == LET d == Len(c) - 1 IN IF d <= 0 THEN 1 ELSE (d + 1) \div 2

\* ins: an SFS instruction record [op, gas, size, val, ...]
GasOf(ins)  == IF ins.op \in VeryLow THEN 3 ELSE IF ins.op \in Low THEN 5 ELSE IF ins.op \in Mid THEN 8
               ELSE IF ins.op \in Base THEN 2 ELSE ins.gas
SizeOf(ins) == IF ins.op = "PUSH" THEN 1 + ConstBytes(ins.val) ELSE IF ins.op = "PUSH0" THEN 1
               ELSE IF ins.push THEN ins.size ELSE 1

\* ev: a trace event [id, k, c]; S the specification
InsFor(S, id) == S.ins[CHOOSE i \in 1..Len(S.ins) : S.ins[i].id = id]
EvCost(S, ev, crit) ==
  IF ev.id = "NOP" THEN 0
  ELSE IF crit = "length" THEN 1
  ELSE IF ev.id \in {"DUP", "SWAP"} THEN (IF crit = "gas" THEN 3 ELSE 1)
  ELSE IF ev.id = "POP" THEN (IF crit = "gas" THEN 2 ELSE 1)
  ELSE IF ev.id = "PUSHC" THEN (IF crit = "gas" THEN (IF ev.c = "#0" THEN 2 ELSE 3)
                                ELSE (IF ev.c = "#0" THEN 1 ELSE 1 + ConstBytes(ev.c)))
  ELSE IF crit = "gas" THEN GasOf(InsFor(S, ev.id)) ELSE SizeOf(InsFor(S, ev.id))
=============================================================================
