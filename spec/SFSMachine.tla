----------------------------- MODULE SFSMachine -----------------------------
(***************************************************************************)
(* The symbolic stack machine over a stack functional specification (SFS).   *)
(*                                                                         *)
(* An SFS S (projected from the JSON the front-end writes) is a record       *)
(*   src, tgt : Seq(STRING)    initial / final stack, top first; an element  *)
(*                             is a variable name "s(3)" or a constant "#ff" *)
(*   ins      : Seq([id, op, inp, out, comm, sto, push, gas, size])          *)
(*   deps     : Seq(<<id, id>>)   happens-before pairs                       *)
(*   b0, bs   : Nat               published length and stack bounds          *)
(* A machine state is [stack, done]: the symbolic stack and the set of       *)
(* instruction ids executed so far.                                          *)
(*                                                                         *)
(* Try(S, st, id) attempts one step and names the first conjunct that        *)
(* fails, so the same definition serves trace validation (SFSTrace: every    *)
(* recorded id must be an enabled step) and exhaustive search (SFSSearch).   *)
(***************************************************************************)
EXTENDS Naturals, Sequences, FiniteSets, SequencesExt

InsIds(S)   == {S.ins[i].id : i \in 1..Len(S.ins)}
InsOf(S, id) == S.ins[CHOOSE i \in 1..Len(S.ins) : S.ins[i].id = id]
Stores(S)   == {S.ins[i].id : i \in {j \in 1..Len(S.ins) : S.ins[j].sto}}
Before(S, id) == {S.deps[i][1] : i \in {j \in 1..Len(S.deps) : S.deps[j][2] = id}}   \* must precede id
After(S, id)  == {S.deps[i][2] : i \in {j \in 1..Len(S.deps) : S.deps[j][1] = id}}   \* must follow id

IsDup(id)  == Len(id) > 3 /\ SubSeq(id, 1, 3) = "DUP"
IsSwap(id) == Len(id) > 4 /\ SubSeq(id, 1, 4) = "SWAP"

Rest(s, k) == SubSeq(s, k + 1, Len(s))
Ok(st)      == [err |-> "", stack |-> st.stack, done |-> st.done]
Fail(st, e) == [err |-> e, stack |-> st.stack, done |-> st.done]

\* an event is [id, k, c]: k of DUPk / SWAPk (the harness splits "DUP3" into name and k), c the constant of a basic PUSH
Try(S, st, ev) ==
  LET s == st.stack  n == Len(s)  id == ev.id  k == ev.k IN
  IF id = "NOP" THEN Ok(st)
  ELSE IF id = "POP" THEN
         IF n < 1 THEN Fail(st, "underflow") ELSE [Ok(st) EXCEPT !.stack = Tail(s)]
  ELSE IF id = "DUP" THEN
         IF k < 1 \/ k > 16 THEN Fail(st, "depth")
         ELSE IF n < k THEN Fail(st, "underflow")
         ELSE [Ok(st) EXCEPT !.stack = <<s[k]>> \o s]
  ELSE IF id = "SWAP" THEN
         IF k < 1 \/ k > 16 THEN Fail(st, "depth")
         ELSE IF n < k + 1 THEN Fail(st, "underflow")
         ELSE [Ok(st) EXCEPT !.stack = [s EXCEPT ![1] = s[k + 1], ![k + 1] = s[1]]]
  ELSE IF id = "PUSHC" THEN [Ok(st) EXCEPT !.stack = <<ev.c>> \o s]      \* basic PUSH of the constant ev.c
  ELSE IF id \notin InsIds(S) THEN Fail(st, "unknown id")
  ELSE
    LET i == InsOf(S, id)  a == i.inp  m == Len(a) IN
    IF n < m THEN Fail(st, "underflow")
    ELSE IF ~( (\A j \in 1..m : s[j] = a[j])
               \/ (i.comm /\ m = 2 /\ s[1] = a[2] /\ s[2] = a[1]) ) THEN Fail(st, "operands")
    ELSE IF i.sto /\ id \in st.done THEN Fail(st, "store twice")
    ELSE IF ~(Before(S, id) \subseteq st.done) THEN Fail(st, "dependency")
    ELSE IF After(S, id) \cap st.done # {} THEN Fail(st, "after dependent")
    ELSE [err |-> "", stack |-> i.out \o Rest(s, m), done |-> st.done \cup {id}]

Start(S) == [stack |-> S.src, done |-> {}]
Goal(S, st) == st.stack = S.tgt /\ Stores(S) \subseteq st.done

\* a specification is well formed: unique ids, dependency ids exist, every output variable has one producer
WellFormed(S) ==
  /\ \A i, j \in 1..Len(S.ins) : i # j => S.ins[i].id # S.ins[j].id
  /\ \A d \in 1..Len(S.deps) : S.deps[d][1] \in InsIds(S) /\ S.deps[d][2] \in InsIds(S)
  /\ \A i, j \in 1..Len(S.ins) : i # j => \A x \in 1..Len(S.ins[i].out) : \A y \in 1..Len(S.ins[j].out) :
                                             S.ins[i].out[x] # S.ins[j].out[y]
=============================================================================
