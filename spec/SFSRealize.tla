------------------------------ MODULE SFSRealize ------------------------------
(***************************************************************************)
(* Lock-step product of the symbolic stack machine (SFSMachine) and the      *)
(* concrete machine (EVM): the composition theorem behind C01 = C02 + C04.   *)
(*                                                                         *)
(* SFSMachine says which instruction sequences a back-end (greedy, or any    *)
(* model of the Max-SMT encoding) may return for a specification S:          *)
(* the sequences that end in Goal.  SFSDenote says what S means.  This       *)
(* module explores EVERY sequence SFSMachine accepts within the published    *)
(* bounds (length <= b0, height <= bs) and, in the same step, executes the   *)
(* instruction on a concrete machine state; at every Goal state the          *)
(* concrete stack, memory and storage must equal the concrete run of the     *)
(* sub-block S was derived from.  So a verdict here means: the specification *)
(* admits a realizing sequence that is NOT equivalent to the block - either  *)
(* S lacks an ordering constraint / carries a stale operand-order flag, or   *)
(* the happens-before reading of SFSMachine (the oracle of C04, C06, C07,    *)
(* C16) is too weak.  It quantifies over all back-ends at once, whereas C01  *)
(* sees only the sequence one back-end happened to choose.                   *)
(*                                                                         *)
(* case = [id, sfs, prog, cap, b0, bs]; sfs as in SFSDenote plus sto (store  *)
(* flag per instruction) and pick (grid sample size).  One initial state per (case, picked grid state).          *)
(* A load may be executed several times (SFSMachine allows it as long as no   *)
(* occurrence follows a store it is ordered before): the concrete machine    *)
(* reads memory each time, so a re-computation that is not harmless shows.   *)
(***************************************************************************)
EXTENDS EVM, Grid, Json, IOUtils

M == INSTANCE SFSMachine

Input == JsonDeserialize(IOEnv.CASES)
Cases == Input.cases
Seed  == Input.seed

VARIABLES c, g, sym, con
vars == <<c, g, sym, con>>

Depth(cs) == LET a == Len(cs.sfs.src)  b == MinDepth(cs.prog) IN IF a > b THEN a ELSE b
Size(cs)  == IF Depth(cs) = 0 THEN 2 ELSE GridSize(Depth(cs), Len(V16), cs.cap)
Stack0(cs, idx) == IF Depth(cs) = 0 THEN <<>> ELSE GridStack(Depth(cs), V16, cs.cap, Seed, idx)
Start(cs, idx)  == InitState(Stack0(cs, idx), idx % 3, idx % 2)
\* the product is explored on a sample of the grid: both generic states, and a seeded stride sample of the others up to cs.pick
Pick(cs) ==
  LET n == Size(cs)  k == cs.pick IN
  IF n <= k \/ k < 3 THEN 1..n
  ELSE {1, 2} \cup {3 + ((((j * (n - 2)) \div (k - 2)) + Seed) % (n - 2)) : j \in 0..(k - 3)}

\* the moves a back-end has: stack manipulation within reach of the symbolic stack, and the specification's instructions
Moves(S, s) ==
  {[id |-> "POP", k |-> 0, c |-> ""]}
  \cup {[id |-> "DUP", k |-> k, c |-> ""] : k \in 1..(IF Len(s.stack) < 16 THEN Len(s.stack) ELSE 16)}
  \cup {[id |-> "SWAP", k |-> k, c |-> ""] : k \in 1..(IF Len(s.stack) - 1 < 16 THEN Len(s.stack) - 1 ELSE 16)}
  \cup {[id |-> S.ins[i].id, k |-> 0, c |-> ""] : i \in 1..Len(S.ins)}

\* the concrete instruction an event stands for
Concrete(S, ev) ==
  IF ev.id \in {"POP", "DUP", "SWAP"} THEN [op |-> ev.id, k |-> ev.k, w |-> <<>>]
  ELSE LET i == M!InsOf(S, ev.id) IN [op |-> i.op, k |-> 0, w |-> i.w]

Executable(S) == \A i \in 1..Len(S.ins) : Known([op |-> S.ins[i].op, k |-> 0, w |-> <<>>])
                                            /\ (S.ins[i].op \in PushOps => Len(S.ins[i].w) <= NB)

Init ==
  /\ c \in 1..Len(Cases) /\ g \in Pick(Cases[c])
  /\ sym = M!Start(Cases[c].sfs)
  /\ con = Start(Cases[c], g)

Next ==
  LET cs == Cases[c]  S == cs.sfs IN
  /\ Executable(S)
  /\ ~M!Goal(S, sym)
  /\ con.halt = "none"
  /\ TLCGet("level") <= cs.b0
  /\ \E ev \in Moves(S, sym) :
       LET r == M!Try(S, sym, ev) IN
       /\ r.err = ""
       /\ Len(r.stack) <= cs.bs
       /\ sym' = [stack |-> r.stack, done |-> r.done]
       /\ con' = Step(con, Concrete(S, ev))
  /\ UNCHANGED <<c, g>>
Spec == Init /\ [][Next]_vars

\* the symbolic and the concrete stack move together: same height above the untouched remainder
Aligned == Len(con.stack) = Len(sym.stack) + (Depth(Cases[c]) - Len(Cases[c].sfs.src))

Check ==
  LET cs == Cases[c]  S == cs.sfs IN
  /\ (con.halt = "none" /\ ~Aligned) => PrintT(<<"VERDICT", cs.id, g, "misaligned", sym.stack>>)
  /\ (M!Goal(S, sym) /\ con.halt = "none") =>
       LET ref == Run(Start(cs, g), cs.prog) IN
       IF Undecided(ref) \/ ref.halt # "none" THEN PrintT(<<"UNDECIDED", cs.id, g>>)
       ELSE /\ PrintT(<<"GOAL", cs.id, g>>)
            /\ IF ref.stack # con.stack THEN PrintT(<<"VERDICT", cs.id, g, "realize-stack", sym.done>>)
               ELSE IF ~MemEq(ref, con) THEN PrintT(<<"VERDICT", cs.id, g, "realize-mem", sym.done>>)
               ELSE IF ~StoEq(ref, con) THEN PrintT(<<"VERDICT", cs.id, g, "realize-sto", sym.done>>)
               ELSE TRUE

Expected == FoldLeft(LAMBDA acc, cs : acc + Cardinality(Pick(cs)), 0, Cases)
Accepted ==
  /\ PrintT(<<"INITS", Expected>>)
  /\ TLCGet("stats").distinct >= Expected
=============================================================================
