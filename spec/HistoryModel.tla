---------------------------- MODULE HistoryModel ----------------------------
(***************************************************************************)
(* Abstract model (M) behind C12: one process that handles blocks one after *)
(* the other.  Its module state has a part that is re-initialized at the    *)
(* start of every block (cnt: occurrence counters, term tables) and a part  *)
(* that is set once per process (opt: the option set, e.g. the split set    *)
(* extended by -storage).  `hist` records the blocks already processed; no  *)
(* action reads it.  The result of a block is computed from the block and   *)
(* the module state only.                                                   *)
(*   Leaky = FALSE: the model of the intended design (every per-block       *)
(*                  global is reset by Start)                               *)
(*   Leaky = TRUE : one global survives from the previous block; TLC must   *)
(*                  then refute ResultIndependentOfHistory (used by the     *)
(*                  self-test of the driver to show the property can fail). *)
(***************************************************************************)
EXTENDS Naturals, Sequences

CONSTANTS Blocks, Leaky, MaxHist

Weight(b) == b                      \* how often block b bumps the counter (blocks are 1..n)
Fresh(b, o) == <<b, Weight(b), o>>  \* the result of b processed first in a fresh process with options o

VARIABLES hist, opt, cnt, cur, todo, res

vars == <<hist, opt, cnt, cur, todo, res>>

Init ==
  /\ hist = <<>> /\ opt \in {0, 1} /\ cnt = 0 /\ cur = 0 /\ todo = 0
  /\ res = [b \in Blocks |-> <<>>]

Start(b) ==
  /\ cur = 0 /\ Len(hist) < MaxHist
  /\ cur' = b /\ todo' = Weight(b)
  /\ cnt' = IF Leaky THEN cnt ELSE 0          \* init_globals
  /\ UNCHANGED <<hist, opt, res>>

Work ==
  /\ cur # 0 /\ todo > 0
  /\ cnt' = cnt + 1 /\ todo' = todo - 1
  /\ UNCHANGED <<hist, opt, cur, res>>

Finish ==
  /\ cur # 0 /\ todo = 0
  /\ res' = [res EXCEPT ![cur] = <<cur, cnt, opt>>]
  /\ hist' = Append(hist, cur)
  /\ cur' = 0
  /\ UNCHANGED <<opt, cnt, todo>>

Next == (\E b \in Blocks : Start(b)) \/ Work \/ Finish
Spec == Init /\ [][Next]_vars

ResultIndependentOfHistory == \A b \in Blocks : res[b] # <<>> => res[b] = Fresh(b, opt)
=============================================================================
