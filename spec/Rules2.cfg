SPECIFICATION Spec
CONSTANT NB = 2
CONSTANT Dom <- Bnd
CONSTANT Dom3 <- Bnd3
INVARIANT Sound
INVARIANT Rejected
INVARIANT Emit
INVARIANT Distinct
INVARIANT Patterned
POSTCONDITION Covered
CHECK_DEADLOCK FALSE
