---------------------------- MODULE AsmDocTrace ----------------------------
(***************************************************************************)
(* Batch validator (V) for C15: one TLC state per recorded case.             *)
(*                                                                         *)
(* A case is a record with `id`, `kind`, `push0` ("on"/"off": the setting    *)
(* of the run that produced it) and                                          *)
(*  kind "doc"    status, doc, out   the abstract documents (AsmDoc.tla) of  *)
(*                the JSON given to parse_asm and of parse_asm(..).to_json() *)
(*                clause: Norm(out) = Norm(doc)                              *)
(*  kind "file"   status, equal, ndiff, diffs   a real example file: the     *)
(*                harness compared the two JSON values (equal) and logged    *)
(*                every position where they are not the same value, items    *)
(*                of .code lists as whole abstract items [path, what, a, b]; *)
(*                clause: with PUSH0 off equal = TRUE; with PUSH0 on every   *)
(*                logged difference is a pair of items with the same Norm    *)
(*  kind "block"  via ("plain" = to_plain, "bn" = to_plain_with_byte_number) *)
(*                origin, status, orig, back   a block and the block(s) read *)
(*                from its rendering; clause: BlockDiff(orig, back).pos = 0  *)
(*  kind "spell"  mn, word, vi, status, parsed   one constant as spelled;    *)
(*                clause: exactly one item, a constant push whose value is   *)
(*                SpelledValue(mn, word)                                     *)
(* status is "ok" or "raised: ..." when the call did not return.             *)
(*                                                                         *)
(* Output: <<"VERDICT", id, kind, clause, witness>> per failing case,        *)
(* <<"MACHINERY", id, what>> when the harness's own input is inconsistent,   *)
(* <<"GUARDS", documents where Norm mattered, blocks equal only as numbers / *)
(* without tags, spellings beyond native integers, undecided documents>>;    *)
(* POSTCONDITION: every case consumed.                                       *)
(***************************************************************************)
EXTENDS AsmDoc, Json, IOUtils

Cases == JsonDeserialize(IOEnv.CASES).cases

VARIABLE c

Fail(cs, clause, wit) == PrintT(<<"VERDICT", cs.id, cs.kind, clause, wit>>)
Mach(cs, what)        == PrintT(<<"MACHINERY", cs.id, what>>)
Count(k)              == TLCSet(k, TLCGet(k) + 1)

DocCase(cs) ==
  IF ~IsDoc(cs.doc) THEN Mach(cs, "input is not an abstract document")
  ELSE IF cs.status # "ok" THEN Fail(cs, "raised", <<cs.status>>)
  ELSE IF ~IsDoc(cs.out) THEN Fail(cs, "output is not a document", <<>>)
  ELSE IF ~InFormat(cs.doc) THEN                                       \* undecided unless it differs leniently too
       LET a == Lenient(Norm(cs.doc, cs.push0))  b == Lenient(Norm(cs.out, cs.push0)) IN
       IF a = b THEN Count(5) ELSE Fail(cs, "json round trip (lenient)", DiffDoc(a, b))
  ELSE LET a == Norm(cs.doc, cs.push0)  b == Norm(cs.out, cs.push0) IN
       /\ IF a = b THEN TRUE ELSE Fail(cs, "json round trip", DiffDoc(a, b))
       /\ IF a = b /\ cs.doc # cs.out THEN Count(2) ELSE TRUE          \* Norm mattered

FileCase(cs) ==
  IF cs.status # "ok" THEN Fail(cs, "raised", <<cs.status>>)
  ELSE IF cs.ndiff # Len(cs.diffs) \/ (cs.equal <=> cs.ndiff # 0) THEN Mach(cs, "difference log inconsistent")
  ELSE IF cs.push0 = "off" THEN
       IF cs.equal THEN TRUE ELSE Fail(cs, "json round trip", <<cs.diffs[1].path>>)
  ELSE LET bad == {i \in 1..Len(cs.diffs) :
                     \/ cs.diffs[i].what # "item"
                     \/ ~IsItem(cs.diffs[i].a) \/ ~IsItem(cs.diffs[i].b)
                     \/ NormItem(cs.diffs[i].a) # NormItem(cs.diffs[i].b)}
       IN  /\ IF bad = {} THEN TRUE ELSE Fail(cs, "json round trip", <<cs.diffs[MinOf(bad)].path>>)
           /\ IF bad = {} /\ cs.ndiff > 0 THEN Count(2) ELSE TRUE

Plain(items) == Map(LAMBDA it : [name |-> it.name, value |-> it.value], items)

BlockCase(cs) ==
  IF cs.status # "ok" THEN Fail(cs, "raised", <<cs.via, cs.status>>)
  ELSE LET d == BlockDiff(Plain(cs.orig), Plain(cs.back)) IN
       /\ IF d.pos = 0 THEN TRUE ELSE Fail(cs, "block round trip", <<cs.via, ToString(d.pos), d.a, d.b>>)
       /\ IF d.pos = 0 /\ Plain(cs.orig) # Plain(cs.back) THEN Count(3) ELSE TRUE   \* equal only as numbers / without tags

SpellCase(cs) ==
  LET v == SpelledValue(cs.mn, cs.word) IN
  IF ~v.ok \/ v.n # Vals[cs.vi] THEN Mach(cs, "spelling does not denote the intended value")
  ELSE IF cs.mn = "PUSH" /\ HexOf(cs.word, IF Has0x(cs.word) THEN 3 ELSE 1) # v THEN Mach(cs, "HexOf disagrees with multiply-and-add")
  ELSE IF cs.status # "ok" THEN Fail(cs, "raised", <<cs.status>>)
  ELSE IF Len(cs.parsed) # 1 THEN Fail(cs, "not one instruction", <<ToString(Len(cs.parsed))>>)
  ELSE LET p == ItemValue([name |-> cs.parsed[1].name, value |-> cs.parsed[1].value]) IN
       /\ IF p.ok /\ p.n = v.n THEN TRUE ELSE Fail(cs, "constant value", <<cs.parsed[1].name, cs.parsed[1].value>>)
       /\ IF Len(v.n) > 4 THEN Count(4) ELSE TRUE                       \* beyond TLC's native integers

Check(cs) ==
  IF cs.kind = "doc" THEN DocCase(cs)
  ELSE IF cs.kind = "file" THEN FileCase(cs)
  ELSE IF cs.kind = "block" THEN BlockCase(cs)
  ELSE IF cs.kind = "spell" THEN SpellCase(cs)
  ELSE Mach(cs, "unknown kind")

Init == c = 1 /\ TLCSet(1, 0) /\ TLCSet(2, 0) /\ TLCSet(3, 0) /\ TLCSet(4, 0) /\ TLCSet(5, 0)
Next == /\ c <= Len(Cases)
        /\ Check(Cases[c])
        /\ TLCSet(1, c)
        /\ c' = c + 1
Spec == Init /\ [][Next]_c

Accepted ==
  /\ PrintT(<<"CONSUMED", TLCGet(1), Len(Cases)>>)
  /\ PrintT(<<"GUARDS", TLCGet(2), TLCGet(3), TLCGet(4), TLCGet(5)>>)
  /\ TLCGet(1) = Len(Cases)
=============================================================================
