SPECIFICATION FSpec
CONSTANTS
  NB = 3
  SecOf <- Sec3
  MaxSubs = 2
  Contain = "all"
  WithReplay = FALSE
  MaxTamper = 0
INVARIANT Emit
CHECK_DEADLOCK FALSE
