------------------------------ MODULE Pipeline ------------------------------
(***************************************************************************)
(* Abstract model (M) of the optimizer's control flow (gasol_asm.py):        *)
(*   optimize_asm_in_asm_format -> optimize_asm_contract: for every code     *)
(*   section (init code, run codes) and every block b of it, in order:       *)
(*     optimize_asm_block_asm_format  SpecGenOK/SpecGenFail/Skip, Search,    *)
(*                                    Decide, Rebuild                        *)
(*     compare_asm_block_asm_format   CompareEq/CompareNeq/CompareRaise      *)
(*     keep-or-revert, update_*       EmitNew/EmitOld                        *)
(*   then csv_from_asm_blocks compares every block of the section AGAIN      *)
(*                                    StatsOK/StatsRaise                     *)
(*   then the log and the output file WriteLog, Finish                       *)
(*   optimize_asm_from_log            ReplayFromLog, ReplayBlockOK,          *)
(*                                    ReplayReject, ReplayFinish             *)
(*                                                                           *)
(* Every action is a set-valued function  A(s, args) = set of successor      *)
(* states (empty = disabled), so that the model (st' \in A(st, ..)) and the  *)
(* trace validator PipelineTrace (subset construction over the choices that  *)
(* are not logged) share one definition.                                     *)
(*                                                                           *)
(* A block's content is abstract: a function from its sub-blocks to          *)
(* "orig" (sub-block kept) or to the candidate that replaced it.  Candidates *)
(* come from a 3-element set with a symbolic cost bit (Cheaper) and a        *)
(* symbolic "equivalent to the original sub-block" bit (Equiv).  The search  *)
(* is nondeterministic (any candidate or none).  The checker is assumed      *)
(* sound and deterministic: it answers "eq" iff every replaced sub-block is  *)
(* equivalent (its soundness on real blocks is property C05, not this one).  *)
(*                                                                           *)
(* fault = [b, stage, sticky]: the analysis step `stage` fails on block b    *)
(*   specgen  specification generation of the original block: inside the    *)
(*            try of optimize_asm_block_asm_format; sticky = the analysis of *)
(*            this block is impossible, so it fails again wherever it is     *)
(*            re-run (the comparison and the statistics pass re-run it)      *)
(*   search   the search fails (contained by greedy_standalone: no model)    *)
(*   cmpspec  specification generation of the rebuilt candidate inside the   *)
(*            comparison                                                     *)
(* contain = which comparisons are wrapped in a containment:                 *)
(*   "none"  what the code does: compare_asm_block_asm_format is called      *)
(*           outside any try, in the loop and in csv_from_asm_blocks         *)
(*   "loop"  only the comparison of the per-block loop is contained          *)
(*   "all"   what property C10 requires                                      *)
(* TLA+ cannot observe CPU time or memory: Budget only states the budget;    *)
(* the harness measures and PipelineBudget compares the recorded numbers.    *)
(***************************************************************************)
EXTENDS Naturals, Sequences, FiniteSets, TLC

CONSTANTS NB,          \* number of blocks of the model's contract
          SecOf,       \* SecOf[b] = code section of block b (non-decreasing)
          MaxSubs,     \* a block has 0..MaxSubs sub-blocks
          Contain,     \* "none" | "loop" | "all"
          WithReplay,  \* BOOLEAN: explore log replay after a fault-free run
          MaxTamper    \* a tampered log differs from the written one in at most this many entries

VARIABLE st

(* ----------------------------- budget ---------------------------------- *)
BudgetMs(n)  == 10000 + 500 * n          \* Budget(n) = 10 s + 0.5 s * n, n = instructions of the block
BudgetRssKb  == 1048576                  \* 1 GB

(* ----------------------------- candidates ------------------------------ *)
Cands      == {"good", "bad", "costly"}
Cheaper(c) == c \in {"good", "bad"}                 \* improves the criterion
Equiv(c)   == c \in {"good", "costly", "orig"}      \* observationally equivalent to what it replaces

NoFault == [b |-> 0, stage |-> "none", sticky |-> FALSE]
Faults(n) == {NoFault}
             \cup {[b |-> b, stage |-> "specgen", sticky |-> k] : b \in 1..n, k \in BOOLEAN}
             \cup {[b |-> b, stage |-> g, sticky |-> FALSE] : b \in 1..n, g \in {"search", "cmpspec"}}

Fn(S, v)    == [k \in S |-> v]
Orig(s, b)  == Fn(s.subs[b], "orig")
AllEquiv(f) == \A k \in DOMAIN f : Equiv(f[k])

Start(n, sec, f, contain) ==
  [nb |-> n, sec |-> sec, fault |-> f, contain |-> contain, pc |-> "run", cur |-> 1,
   phase   |-> [b \in 1..n |-> "pending"],
   subs    |-> [b \in 1..n |-> {}],
   cand    |-> [b \in 1..n |-> Fn({}, "none")],      \* "unsearched" | "none" | candidate
   dec     |-> [b \in 1..n |-> Fn({}, "none")],      \* "undecided" | "yes" | "no"
   rebuilt |-> [b \in 1..n |-> Fn({}, "orig")],
   cmp     |-> [b \in 1..n |-> "none"],              \* "none" | "eq" | "neq" | "raise"
   out     |-> [b \in 1..n |-> Fn({}, "orig")],
   stat    |-> [b \in 1..n |-> "none"],              \* statistics pass: "none" | "ok" | "raise"
   failed  |-> {},                                   \* blocks whose analysis failed
   logel   |-> {}, logfile |-> {}, logw |-> FALSE,   \* <<b, k, candidate>>
   file    |-> [b \in 1..n |-> Fn({}, "orig")], filew |-> FALSE,
   why     |-> "",                                   \* where an exception left the pipeline
   rlog    |-> {}, tampered |-> FALSE,
   out2    |-> [b \in 1..n |-> Fn({}, "orig")], file2 |-> [b \in 1..n |-> Fn({}, "orig")], file2w |-> FALSE]

(* ----------------------------- faults ---------------------------------- *)
FiresSpec(s, b)    == s.fault.b = b /\ s.fault.stage = "specgen"
FiresSearch(s, b)  == s.fault.b = b /\ s.fault.stage = "search"
FiresCompare(s, b) == s.fault.b = b /\ (s.fault.stage = "cmpspec" \/ (s.fault.stage = "specgen" /\ s.fault.sticky))
FiresStats(s, b)   == s.fault.b = b /\ s.fault.stage = "specgen" /\ s.fault.sticky

LastOfSection(s, b)  == b = s.nb \/ s.sec[b + 1] # s.sec[b]
FirstOfSection(s, b) == CHOOSE a \in 1..b : s.sec[a] = s.sec[b] /\ \A x \in 1..(a - 1) : s.sec[x] # s.sec[b]
AtBlock(s, b)        == s.pc = "run" /\ s.cur = b /\ b \in 1..s.nb

(* ------------------- optimize_asm_block_asm_format --------------------- *)
SpecGenOK(s, b, S) ==
  IF AtBlock(s, b) /\ s.phase[b] = "pending" /\ ~FiresSpec(s, b)
  THEN {[s EXCEPT !.phase[b] = "specgen", !.subs[b] = S, !.cand[b] = Fn(S, "unsearched"), !.dec[b] = Fn(S, "undecided"),
                  !.rebuilt[b] = Fn(S, "orig"), !.out[b] = Fn(S, "orig")]}
  ELSE {}

\* the except branch of the try: the block is returned unchanged (a copy)
SpecGenFail(s, b) ==
  IF AtBlock(s, b) /\ s.phase[b] = "pending" /\ FiresSpec(s, b)
  THEN {[s EXCEPT !.phase[b] = "rebuilt", !.failed = @ \cup {b}]}
  ELSE {}

\* no instruction to optimize: returned unchanged without any analysis
Skip(s, b) ==
  IF AtBlock(s, b) /\ s.phase[b] = "pending" THEN {[s EXCEPT !.phase[b] = "rebuilt"]} ELSE {}

AllSearched(s, b) == \A k \in s.subs[b] : s.cand[b][k] # "unsearched"
AllDecided(s, b)  == \A k \in s.subs[b] : s.cand[b][k] \in Cands => s.dec[b][k] # "undecided"

SearchTo(s, b, k, c) ==
  LET t == [s EXCEPT !.cand[b][k] = c] IN [t EXCEPT !.phase[b] = IF AllSearched(t, b) THEN "searched" ELSE "specgen"]

\* the solver answers with any candidate or with none
Search(s, b, k, found) ==
  IF AtBlock(s, b) /\ s.phase[b] = "specgen" /\ k \in s.subs[b] /\ s.cand[b][k] = "unsearched" /\ ~FiresSearch(s, b)
  THEN {SearchTo(s, b, k, c) : c \in (IF found THEN Cands ELSE {"none"})}
  ELSE {}

\* a failing search is contained where it happens (greedy_standalone): outcome "error", no candidate
SearchFail(s, b, k) ==
  IF AtBlock(s, b) /\ s.phase[b] = "specgen" /\ k \in s.subs[b] /\ s.cand[b][k] = "unsearched" /\ FiresSearch(s, b)
  THEN {[SearchTo(s, b, k, "none") EXCEPT !.failed = @ \cup {b}]}
  ELSE {}

\* block_has_been_optimized: the candidate is taken iff it improves the criterion
Decide(s, b, k) ==
  IF AtBlock(s, b) /\ s.phase[b] = "searched" /\ k \in s.subs[b] /\ s.cand[b][k] \in Cands /\ s.dec[b][k] = "undecided"
  THEN LET t == [s EXCEPT !.dec[b][k] = IF Cheaper(s.cand[b][k]) THEN "yes" ELSE "no"]
       IN  {[t EXCEPT !.phase[b] = IF AllDecided(t, b) THEN "decided" ELSE "searched"]}
  ELSE {}

Rebuild(s, b) ==
  IF AtBlock(s, b) /\ s.phase[b] \in {"specgen", "searched", "decided"} /\ AllSearched(s, b) /\ AllDecided(s, b)
  THEN {[s EXCEPT !.phase[b] = "rebuilt",
                  !.rebuilt[b] = [k \in s.subs[b] |-> IF s.dec[b][k] = "yes" THEN s.cand[b][k] ELSE "orig"]]}
  ELSE {}

(* -------------------- compare_asm_block_asm_format --------------------- *)
CompareEq(s, b) ==
  IF AtBlock(s, b) /\ s.phase[b] = "rebuilt" /\ ~FiresCompare(s, b) /\ AllEquiv(s.rebuilt[b])
  THEN {[s EXCEPT !.phase[b] = "compared", !.cmp[b] = "eq"]} ELSE {}

CompareNeq(s, b) ==
  IF AtBlock(s, b) /\ s.phase[b] = "rebuilt" /\ ~FiresCompare(s, b) /\ ~AllEquiv(s.rebuilt[b])
  THEN {[s EXCEPT !.phase[b] = "compared", !.cmp[b] = "neq"]} ELSE {}

\* the comparison re-runs the analysis; a failing analysis raises out of it
CompareRaise(s, b) ==
  IF AtBlock(s, b) /\ s.phase[b] = "rebuilt" /\ FiresCompare(s, b)
  THEN IF s.contain \in {"loop", "all"}
       THEN {[s EXCEPT !.phase[b] = "compared", !.cmp[b] = "raise", !.failed = @ \cup {b}]}
       ELSE {[s EXCEPT !.pc = "raised", !.why = "compare"]}
  ELSE {}

(* --------------------------- keep or revert ---------------------------- *)
Advance(s, b) ==
  IF LastOfSection(s, b) THEN [s EXCEPT !.pc = "stats", !.cur = FirstOfSection(s, b)] ELSE [s EXCEPT !.cur = b + 1]

EmitNew(s, b) ==
  IF AtBlock(s, b) /\ s.phase[b] = "compared" /\ s.cmp[b] = "eq"
  THEN {Advance([s EXCEPT !.phase[b] = "emitted", !.out[b] = s.rebuilt[b],
                          !.logel = @ \cup {<<b, k, s.rebuilt[b][k]>> : k \in {j \in s.subs[b] : s.rebuilt[b][j] # "orig"}}], b)}
  ELSE {}

EmitOld(s, b) ==
  IF AtBlock(s, b) /\ s.phase[b] = "compared" /\ s.cmp[b] \in {"neq", "raise"}
  THEN {Advance([s EXCEPT !.phase[b] = "emitted", !.out[b] = Orig(s, b)], b)}
  ELSE {}

(* ----------- csv_from_asm_blocks: every block compared again ----------- *)
AfterStats(s, b) ==
  IF LastOfSection(s, b)
  THEN IF b = s.nb THEN [s EXCEPT !.pc = "writelog"] ELSE [s EXCEPT !.pc = "run", !.cur = b + 1]
  ELSE [s EXCEPT !.cur = b + 1]

StatsOK(s, b) ==
  IF s.pc = "stats" /\ s.cur = b /\ ~FiresStats(s, b) THEN {AfterStats([s EXCEPT !.stat[b] = "ok"], b)} ELSE {}

StatsRaise(s, b) ==
  IF s.pc = "stats" /\ s.cur = b /\ FiresStats(s, b)
  THEN IF s.contain = "all" THEN {AfterStats([s EXCEPT !.stat[b] = "raise"], b)}
       ELSE {[s EXCEPT !.pc = "raised", !.why = "stats"]}
  ELSE {}

(* ----------------------------- the files ------------------------------- *)
WriteLog(s) == IF s.pc = "writelog" THEN {[s EXCEPT !.pc = "finish", !.logfile = s.logel, !.logw = TRUE]} ELSE {}
Finish(s)   == IF s.pc = "finish" THEN {[s EXCEPT !.pc = "done", !.file = s.out, !.filew = TRUE]} ELSE {}

(* ------------------------ optimize_asm_from_log ------------------------ *)
\* a log maps sub-blocks to the candidate the recorded ids denote; foreign or malformed ids denote "bad"
LogKeys(L)    == {<<e[1], e[2]>> : e \in L}
LogAt(L, b, k) == (CHOOSE e \in L : e[1] = b /\ e[2] = k)[3]
SubIds(s)      == UNION {{<<b, k>> : k \in s.subs[b]} : b \in 1..s.nb}
Retarget(s, K, g) == {e \in s.logfile : <<e[1], e[2]>> \notin K}
                     \cup {<<x[1], x[2], g[x]>> : x \in {y \in K : g[y] # "absent"}}
\* every log that differs from the written one in at most MaxTamper sub-block entries (substituted, deleted, inserted)
TamperedLogs(s) ==
  UNION {{Retarget(s, K, g) : g \in [K -> Cands \cup {"absent"}]}
         : K \in {K \in SUBSET SubIds(s) : Cardinality(K) <= MaxTamper}}

ReplayFromLog(s, L) ==
  IF s.pc = "done" /\ s.fault = NoFault
  THEN {[s EXCEPT !.pc = "replay", !.cur = 1, !.rlog = L, !.tampered = (L # s.logfile)]}
  ELSE {}

ReplayContent(s, b) == [k \in s.subs[b] |-> IF <<b, k>> \in LogKeys(s.rlog) THEN LogAt(s.rlog, b, k) ELSE "orig"]

\* rebuild from the ids of the log, verify against the input block; the output is written only at the end
ReplayBlockOK(s, b) ==
  IF s.pc = "replay" /\ s.cur = b /\ AllEquiv(ReplayContent(s, b))
  THEN {[s EXCEPT !.out2[b] = ReplayContent(s, b), !.cur = b + 1, !.pc = IF b = s.nb THEN "replaywrite" ELSE "replay"]}
  ELSE {}

ReplayReject(s, b) ==
  IF s.pc = "replay" /\ s.cur = b /\ ~AllEquiv(ReplayContent(s, b))
  THEN {[s EXCEPT !.pc = "replayerr"]}          \* raise ValueError("Error parsing the log file...")
  ELSE {}

ReplayFinish(s) ==
  IF s.pc = "replaywrite" THEN {[s EXCEPT !.pc = "replaydone", !.file2 = s.out2, !.file2w = TRUE]} ELSE {}

(* ------------------------------ the model ------------------------------ *)
Sec3 == <<1, 2, 2>>        \* init code = block 1, run code = blocks 2 and 3 (cfg: SecOf <- Sec3)
Sec12 == <<1, 2>>           \* two blocks, one per section
Sec11 == <<1, 1>>
Blocks  == 1..NB
SubSets == {1..n : n \in 0..MaxSubs}

aSpecGenOK     == \E b \in Blocks, S \in SubSets : st' \in SpecGenOK(st, b, S)
aSpecGenFail   == \E b \in Blocks : st' \in SpecGenFail(st, b)
aSkip          == \E b \in Blocks : st' \in Skip(st, b)
aSearch        == \E b \in Blocks, k \in 1..MaxSubs, f \in BOOLEAN : st' \in Search(st, b, k, f)
aSearchFail    == \E b \in Blocks, k \in 1..MaxSubs : st' \in SearchFail(st, b, k)
aDecide        == \E b \in Blocks, k \in 1..MaxSubs : st' \in Decide(st, b, k)
aRebuild       == \E b \in Blocks : st' \in Rebuild(st, b)
aCompareEq     == \E b \in Blocks : st' \in CompareEq(st, b)
aCompareNeq    == \E b \in Blocks : st' \in CompareNeq(st, b)
aCompareRaise  == \E b \in Blocks : st' \in CompareRaise(st, b)
aEmitNew       == \E b \in Blocks : st' \in EmitNew(st, b)
aEmitOld       == \E b \in Blocks : st' \in EmitOld(st, b)
aStatsOK       == \E b \in Blocks : st' \in StatsOK(st, b)
aStatsRaise    == \E b \in Blocks : st' \in StatsRaise(st, b)
aWriteLog      == st' \in WriteLog(st)
aFinish        == st' \in Finish(st)
aReplayFromLog == WithReplay /\ \E L \in TamperedLogs(st) : st' \in ReplayFromLog(st, L)
aReplayBlockOK == \E b \in Blocks : st' \in ReplayBlockOK(st, b)
aReplayReject  == \E b \in Blocks : st' \in ReplayReject(st, b)
aReplayFinish  == st' \in ReplayFinish(st)

Init == st \in {Start(NB, SecOf, f, Contain) : f \in Faults(NB)}
Next == \/ aSpecGenOK \/ aSpecGenFail \/ aSkip \/ aSearch \/ aSearchFail \/ aDecide \/ aRebuild
        \/ aCompareEq \/ aCompareNeq \/ aCompareRaise \/ aEmitNew \/ aEmitOld \/ aStatsOK \/ aStatsRaise
        \/ aWriteLog \/ aFinish \/ aReplayFromLog \/ aReplayBlockOK \/ aReplayReject \/ aReplayFinish
Spec == Init /\ [][Next]_st /\ WF_st(Next)

(* ---------------------------- properties ------------------------------- *)
\* what block b becomes in the run without any fault, given what the solver answered for it
FaultFree(s, b) ==
  LET r == [k \in s.subs[b] |-> IF s.cand[b][k] \in Cands /\ Cheaper(s.cand[b][k]) THEN s.cand[b][k] ELSE "orig"]
  IN  IF AllEquiv(r) THEN r ELSE Orig(s, b)

TypeOK == /\ st.pc \in {"run", "stats", "writelog", "finish", "done", "raised", "replay", "replaywrite", "replaydone", "replayerr"}
          /\ \A b \in 1..st.nb : st.phase[b] \in {"pending", "specgen", "searched", "decided", "rebuilt", "compared", "emitted"}

\* C10: no exception leaves the per-block pipeline
NoEscape == st.pc # "raised"

\* C10: the output exists after the run and differs from the fault-free run only at the faulty block
FailureCostsOneBlock ==
  st.filew => \A b \in 1..st.nb : b # st.fault.b => st.file[b] = FaultFree(st, b)

\* C10: a block whose analysis failed is emitted unchanged
EmitOldAfterFailure ==
  \A b \in st.failed : st.phase[b] = "emitted" => st.out[b] = Orig(st, b)

KeepOrRevert ==
  \A b \in 1..st.nb : st.phase[b] = "emitted" =>
     \/ st.cmp[b] = "eq" /\ st.out[b] = st.rebuilt[b]
     \/ st.cmp[b] \in {"neq", "raise"} /\ st.out[b] = Orig(st, b)

\* every replaced sub-block improves the criterion and is equivalent (C01/C08 at the level of the model)
OutSound ==
  \A b \in 1..st.nb : \A k \in st.subs[b] : st.out[b][k] # "orig" => Cheaper(st.out[b][k]) /\ Equiv(st.out[b][k])

LogMatchesOutput ==
  st.logw => st.logfile = UNION {{<<b, k, st.out[b][k]>> : k \in {j \in st.subs[b] : st.out[b][j] # "orig"}} : b \in 1..st.nb}

\* C11: the untampered log reproduces the output and is never rejected
ReplayReproduces ==
  ~st.tampered => /\ st.pc # "replayerr"
                  /\ st.file2w => st.file2 = st.file

\* C11: whatever the log says, replay stops with an error or writes blocks equivalent to the input
TamperedLogErrorsOrEquivalent ==
  /\ st.file2w => \A b \in 1..st.nb : AllEquiv(st.file2[b])
  /\ st.pc = "replayerr" => ~st.file2w

\* liveness (weak fairness of Next, no state constraint)
EveryBlockEmitted == \A b \in Blocks : <>(st.phase[b] = "emitted")
OutputWritten     == <>(st.filew)
\* with WithReplay: a fault-free run is always followed by a replay that ends (verified output or error)
ReplayEnds        == (st.fault = NoFault) ~> (st.pc \in {"replaydone", "replayerr"})
=============================================================================
