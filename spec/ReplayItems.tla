----------------------------- MODULE ReplayItems -----------------------------
(***************************************************************************)
(* Batch validator (V) for C11: a replay that accepted a log must emit       *)
(* assembly.  asm_from_ids turns an id it does not find among the            *)
(* instructions of the sub-block into an instruction of that very name ("the *)
(* id is the instruction itself"), so a foreign id such as "PUSH0_1" or      *)
(* "ADD_0" can reach the output as an item name.  A case is [id, orig, opt]  *)
(* (projected instruction lists of the input block and of the block the      *)
(* replay wrote; idshape = the item's name has the form <text>_<digits>,     *)
(* i.e. it is a log id, not a mnemonic).  Violation: every instruction of    *)
(* the input block is in the vocabulary of EVM.tla and the written block     *)
(* holds an item that is not and that is id-shaped; the witness is its       *)
(* position.  (Blocks with instructions EVM.tla does not model but that are  *)
(* not id-shaped stay undecided.)                                            *)
(***************************************************************************)
EXTENDS EVM, Json, IOUtils

Cases == JsonDeserialize(IOEnv.CASES).cases

VARIABLE c

Bad(cs) == {j \in 1..Len(cs.opt) : ~Known(cs.opt[j]) /\ cs.opt[j].idshape}

Init == c = 1 /\ TLCSet(1, 0)
Next == /\ c <= Len(Cases)
        /\ LET cs == Cases[c] IN
           IF (\A i \in 1..Len(cs.orig) : Known(cs.orig[i])) /\ Bad(cs) # {}
           THEN LET j == CHOOSE x \in Bad(cs) : \A y \in Bad(cs) : x <= y
                IN  PrintT(<<"VERDICT", cs.id, j, "a log id is emitted verbatim as an instruction: " \o cs.opt[j].op>>)
           ELSE TRUE
        /\ TLCSet(1, c)
        /\ c' = c + 1
Spec == Init /\ [][Next]_c

Accepted ==
  /\ PrintT(<<"CONSUMED", TLCGet(1), Len(Cases)>>)
  /\ TLCGet(1) = Len(Cases)
=============================================================================
