SPECIFICATION Spec
CONSTANT N = 3
CONSTANT Offs = {0, 1, 20, 31, 32, 40}
CONSTANT ClosestOnly = TRUE
INVARIANT NeverWrong
CHECK_DEADLOCK FALSE
