------------------------------- MODULE SExpr -------------------------------
(***************************************************************************)
(* Independent reader for the SMT-LIB text produced by translate_formula.    *)
(* The harness only LEXES the text (harness/sexpr_lex.py: split at white     *)
(* space and parentheses, recognise numerals); the tree is built here, from  *)
(* the token sequence, against the declarations of Formula.tla.              *)
(*                                                                         *)
(* Tokens: [s |-> Seq(STRING), i |-> Seq(Int)] of equal length;              *)
(*   s[j] = "(" | ")" | "#" (a numeral whose value is i[j]) | a symbol       *)
(*   (i[j] = 0 for everything but numerals; "#" cannot be a symbol).         *)
(* Grammar read:  term ::= numeral | symbol | "(" symbol term* ")"           *)
(* A symbol is true/false, a declared constant, and in head position a core  *)
(* operator or a declared function.  Anything else (an undeclared symbol     *)
(* such as -1, unbalanced parentheses, trailing tokens) yields NoneNode.     *)
(***************************************************************************)
EXTENDS Formula

LOCAL Bad == [ok |-> FALSE, node |-> NoneNode, nodes |-> <<>>, nxt |-> 0]
LOCAL One(nd, nx)  == [ok |-> TRUE, node |-> nd, nodes |-> <<>>, nxt |-> nx]
LOCAL Many(ns, nx) == [ok |-> TRUE, node |-> NoneNode, nodes |-> ns, nxt |-> nx]

RECURSIVE ParseTerm(_, _), ParseArgs(_, _, _)
ParseTerm(t, j) ==
  IF j > Len(t.s) THEN Bad
  ELSE LET x == t.s[j] IN
    IF x = "#" THEN One(IntLit(t.i[j]), j + 1)
    ELSE IF x = ")" THEN Bad
    ELSE IF x = "(" THEN
      IF j + 1 > Len(t.s) \/ t.s[j + 1] \in {"(", ")", "#"} THEN Bad
      ELSE LET h == t.s[j + 1]
               r == ParseArgs(t, j + 2, <<>>)
           IN  IF ~r.ok \/ Len(r.nodes) = 0 THEN Bad
               ELSE IF h \in CoreOps THEN One(Node(h, "", 0, r.nodes), r.nxt)
               ELSE IF h \in IntFuns THEN One(IApp(h, r.nodes), r.nxt)
               ELSE Bad
    ELSE IF x = "true"  THEN One(BoolLit(TRUE), j + 1)
    ELSE IF x = "false" THEN One(BoolLit(FALSE), j + 1)
    ELSE IF x \in BoolAtoms THEN One(BVar(x), j + 1)
    ELSE IF x \in IntAtoms  THEN One(IVar(x), j + 1)
    ELSE Bad

ParseArgs(t, j, acc) ==
  IF j > Len(t.s) THEN Bad
  ELSE IF t.s[j] = ")" THEN Many(acc, j + 1)
  ELSE LET r == ParseTerm(t, j) IN
       IF ~r.ok THEN Bad ELSE ParseArgs(t, r.nxt, Append(acc, r.node))

\* the formula a token sequence denotes, NoneNode when it is not a term
Parse(t) ==
  IF Len(t.s) # Len(t.i) THEN NoneNode
  ELSE LET r == ParseTerm(t, 1) IN
       IF r.ok /\ r.nxt = Len(t.s) + 1 THEN r.node ELSE NoneNode
=============================================================================
