------------------------------- MODULE SeqGen -------------------------------
(***************************************************************************)
(* Generator (G): enumerates well-formed blocks as sequences of fragments.   *)
(*   G.vocab   sequence of fragments [pop, push, cls] (the text of a         *)
(*             fragment lives with the harness; only its stack effect and    *)
(*             its class matter here)                                        *)
(*   G.shapes  sequence of shapes; a shape is a sequence of class names,     *)
(*             "*" standing for any class                                    *)
(*   G.maxin   largest input-stack depth a generated block may need          *)
(* Reachable complete states = exactly the blocks of every shape whose       *)
(* needed input depth is <= maxin.  Exhaustive mode enumerates them all;     *)
(* `-simulate` draws random ones from the same space.                        *)
(***************************************************************************)
EXTENDS Naturals, Sequences, Json, IOUtils, TLC

G == JsonDeserialize(IOEnv.GEN)

VARIABLES sh, blk, need, cur

Fits(i, pos) == G.shapes[sh][pos] = "*" \/ G.vocab[i].cls = G.shapes[sh][pos]

Init == sh \in 1..Len(G.shapes) /\ blk = <<>> /\ need = 0 /\ cur = 0
Next ==
  /\ Len(blk) < Len(G.shapes[sh])
  /\ \E i \in 1..Len(G.vocab) :
       /\ Fits(i, Len(blk) + 1)
       /\ LET p == G.vocab[i].pop  q == G.vocab[i].push
              nneed == IF p > cur THEN need + (p - cur) ELSE need
              ncur  == IF p > cur THEN q ELSE cur - p + q
          IN  /\ nneed <= G.maxin
              /\ need' = nneed /\ cur' = ncur
       /\ blk' = Append(blk, i)
  /\ UNCHANGED sh
Spec == Init /\ [][Next]_<<sh, blk, need, cur>>

Complete == Len(blk) = Len(G.shapes[sh])
Emit == Complete => PrintT(<<"B", sh, blk>>)
=============================================================================
