----------------------------- MODULE WordsCheck -----------------------------
(***************************************************************************)
(* Self-check of Words.tla against native TLC integers at small widths      *)
(* (NB = 1: all 65,536 operand pairs; NB = 2: a boundary + stride grid).    *)
(* The oracle is checked before it is believed.                             *)
(***************************************************************************)
EXTENDS Words, Integers, TLC

CONSTANT Dom, Dom3           \* integer operand sets (pairs from Dom, third operand from Dom3)

VARIABLES a, b

M    == 256 ^ NB
Half == M \div 2
Val(w) == IF NB = 1 THEN w[1] ELSE w[1] + 256 * w[2]
W(n)   == FromNat(n)
S(n)   == IF n >= Half THEN n - M ELSE n          \* signed reading
U(z)   == ((z % M) + M) % M                       \* back to unsigned
AbsI(z) == IF z < 0 THEN 0 - z ELSE z
\* a*b mod M without leaving 31 bits
MulM(x, y) == (x * (y % 256) + ((x * (y \div 256)) % 256) * 256) % M
RECURSIVE PowM(_, _)
PowM(x, e) == IF e = 0 THEN 1 % M ELSE MulM(PowM(x, e - 1), x)
SDivI(x, y) == IF y = 0 THEN 0
               ELSE LET q == AbsI(S(x)) \div AbsI(S(y))
                    IN  U(IF (S(x) < 0) # (S(y) < 0) THEN 0 - q ELSE q)
SModI(x, y) == IF y = 0 THEN 0
               ELSE LET r == AbsI(S(x)) % AbsI(S(y))
                    IN  U(IF S(x) < 0 THEN 0 - r ELSE r)
RECURSIVE BitAnd(_, _, _), BitOr(_, _, _), BitXor(_, _, _)
BitAnd(x, y, n) == IF n = 0 THEN 0 ELSE ((x % 2) * (y % 2)) + 2 * BitAnd(x \div 2, y \div 2, n - 1)
BitOr(x, y, n)  == IF n = 0 THEN 0 ELSE (IF (x % 2) + (y % 2) > 0 THEN 1 ELSE 0) + 2 * BitOr(x \div 2, y \div 2, n - 1)
BitXor(x, y, n) == IF n = 0 THEN 0 ELSE (((x % 2) + (y % 2)) % 2) + 2 * BitXor(x \div 2, y \div 2, n - 1)
\* shifts with the shift amount small enough for 2^s to stay in range are computed natively
ShlI(s, x) == IF s >= WBits THEN 0 ELSE IF NB = 1 THEN (x * 2 ^ s) % M
              ELSE MulM(x, 2 ^ s)
ShrI(s, x) == IF s >= WBits THEN 0 ELSE x \div (2 ^ s)
SarI(s, x) == IF s >= WBits THEN (IF S(x) < 0 THEN M - 1 ELSE 0)
              ELSE U(IF S(x) < 0 THEN 0 - (((0 - S(x)) + (2 ^ s) - 1) \div (2 ^ s)) ELSE S(x) \div (2 ^ s))
ByteI(i, x) == IF i >= NB THEN 0 ELSE (x \div (256 ^ (NB - 1 - i))) % 256
SignExtI(k, x) == IF k >= NB - 1 THEN x
                  ELSE LET low == x % (256 ^ (k + 1))
                       IN  IF low >= (256 ^ (k + 1)) \div 2 THEN U(low - 256 ^ (k + 1)) ELSE low
B(p) == IF p THEN 1 ELSE 0

Agree(x, y) ==
  /\ Val(W(x)) = x
  /\ Val(ADD(W(x), W(y))) = (x + y) % M
  /\ Val(SUB(W(x), W(y))) = U(x - y)
  /\ Val(MUL(W(x), W(y))) = MulM(x, y)
  /\ Val(DIV(W(x), W(y))) = (IF y = 0 THEN 0 ELSE x \div y)
  /\ Val(MOD(W(x), W(y))) = (IF y = 0 THEN 0 ELSE x % y)
  /\ Val(SDIV(W(x), W(y))) = SDivI(x, y)
  /\ Val(SMOD(W(x), W(y))) = SModI(x, y)
  /\ Val(LT(W(x), W(y))) = B(x < y)
  /\ Val(GT(W(x), W(y))) = B(x > y)
  /\ Val(SLT(W(x), W(y))) = B(S(x) < S(y))
  /\ Val(SGT(W(x), W(y))) = B(S(x) > S(y))
  /\ Val(EQ(W(x), W(y))) = B(x = y)
  /\ Val(ISZERO(W(x))) = B(x = 0)
  /\ Val(AND(W(x), W(y))) = BitAnd(x, y, WBits)
  /\ Val(OR(W(x), W(y))) = BitOr(x, y, WBits)
  /\ Val(XOR(W(x), W(y))) = BitXor(x, y, WBits)
  /\ Val(NOT(W(x))) = M - 1 - x
  /\ Val(Neg(W(x))) = U(0 - x)
  /\ Val(SHL(W(x), W(y))) = ShlI(x, y)
  /\ Val(SHR(W(x), W(y))) = ShrI(x, y)
  /\ Val(SAR(W(x), W(y))) = SarI(x, y)
  /\ Val(BYTE(W(x), W(y))) = ByteI(x, y)
  /\ Val(SIGNEXTEND(W(x), W(y))) = SignExtI(x, y)
  /\ (y <= 40 => Val(EXP(W(x), W(y))) = PowM(x, y))
  /\ \A z \in Dom3 :
        /\ Val(ADDMOD(W(x), W(y), W(z))) = (IF z = 0 THEN 0 ELSE (x + y) % z)
        /\ Val(MULMOD(W(x), W(y), W(z))) =
              (IF z = 0 THEN 0
               ELSE IF NB = 1 THEN (x * y) % z
               ELSE \* (x*y) mod z without overflow: Horner over the bytes of y
                    ((((x % z) * (y \div 256)) % z) * 256 + (x % z) * (y % 256)) % z)

\* operand sets for the two configurations
Dom1  == 0..255
Dom31 == {0, 1, 2, 3, 7, 100, 127, 128, 129, 254, 255}
Dom1q == (0..17) \cup {31, 32, 33, 63, 64, 65, 100, 126, 127, 128, 129, 130, 191, 192, 200, 240, 253, 254, 255} \cup {k * 7 + 3 : k \in 0..35}
Dom2  == {0, 1, 2, 3, 7, 8, 9, 15, 16, 17, 31, 32, 127, 128, 129, 255, 256, 257, 511, 512,
          32767, 32768, 32769, 65279, 65280, 65534, 65535} \cup {(k * 241 + 5) % 65536 : k \in 0..272}
Dom32 == {0, 1, 2, 255, 256, 257, 32768, 65535, 12345}

Init == a \in Dom /\ b \in Dom
Next == UNCHANGED <<a, b>>
Spec == Init /\ [][Next]_<<a, b>>
AllAgree == Agree(a, b)
=============================================================================
