SPECIFICATION Spec
CONSTANT NB = 1
CONSTANT Dom <- Dom1q
CONSTANT Dom3 <- Dom31
INVARIANT AllAgree
CHECK_DEADLOCK FALSE
