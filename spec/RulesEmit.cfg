SPECIFICATION Spec
CONSTANT NB = 1
CONSTANT Dom <- Tiny
CONSTANT Dom3 <- Tiny
INVARIANT Emit
INVARIANT Distinct
INVARIANT Patterned
POSTCONDITION Covered
CHECK_DEADLOCK FALSE
