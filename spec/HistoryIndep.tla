---------------------------- MODULE HistoryIndep ----------------------------
(***************************************************************************)
(* Validator (V) of C12.  The recorded table                                *)
(*   T.base[t]   result of target t processed first in a fresh process      *)
(*   T.obs       sequence of observations [t, h, cls, r]: result r of       *)
(*               target t after history h (pool indices) in a fresh         *)
(*               process, cls = "other" | "self" | "fresh" (h = <<>>,       *)
(*               another fresh process)                                     *)
(* A result is a record of strings, one per component (T.comps): canonical  *)
(* JSON text hashes of the specification dictionaries with identifiers      *)
(* ("sfs"), of the emitted block, raw optimized block, log and greedy ids   *)
(* ("optimized"), of the statistics rows without time fields and the        *)
(* change of the running totals ("stats"), the exceptions raised            *)
(* ("exception"), the specifications and verdict of the built-in comparison *)
(* ("cmp"), the encoding files written ("enc").                             *)
(*                                                                         *)
(* Property:  \A t, h : result(t | h) = result(t | <<>>).                   *)
(* Batch form: one state per observation, one VERDICT line per observation  *)
(* and component that differs from the base result.                         *)
(***************************************************************************)
EXTENDS Naturals, Sequences, Json, IOUtils, TLC

T == JsonDeserialize(IOEnv.CASES)

Result(i) == T.obs[i].r
Base(t)   == T.base[t]

\* the property over the first n observations (stated; the batch below reports every failure)
Independent(n) == \A i \in 1..n : \A k \in 1..Len(T.comps) : Result(i)[T.comps[k]] = Base(T.obs[i].t)[T.comps[k]]

VARIABLE c

Judge(i) ==
  LET o == T.obs[i] IN
  \A k \in 1..Len(T.comps) :
     IF o.r[T.comps[k]] = Base(o.t)[T.comps[k]] THEN TRUE
     ELSE PrintT(<<"VERDICT", i, o.t, o.h, T.comps[k], o.cls>>)

Init == c = 1 /\ TLCSet(1, 0)
Next == c <= Len(T.obs) /\ Judge(c) /\ TLCSet(1, c) /\ c' = c + 1
Spec == Init /\ [][Next]_c

Accepted ==
  /\ PrintT(<<"CONSUMED", TLCGet(1), Len(T.obs)>>)
  /\ TLCGet(1) = Len(T.obs)
=============================================================================
