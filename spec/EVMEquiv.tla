------------------------------ MODULE EVMEquiv ------------------------------
(***************************************************************************)
(* Batch validator: are two blocks observationally equivalent on the grid?   *)
(* One TLC state per (case, grid state).  A case is                         *)
(*    [id |-> Nat, orig |-> Seq(instr), opt |-> Seq(instr)]                  *)
(* recorded by the harness from the real optimizer (orig = input block,      *)
(* opt = block in the emitted output).  The verdict of every grid state is   *)
(* computed here; only non-"ok" verdicts are printed.  Acceptance            *)
(* (POSTCONDITION) = every grid state of every case was evaluated.           *)
(***************************************************************************)
EXTENDS EVM, Grid, Json, IOUtils

Input == JsonDeserialize(IOEnv.CASES)     \* [cap, seed, cases]
Cases == Input.cases
Cap   == Input.cap
Seed  == Input.seed

VARIABLES c, g

\* constants pushed by the two blocks (at most 8), used as extra sweep values
BlockConsts(cs) ==
  LET all == SelectSeq(cs.orig \o cs.opt, LAMBDA ins : ins.op = "PUSH" /\ Len(ins.w) <= NB)
      ws  == [i \in 1..Len(all) |-> Pad(all[i].w)]
      firsts == SelectSeq(Idx(Len(ws)), LAMBDA i : \A j \in 1..(i - 1) : ws[j] # ws[i])
  IN  [i \in 1..(IF Len(firsts) > 8 THEN 8 ELSE Len(firsts)) |-> ws[firsts[i]]]
Vals(cs)  == V16 \o BlockConsts(cs)
\* C01 demands that the emitted block needs no deeper stack; C05 (depthcheck FALSE) only asks whether a state with
\* enough stack for both blocks tells them apart
DepthCheck == IF "depthcheck" \in DOMAIN Input THEN Input.depthcheck ELSE TRUE
Depth(cs) == LET a == MinDepth(cs.orig)  b == MinDepth(cs.opt) IN IF a > b \/ DepthCheck THEN a ELSE b
Size(cs)  == IF Depth(cs) = 0 THEN 2 ELSE GridSize(Depth(cs), Len(Vals(cs)), Cap)
StartState(cs, idx) ==
  InitState(IF Depth(cs) = 0 THEN <<>> ELSE GridStack(Depth(cs), Vals(cs), Cap, Seed, idx),
            idx % 3, idx % 2)

Verdict(cs, idx) ==
  IF \E ins \in Range(cs.orig) \cup Range(cs.opt) : ~Known(ins) THEN "undecided-unsupported"
  ELSE IF DepthCheck /\ MinDepth(cs.opt) > MinDepth(cs.orig) THEN "depth"
  ELSE IF ~SameDelta(cs.orig, cs.opt) THEN "delta"
  ELSE
  LET s0 == StartState(cs, idx)
      r1 == Run(s0, cs.orig)
      r2 == Run(s0, cs.opt)
  IN  IF r2.halt = "badpush" THEN "badpush"
      ELSE IF Undecided(r1) \/ Undecided(r2) \/ r1.halt = "badpush" THEN "undecided-" \o r1.halt \o "-" \o r2.halt
      ELSE IF r1.halt # r2.halt THEN "halt"
      ELSE IF r1.obs # r2.obs THEN "obs"
      ELSE IF Continues(r1) /\ r1.stack # r2.stack THEN "stack"
      ELSE IF Continues(r1) /\ ~MemEq(r1, r2) THEN "mem"
      ELSE IF Persists(r1) /\ ~StoEq(r1, r2) THEN "sto"
      ELSE "ok"

Init == c = 1 /\ g = 1
Next ==
  /\ c <= Len(Cases)
  /\ LET cs == Cases[c]  v == Verdict(cs, g)
     IN  /\ IF v = "ok" THEN TRUE ELSE PrintT(<<"VERDICT", cs.id, g, v>>)
         /\ IF g < Size(cs) THEN g' = g + 1 /\ c' = c ELSE g' = 1 /\ c' = c + 1
Spec == Init /\ [][Next]_<<c, g>>

Expected == FoldLeft(LAMBDA acc, cs : acc + Size(cs), 0, Cases)
Accepted ==
  /\ PrintT(<<"EVALUATED", TLCGet("stats").distinct - 1, Expected>>)
  /\ TLCGet("stats").distinct - 1 = Expected
=============================================================================
