------------------------------- MODULE Mutate -------------------------------
(***************************************************************************)
(* Generator (G) for C05: every single semantic mutation of each base block.  *)
(* Bases (JSON): sequence of blocks, a block = sequence of [op, k, push]      *)
(* (op: opcode name, DUP/SWAP with depth k; push = TRUE for PUSH of a          *)
(* constant).  A mutant is <<base, position, kind, parameter>>; the harness    *)
(* applies it to the block text.  Kinds:                                      *)
(*   swapargs   SWAP1 inserted before a binary instruction (operand swap)     *)
(*   subst      opcode replaced by another one of its confusion class (param   *)
(*              = index into the class)                                       *)
(*   const      pushed constant changed: +1, -1, lowest bit flipped, top bit    *)
(*              flipped (param 1..4)                                          *)
(*   dropstore  a store removed together with its operands (POP POP instead)  *)
(*   dupstore   DUP2 DUP2 inserted before a store (the store is performed twice *)
(*              ... realised by the harness as: DUP2 DUP2 <store> <store>)     *)
(*   swapnext   two adjacent instructions exchanged                            *)
(*   index      DUP/SWAP depth changed by +1 / -1 (param 1, 2)                 *)
(*   permute    a permutation of the input stack put in front of the block     *)
(*              (param = index into the harness' list PERMS: operands and      *)
(*              operand pairs of the first instructions exchanged, so that     *)
(*              two stores or a store and a load trade places)                 *)
(*   swapgroup  two adjacent store groups exchanged.  A store group is a store  *)
(*              with the instructions since the previous store, when that        *)
(*              segment builds the store's operands without consuming or          *)
(*              rearranging what was on the stack before it (field grp = its       *)
(*              length, computed by the harness from the arity table, 0 if the     *)
(*              segment is not of that form); param = position of the second       *)
(*              store.  "Reordered conflicting store" for stores whose operands    *)
(*              are computed in place.                                           *)
(*   swapconst  the constants of two PUSHes exchanged (param = position of the   *)
(*              second PUSH; field c = the constant)                             *)
(***************************************************************************)
EXTENDS Naturals, Sequences, Json, IOUtils, TLC

Bases == JsonDeserialize(IOEnv.BASES).bases

Classes == << <<"DIV", "SDIV">>, <<"MOD", "SMOD">>, <<"LT", "SLT">>, <<"GT", "SGT">>, <<"SHR", "SAR">>,
              <<"SHL", "SHR">>, <<"MSTORE", "MSTORE8">>, <<"LT", "GT">>, <<"ADD", "SUB">>, <<"AND", "OR">>,
              <<"SLOAD", "MLOAD">>, <<"SSTORE", "MSTORE">>, <<"CALLER", "ORIGIN">>, <<"EQ", "SUB">> >>
Binary == {"ADD", "MUL", "SUB", "DIV", "SDIV", "MOD", "SMOD", "EXP", "SIGNEXTEND", "LT", "GT", "SLT", "SGT", "EQ",
           "AND", "OR", "XOR", "BYTE", "SHL", "SHR", "SAR", "MSTORE", "MSTORE8", "SSTORE", "KECCAK256"}
StoreOps == {"MSTORE", "MSTORE8", "SSTORE"}
NPerms == 6        \* length of the harness' list PERMS

VARIABLES b, pos, kind, par
vars == <<b, pos, kind, par>>

\* substitutes available for an opcode: <<class index, member index>> pairs naming the replacement
Substs(op) == {<<c, m>> \in (1..Len(Classes)) \X (1..2) :
                 /\ Classes[c][m] # op
                 /\ Classes[c][3 - m] = op}

Valid(bi, p, k, x) ==
  LET blk == Bases[bi]  ins == blk[p] IN
  CASE k = "swapargs"  -> ins.op \in Binary /\ x = 0
    [] k = "subst"     -> \E s \in Substs(ins.op) : x = s[1] * 10 + s[2]
    [] k = "const"     -> ins.push /\ x \in 1..4
    [] k = "dropstore" -> ins.op \in StoreOps /\ x = 0
    [] k = "dupstore"  -> ins.op \in StoreOps /\ x = 0
    [] k = "swapnext"  -> p < Len(blk) /\ x = 0 /\ blk[p] # blk[p + 1]
    [] k = "permute"   -> p = 1 /\ x \in 1..NPerms
    [] k = "index"     -> ins.op \in {"DUP", "SWAP"} /\ ((x = 1 /\ ins.k < 16) \/ (x = 2 /\ ins.k > 1))
    [] k = "swapgroup" -> /\ ins.grp > 0 /\ x \in (p + 1)..Len(blk)
                          /\ blk[x].grp = x - p
                          /\ SubSeq(blk, p - ins.grp + 1, p) # SubSeq(blk, p + 1, x)
    [] k = "swapconst" -> ins.push /\ x \in (p + 1)..Len(blk) /\ blk[x].push /\ blk[x].c # ins.c
    [] OTHER -> FALSE

Kinds == {"swapargs", "subst", "const", "dropstore", "dupstore", "swapnext", "index", "permute", "swapgroup", "swapconst"}
Params == 0..(Len(Classes) * 10 + 2)

Init == b \in 1..Len(Bases) /\ pos = 0 /\ kind = "none" /\ par = 0
Next == /\ pos = 0
        /\ \E p \in 1..Len(Bases[b]) : \E k \in Kinds : \E x \in Params :
             Valid(b, p, k, x) /\ pos' = p /\ kind' = k /\ par' = x
        /\ UNCHANGED b
Spec == Init /\ [][Next]_vars
Repl == IF kind = "subst" THEN Classes[par \div 10][par % 10] ELSE ""
Emit == pos > 0 => PrintT(<<"M", b, pos, kind, par, Repl>>)
=============================================================================
