-------------------------------- MODULE Cost --------------------------------
(***************************************************************************)
(* Independent cost tables: byte size, instruction count and static gas of   *)
(* a block of assembly items, parameterised by the PUSH0 switch.            *)
(*                                                                         *)
(* An item here is [n |-> name, v |-> operand text ("" when absent)].       *)
(*                                                                         *)
(* ZERO PUSH.  A zero push is the item PUSH0 or a PUSH whose constant is     *)
(* zero.  With PUSH0 in the instruction set (push0 = TRUE) a zero push is    *)
(* the one-byte instruction PUSH0 (EIP-3855: 1 byte, Gbase = 2); with PUSH0  *)
(* removed (push0 = FALSE) a zero constant is PUSH1 0x00 (2 bytes,          *)
(* Gverylow = 3).  An item that is literally named PUSH0 is that opcode and  *)
(* is priced as such whatever the switch says.                              *)
(*                                                                         *)
(* SIZE is the solc assembler rule (libevmasm AssemblyItem::bytesRequired):  *)
(*   operation 1; PUSH 1 + max(1, bytes of the constant); `tag` 0 (its       *)
(*   JUMPDEST is a separate item of the JSON listing, 1 byte).              *)
(*   Widths that the assembler derives from the finished program and that a  *)
(*   block alone does not determine are TAKEN FROM THE TOOL                  *)
(*   (sfs_generator/utils.py:get_ins_size) and are assumptions here:        *)
(*     PUSH [tag], PUSH data, PUSH [$]   1 + AddressLength, AddressLength=2  *)
(*                                       (programs below 64 KiB)            *)
(*     PUSH #[$], PUSHSIZE               1 + 4 (the assembler's fixed width) *)
(*     PUSHLIB, PUSHDEPLOYADDRESS        1 + 20 (an address)                *)
(*     PUSHIMMUTABLE                     1 + 32                             *)
(*     ASSIGNIMMUTABLE                   3 + 32 (one occurrence of the      *)
(*                                       immutable assumed)                 *)
(*                                                                         *)
(* GASSTATIC is the context-free schedule: Yellow Paper tiers, Berlin cold   *)
(* access prices, no memory expansion, no per-byte/per-word components.     *)
(* Prices of the dynamic part that the tool fixes by convention are TAKEN    *)
(* FROM THE TOOL (sfs_generator/opcodes.py:get_ins_cost) and are             *)
(* assumptions here: EXP 60 (one exponent byte), KECCAK256 30 (no words),    *)
(* SHA3 36, copies 3, LOGn 375 + 375 n, calls 100 (warm), CREATE/CREATE2     *)
(* 32000, SSTORE 2100 + 2900 (cold slot, reset), ASSIGNIMMUTABLE and unknown *)
(* names 0.  The tool prices a second access to the same slot / account as   *)
(* warm; GasComparable says when a block has no such second access, and the  *)
(* validator compares gas only then.                                       *)
(***************************************************************************)
EXTENDS Naturals, Sequences, SequencesExt, FiniteSets, TLC

AddressLength == 2

HexChars == <<"0", "1", "2", "3", "4", "5", "6", "7", "8", "9", "a", "b", "c", "d", "e", "f", "A", "B", "C", "D", "E", "F">>
IsHexChar(c) == \E i \in 1..Len(HexChars) : HexChars[i] = c
IsHex(v) == Len(v) >= 1 /\ \A i \in 1..Len(v) : IsHexChar(SubSeq(v, i, i))
\* number of hex digits after the leading zeros (0 for a zero constant)
SigDigits(v) ==
  LET nz == {i \in 1..Len(v) : SubSeq(v, i, i) # "0"}
  IN  IF nz = {} THEN 0 ELSE Len(v) + 1 - (CHOOSE i \in nz : \A j \in nz : i <= j)
IsZeroValue(v) == Len(v) >= 1 /\ \A i \in 1..Len(v) : SubSeq(v, i, i) = "0"
ConstBytes(v)  == IF SigDigits(v) = 0 THEN 1 ELSE (SigDigits(v) + 1) \div 2

ZeroPush(it)   == it.n = "PUSH0" \/ (it.n = "PUSH" /\ IsZeroValue(it.v))
HasPush0(block) == \E i \in 1..Len(block) : block[i].n = "PUSH0"
ZeroPushes(block) == Cardinality({i \in 1..Len(block) : ZeroPush(block[i])})

\* every PUSH constant is readable (otherwise nothing is priced: undecided)
Priceable(block) == \A i \in 1..Len(block) : block[i].n = "PUSH" => IsHex(block[i].v) /\ SigDigits(block[i].v) <= 64

SizeOf(it, push0) ==
  IF it.n = "PUSH0" THEN 1
  ELSE IF it.n = "PUSH" THEN (IF push0 /\ IsZeroValue(it.v) THEN 1 ELSE 1 + ConstBytes(it.v))
  ELSE IF it.n = "tag" THEN 0
  ELSE IF it.n \in {"PUSH [tag]", "PUSH data", "PUSH [$]"} THEN 1 + AddressLength
  ELSE IF it.n \in {"PUSH #[$]", "PUSHSIZE"} THEN 1 + 4
  ELSE IF it.n \in {"PUSHLIB", "PUSHDEPLOYADDRESS"} THEN 1 + 20
  ELSE IF it.n = "PUSHIMMUTABLE" THEN 1 + 32
  ELSE IF it.n = "ASSIGNIMMUTABLE" THEN 3 + 32
  ELSE 1
Size(block, push0) == FoldLeft(LAMBDA acc, it : acc + SizeOf(it, push0), 0, block)

Length(block) == Len(SelectSeq(block, LAMBDA it : it.n # "tag"))

Gzero    == {"STOP", "RETURN", "REVERT", "tag"}
Gbase    == {"ADDRESS", "ORIGIN", "CALLER", "CALLVALUE", "CALLDATASIZE", "CODESIZE", "GASPRICE", "COINBASE",
             "TIMESTAMP", "NUMBER", "DIFFICULTY", "PREVRANDAO", "GASLIMIT", "CHAINID", "BASEFEE", "POP", "PC",
             "MSIZE", "GAS", "RETURNDATASIZE", "PUSH0"}
Gverylow == {"ADD", "SUB", "NOT", "LT", "GT", "SLT", "SGT", "EQ", "ISZERO", "AND", "OR", "XOR", "BYTE", "SHL",
             "SHR", "SAR", "CALLDATALOAD", "MLOAD", "MSTORE", "MSTORE8",
             "CALLDATACOPY", "CODECOPY", "RETURNDATACOPY"}
Glow     == {"MUL", "DIV", "SDIV", "MOD", "SMOD", "SIGNEXTEND", "SELFBALANCE"}
Gmid     == {"ADDMOD", "MULMOD", "JUMP"}
ColdAccount == {"BALANCE", "EXTCODESIZE", "EXTCODEHASH", "EXTCODECOPY"}
Calls    == {"CALL", "CALLCODE", "DELEGATECALL", "STATICCALL"}
StartsWith(p, s) == Len(s) >= Len(p) /\ SubSeq(s, 1, Len(p)) = p

GasOf(it, push0) ==
  IF it.n = "PUSH" THEN (IF push0 /\ IsZeroValue(it.v) THEN 2 ELSE 3)
  ELSE IF it.n \in Gzero THEN 0
  ELSE IF it.n \in Gbase THEN 2
  ELSE IF it.n \in Gverylow \/ StartsWith("PUSH", it.n) \/ StartsWith("DUP", it.n) \/ StartsWith("SWAP", it.n) THEN 3
  ELSE IF it.n \in Glow THEN 5
  ELSE IF it.n \in Gmid THEN 8
  ELSE IF it.n = "JUMPI" THEN 10
  ELSE IF it.n = "JUMPDEST" THEN 1
  ELSE IF it.n \in ColdAccount THEN 2600
  ELSE IF it.n = "SLOAD" THEN 2100
  ELSE IF it.n = "SSTORE" THEN 2100 + 2900
  ELSE IF it.n \in {"CREATE", "CREATE2"} THEN 32000
  ELSE IF it.n \in Calls THEN 100
  ELSE IF it.n = "LOG0" THEN 375
  ELSE IF it.n = "LOG1" THEN 750
  ELSE IF it.n = "LOG2" THEN 1125
  ELSE IF it.n = "LOG3" THEN 1500
  ELSE IF it.n = "LOG4" THEN 1875
  ELSE IF it.n = "BLOCKHASH" THEN 20
  ELSE IF it.n = "EXP" THEN 60
  ELSE IF it.n = "KECCAK256" THEN 30
  ELSE IF it.n = "SHA3" THEN 36
  ELSE IF it.n = "SELFDESTRUCT" THEN 5000
  ELSE 0
GasStatic(block, push0) == FoldLeft(LAMBDA acc, it : acc + GasOf(it, push0), 0, block)

\* no slot and no account can be accessed twice, so every access is cold in every accounting
GasComparable(block) ==
  /\ Cardinality({i \in 1..Len(block) : block[i].n \in {"SLOAD", "SSTORE"}}) <= 1
  /\ Cardinality({i \in 1..Len(block) : block[i].n \in ColdAccount}) <= 1

-----------------------------------------------------------------------------
(* SYMGAS: the tool's documented accounting of a block's gas (AsmBlock.gas_spent): the block is executed on    *)
(* symbolic terms - initial stack elements s(i), constants by value, every other result named by its operator  *)
(* and operand terms - and an SLOAD / SSTORE / account access is priced warm (100; an SSTORE then pays only    *)
(* its reset part) iff an access to a SYNTACTICALLY EQUAL term happened earlier in the block, cold otherwise.  *)
(* Storage slots and accounts are separate name spaces.  A zero push is the constant 0 whichever way it is     *)
(* spelled.  Terms are strings, so that terms of different shape can be compared.                             *)
SymArity ==
  [ADD |-> <<2,1>>, MUL |-> <<2,1>>, SUB |-> <<2,1>>, DIV |-> <<2,1>>, SDIV |-> <<2,1>>, MOD |-> <<2,1>>, SMOD |-> <<2,1>>,
   ADDMOD |-> <<3,1>>, MULMOD |-> <<3,1>>, EXP |-> <<2,1>>, SIGNEXTEND |-> <<2,1>>, LT |-> <<2,1>>, GT |-> <<2,1>>,
   SLT |-> <<2,1>>, SGT |-> <<2,1>>, EQ |-> <<2,1>>, ISZERO |-> <<1,1>>, AND |-> <<2,1>>, OR |-> <<2,1>>, XOR |-> <<2,1>>,
   NOT |-> <<1,1>>, BYTE |-> <<2,1>>, SHL |-> <<2,1>>, SHR |-> <<2,1>>, SAR |-> <<2,1>>, KECCAK256 |-> <<2,1>>, SHA3 |-> <<2,1>>,
   ADDRESS |-> <<0,1>>, BALANCE |-> <<1,1>>, ORIGIN |-> <<0,1>>, CALLER |-> <<0,1>>, CALLVALUE |-> <<0,1>>,
   CALLDATALOAD |-> <<1,1>>, CALLDATASIZE |-> <<0,1>>, CALLDATACOPY |-> <<3,0>>, CODESIZE |-> <<0,1>>, CODECOPY |-> <<3,0>>,
   GASPRICE |-> <<0,1>>, EXTCODESIZE |-> <<1,1>>, EXTCODECOPY |-> <<4,0>>, RETURNDATASIZE |-> <<0,1>>,
   RETURNDATACOPY |-> <<3,0>>, EXTCODEHASH |-> <<1,1>>, BLOCKHASH |-> <<1,1>>, COINBASE |-> <<0,1>>, TIMESTAMP |-> <<0,1>>,
   NUMBER |-> <<0,1>>, DIFFICULTY |-> <<0,1>>, PREVRANDAO |-> <<0,1>>, GASLIMIT |-> <<0,1>>, CHAINID |-> <<0,1>>,
   SELFBALANCE |-> <<0,1>>, BASEFEE |-> <<0,1>>, POP |-> <<1,0>>, MLOAD |-> <<1,1>>, MSTORE |-> <<2,0>>, MSTORE8 |-> <<2,0>>,
   SLOAD |-> <<1,1>>, SSTORE |-> <<2,0>>, JUMP |-> <<1,0>>, JUMPI |-> <<2,0>>, GAS |-> <<0,1>>, JUMPDEST |-> <<0,0>>,
   tag |-> <<0,0>>, LOG0 |-> <<2,0>>, LOG1 |-> <<3,0>>, LOG2 |-> <<4,0>>, LOG3 |-> <<5,0>>, LOG4 |-> <<6,0>>,
   CREATE |-> <<3,1>>, CALL |-> <<7,1>>, CALLCODE |-> <<7,1>>, RETURN |-> <<2,0>>, DELEGATECALL |-> <<6,1>>,
   CREATE2 |-> <<4,1>>, STATICCALL |-> <<6,1>>, REVERT |-> <<2,0>>, INVALID |-> <<0,0>>, STOP |-> <<0,0>>,
   SELFDESTRUCT |-> <<1,0>>, ASSIGNIMMUTABLE |-> <<2,0>>, PUSHLIB |-> <<0,1>>, PUSHDEPLOYADDRESS |-> <<0,1>>,
   PUSHSIZE |-> <<0,1>>, PUSHIMMUTABLE |-> <<0,1>>]
PseudoPush == {"PUSH [tag]", "PUSH data", "PUSH [$]", "PUSH #[$]"}
DupK(n)  == IF \E k \in 1..16 : n = "DUP" \o ToString(k) THEN CHOOSE k \in 1..16 : n = "DUP" \o ToString(k) ELSE 0
SwapK(n) == IF \E k \in 1..16 : n = "SWAP" \o ToString(k) THEN CHOOSE k \in 1..16 : n = "SWAP" \o ToString(k) ELSE 0
SymKnown(it) == it.n \in DOMAIN SymArity \/ it.n \in PseudoPush \cup {"PUSH", "PUSH0"} \/ DupK(it.n) > 0 \/ SwapK(it.n) > 0
SymPriceable(block) == Priceable(block) /\ \A i \in 1..Len(block) : SymKnown(block[i])

LowerOf(c) == CASE c = "A" -> "a" [] c = "B" -> "b" [] c = "C" -> "c" [] c = "D" -> "d" [] c = "E" -> "e" [] c = "F" -> "f" [] OTHER -> c
\* canonical text of a hexadecimal constant: no leading zeros, lower case, "0" for zero
CanonHex(v) ==
  LET k == SigDigits(v) IN
  IF k = 0 THEN "0"
  ELSE FoldLeft(LAMBDA acc, i : acc \o LowerOf(SubSeq(v, i, i)), "", [j \in 1..k |-> Len(v) - k + j])
JoinTerms(ts) == FoldLeft(LAMBDA acc, i : IF i = 1 THEN ts[1] ELSE acc \o "," \o ts[i], "", [j \in 1..Len(ts) |-> j])

\* acc = [stack, nin, gas, slots, accts]; the stack grows at the bottom with fresh input symbols when an instruction reaches below it
SymFill(acc, k) ==
  IF Len(acc.stack) >= k THEN acc
  ELSE LET m == k - Len(acc.stack) IN
       [acc EXCEPT !.stack = acc.stack \o [j \in 1..m |-> "s(" \o ToString(acc.nin + j - 1) \o ")"], !.nin = acc.nin + m]
SymStep(acc0, it, push0) ==
  LET n == it.n IN
  IF n = "PUSH" THEN [acc0 EXCEPT !.stack = <<"#" \o CanonHex(it.v)>> \o acc0.stack, !.gas = @ + GasOf(it, push0)]
  ELSE IF n = "PUSH0" THEN [acc0 EXCEPT !.stack = <<"#0">> \o acc0.stack, !.gas = @ + GasOf(it, push0)]
  ELSE IF n \in PseudoPush \/ n \in {"PUSHLIB", "PUSHIMMUTABLE"} THEN [acc0 EXCEPT !.stack = <<n \o ":" \o it.v>> \o acc0.stack, !.gas = @ + GasOf(it, push0)]
  ELSE IF DupK(n) > 0 THEN LET a == SymFill(acc0, DupK(n)) IN [a EXCEPT !.stack = <<a.stack[DupK(n)]>> \o a.stack, !.gas = @ + 3]
  ELSE IF SwapK(n) > 0 THEN LET k == SwapK(n)  a == SymFill(acc0, k + 1) IN
                            [a EXCEPT !.stack = [a.stack EXCEPT ![1] = a.stack[k + 1], ![k + 1] = a.stack[1]], !.gas = @ + 3]
  ELSE
  LET ar == SymArity[n]
      a  == SymFill(acc0, ar[1])
      ops == SubSeq(a.stack, 1, ar[1])
      rest == SubSeq(a.stack, ar[1] + 1, Len(a.stack))
      res == IF ar[2] = 0 THEN <<>> ELSE IF ar[1] = 0 THEN <<n>> ELSE <<n \o "(" \o JoinTerms(ops) \o ")">>
      key == IF ar[1] > 0 THEN ops[1] ELSE ""
      g == IF n = "SLOAD" THEN (IF key \in a.slots THEN 100 ELSE 2100)
           ELSE IF n = "SSTORE" THEN (IF key \in a.slots THEN 0 ELSE 2100) + 2900
           ELSE IF n \in ColdAccount THEN (IF key \in a.accts THEN 100 ELSE 2600)
           ELSE GasOf(it, push0)
  IN  [stack |-> res \o rest, nin |-> a.nin, gas |-> a.gas + g,
       slots |-> IF n \in {"SLOAD", "SSTORE"} THEN a.slots \cup {key} ELSE a.slots,
       accts |-> IF n \in ColdAccount THEN a.accts \cup {key} ELSE a.accts]
SymGas(block, push0) ==
  FoldLeft(LAMBDA acc, it : SymStep(acc, it, push0), [stack |-> <<>>, nin |-> 0, gas |-> 0, slots |-> {}, accts |-> {}], block).gas

\* C08: better in the criterion, ties broken by the other measures (not used by C17)
Cost(crit, block, push0) ==
  IF crit = "size" THEN Size(block, push0) ELSE IF crit = "length" THEN Length(block) ELSE GasStatic(block, push0)
=============================================================================
