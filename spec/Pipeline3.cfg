SPECIFICATION Spec
CONSTANTS
  NB = 3
  SecOf <- Sec3
  MaxSubs = 2
  Contain = "all"
  WithReplay = FALSE
  MaxTamper = 0
INVARIANTS TypeOK NoEscape FailureCostsOneBlock EmitOldAfterFailure KeepOrRevert OutSound LogMatchesOutput
PROPERTIES EveryBlockEmitted OutputWritten
CHECK_DEADLOCK FALSE
