------------------------------ MODULE SFSTrace ------------------------------
(***************************************************************************)
(* Batch trace validator (V): is a recorded instruction-id sequence a        *)
(* behaviour of SFSMachine that ends in Goal?  One TLC state per trace step. *)
(* A case is [id, sfs, ids (Seq [id, k]), maxlen, maxstack]; maxlen/maxstack *)
(* are 0 when the property does not bound them (C04) and the published       *)
(* bounds otherwise (C06).                                                   *)
(***************************************************************************)
EXTENDS SFSMachine, Json, IOUtils, TLC

Cases == JsonDeserialize(IOEnv.CASES).cases

VARIABLES c, pos, st, peak

Init == c = 1 /\ pos = 1 /\ st = (IF Len(Cases) > 0 THEN Start(Cases[1].sfs) ELSE [stack |-> <<>>, done |-> {}])
        /\ peak = 0 /\ TLCSet(1, 0)

NextCase ==
  /\ TLCSet(1, c)
  /\ c' = c + 1 /\ pos' = 1 /\ peak' = 0
  /\ st' = IF c + 1 <= Len(Cases) THEN Start(Cases[c + 1].sfs) ELSE [stack |-> <<>>, done |-> {}]

Finish(cs) ==
  LET nn == Len(SelectSeq(cs.ids, LAMBDA e : e.id # "NOP"))
      v == IF ~WellFormed(cs.sfs) THEN "malformed sfs"
           ELSE IF ~(Stores(cs.sfs) \subseteq st.done) THEN "store missing"
           ELSE IF st.stack # cs.sfs.tgt THEN "final stack"
           ELSE IF cs.maxlen > 0 /\ nn > cs.maxlen THEN "length bound"
           ELSE IF cs.maxstack > 0 /\ peak > cs.maxstack THEN "stack bound"
           ELSE "ok"
  IN  IF v = "ok" THEN TRUE ELSE PrintT(<<"VERDICT", cs.id, Len(cs.ids) + 1, v>>)

Next ==
  /\ c <= Len(Cases)
  /\ LET cs == Cases[c] IN
     IF pos > Len(cs.ids) THEN Finish(cs) /\ NextCase
     ELSE LET r == Try(cs.sfs, st, cs.ids[pos]) IN
          IF r.err = "" THEN
               /\ st' = [stack |-> r.stack, done |-> r.done]
               /\ pos' = pos + 1 /\ c' = c
               /\ peak' = IF Len(r.stack) > peak THEN Len(r.stack) ELSE peak
          ELSE PrintT(<<"VERDICT", cs.id, pos, r.err>>) /\ NextCase
Spec == Init /\ [][Next]_<<c, pos, st, peak>>

Accepted ==
  /\ PrintT(<<"CONSUMED", TLCGet(1), Len(Cases)>>)
  /\ TLCGet(1) = Len(Cases)
=============================================================================
