------------------------------- MODULE SFSGen -------------------------------
(***************************************************************************)
(* Generator (G): enumerates well-formed stack functional specifications     *)
(* directly, i.e. specifications that need not be derived from any block     *)
(* ("hand-built S within the JSON format", quantifier of C04 / C06).         *)
(*                                                                         *)
(*   G.ops    sequence of [ar, out, kind, comm]: operand count, whether the   *)
(*            instruction has a result, its kind ("pure", "push", "mload",    *)
(*            "mstore", "sload", "sstore", "hash"), operand-order freedom;    *)
(*            the harness keeps the names                                    *)
(*   G.minsrc, G.maxsrc, G.maxins, G.maxtgt   bounds                         *)
(* A value is a natural: 1..nsrc are the initial stack elements, nsrc + i is  *)
(* the result of instruction i.  An instruction takes its operands among the  *)
(* values that exist before it, so data flow is acyclic by construction;      *)
(* dependency pairs <<i, j>> are chosen with i < j between two accesses of     *)
(* the same domain (memory / storage) of which at least one is a store, so     *)
(* data flow plus dependencies stay acyclic.  Well-formedness as the front-end *)
(* guarantees it: no two instructions with the same operator and operands,     *)
(* a constant is pushed by one instruction only, every result is used by an     *)
(* instruction or by the final stack.                                         *)
(* The final stack and the dependency set are chosen in the last step.        *)
(***************************************************************************)
EXTENDS Naturals, Sequences, SequencesExt, FiniteSets, Json, IOUtils, TLC

G == JsonDeserialize(IOEnv.GEN)
Ops == G.ops

VARIABLES nsrc, ins, tgt, deps, phase
vars == <<nsrc, ins, tgt, deps, phase>>

HasOut(i)  == Ops[ins[i].o].out = 1
Avail      == (1..nsrc) \cup {nsrc + i : i \in {j \in 1..Len(ins) : HasOut(j)}}
Kind(i)    == Ops[ins[i].o].kind
IsStore(i) == Kind(i) \in {"mstore", "sstore"}
Domain(i)  == IF Kind(i) \in {"mload", "mstore", "hash"} THEN "mem"
              ELSE IF Kind(i) \in {"sload", "sstore"} THEN "sto" ELSE "none"

Used(v) == (\E i \in 1..Len(ins) : \E j \in 1..Len(ins[i].a) : ins[i].a[j] = v)
           \/ (\E j \in 1..Len(tgt) : tgt[j] = v)

Cand == {p \in (1..Len(ins)) \X (1..Len(ins)) :
           /\ p[1] < p[2] /\ Domain(p[1]) # "none" /\ Domain(p[1]) = Domain(p[2])
           /\ (IsStore(p[1]) \/ IsStore(p[2]))}

Init == nsrc \in G.minsrc..G.maxsrc /\ ins = <<>> /\ tgt = <<>> /\ deps = {} /\ phase = "build"

Add ==
  /\ phase = "build" /\ Len(ins) < G.maxins
  /\ \E o \in 1..Len(Ops) : \E a \in [1..Ops[o].ar -> Avail] :
       /\ \A i \in 1..Len(ins) : ~(ins[i].o = o /\ ins[i].a = a)
       /\ (Ops[o].comm /\ Ops[o].ar = 2) => a[1] <= a[2]          \* one representative of the two operand orders
       /\ ins' = Append(ins, [o |-> o, a |-> a])
  /\ UNCHANGED <<nsrc, tgt, deps, phase>>

Finish ==
  /\ phase = "build"
  /\ \E k \in 0..G.maxtgt : \E t \in [1..k -> Avail] : \E D \in SUBSET Cand :
       /\ tgt' = t /\ deps' = D
  /\ phase' = "done"
  /\ UNCHANGED <<nsrc, ins>>

Next == Add \/ Finish
Spec == Init /\ [][Next]_vars

WellFormed == \A i \in 1..Len(ins) : HasOut(i) => Used(nsrc + i)
Emit == (phase = "done" /\ WellFormed /\ Len(ins) > 0) => PrintT(<<"S", nsrc, [i \in 1..Len(ins) |-> <<ins[i].o, ins[i].a>>], tgt, SetToSeq(deps)>>)
=============================================================================
