SPECIFICATION Spec
CONSTANT NB = 2
CONSTANT Dom <- Dom2
CONSTANT Dom3 <- Dom32
INVARIANT AllAgree
CHECK_DEADLOCK FALSE
