------------------------------ MODULE CostTrace ------------------------------
(***************************************************************************)
(* C08 validator.  A case is either                                          *)
(*   [kind "block", id, orig, opt, crit]  input block and emitted block         *)
(*   [kind "totals", id, rows, totals]    per-block figures the tool accumulated *)
(*                                        and the totals it reports              *)
(* Block cases: in the chosen criterion the emitted block costs no more than     *)
(* the input on every grid state (gas) / at all (size, length); if the blocks     *)
(* differ the emitted one improves: strictly cheaper in the criterion, or equal    *)
(* in it, no worse in the other two and strictly better in one (gas taken on the   *)
(* generic state 1).  One TLC state per (case, grid state).                      *)
(***************************************************************************)
EXTENDS EVMCost, Grid, Json, IOUtils, Integers

Input == JsonDeserialize(IOEnv.CASES)
Cases == Input.cases
Cap   == Input.cap
Seed  == Input.seed

VARIABLES c, g

Depth(cs) == LET a == MinDepth(cs.orig)  b == MinDepth(cs.opt) IN IF a > b THEN a ELSE b
Size(cs)  == IF cs.kind = "totals" THEN 1 ELSE IF Depth(cs) = 0 THEN 2 ELSE GridSize(Depth(cs), Len(V16), Cap)
Start(cs, idx) == InitState(IF Depth(cs) = 0 THEN <<>> ELSE GridStack(Depth(cs), V16, Cap, Seed, idx), idx % 3, idx % 2)

Sum(rows, f) == FoldLeft(LAMBDA acc, r : acc + r[f], 0, rows)

BlockVerdict(cs, idx) ==
  LET s0 == Start(cs, idx)
      r1 == GasRun(s0, cs.orig)  r2 == GasRun(s0, cs.opt)
      z1 == SizeOfBlock(cs.orig)  z2 == SizeOfBlock(cs.opt)
      l1 == LengthOfBlock(cs.orig)  l2 == LengthOfBlock(cs.opt)
      und == Undecided(r1.st) \/ Undecided(r2.st) \/ r1.st.halt \in {"underflow", "badpush"} \/ r2.st.halt \in {"underflow", "badpush"}
      differ == cs.orig # cs.opt
      better(a1, a2, b1, b2, c1, c2) ==       \* primary a, others b and c (x1 = input, x2 = emitted)
        a2 < a1 \/ (a2 = a1 /\ b2 <= b1 /\ c2 <= c1 /\ (b2 < b1 \/ c2 < c1))
  IN  IF cs.crit = "size" /\ z2 > z1 THEN "size grew"
      ELSE IF cs.crit = "length" /\ l2 > l1 THEN "length grew"
      ELSE IF und THEN "undecided"
      ELSE IF cs.crit = "gas" /\ r2.gas > r1.gas THEN "gas grew"
      ELSE IF differ /\ idx = 1 /\ ~(CASE cs.crit = "gas" -> better(r1.gas, r2.gas, z1, z2, l1, l2)
                                      [] cs.crit = "size" -> better(z1, z2, r1.gas, r2.gas, l1, l2)
                                      [] OTHER -> better(l1, l2, r1.gas, r2.gas, z1, z2))
             THEN "changed without improving"
      ELSE "ok"

TotalsVerdict(cs) ==
  IF Sum(cs.rows, "og") # cs.totals.pg THEN "previous gas total"
  ELSE IF Sum(cs.rows, "ng") # cs.totals.ng THEN "new gas total"
  ELSE IF Sum(cs.rows, "os") # cs.totals.ps THEN "previous size total"
  ELSE IF Sum(cs.rows, "ns") # cs.totals.ns THEN "new size total"
  ELSE IF Sum(cs.rows, "ol") # cs.totals.pl THEN "previous length total"
  ELSE IF Sum(cs.rows, "nl") # cs.totals.nl THEN "new length total"
  ELSE "ok"

Init == c = 1 /\ g = 1
Next ==
  /\ c <= Len(Cases)
  /\ LET cs == Cases[c]
         v == IF cs.kind = "totals" THEN TotalsVerdict(cs) ELSE BlockVerdict(cs, g)
     IN  /\ IF v = "ok" THEN TRUE ELSE PrintT(<<"VERDICT", cs.id, g, v>>)
         /\ IF g < Size(cs) THEN g' = g + 1 /\ c' = c ELSE g' = 1 /\ c' = c + 1
Spec == Init /\ [][Next]_<<c, g>>
Expected == FoldLeft(LAMBDA acc, cs : acc + Size(cs), 0, Cases)
Accepted == /\ PrintT(<<"EVALUATED", TLCGet("stats").distinct - 1, Expected>>)
            /\ TLCGet("stats").distinct - 1 = Expected
=============================================================================
