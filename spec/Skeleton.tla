------------------------------ MODULE Skeleton ------------------------------
(***************************************************************************)
(* Property C09: what the optimizer must leave alone, and what it may emit. *)
(*                                                                         *)
(* Documents, assemblies and items are the abstract documents of AsmDoc.tla *)
(* (every JSON scalar is one typed string: "s:PUSH", "i:17", Absent = "-"), *)
(* so "all fields unchanged" includes the type and the presence of a field.*)
(*                                                                         *)
(*   Skeleton(items, policy)  the subsequence of items that are not part of *)
(*        an optimizable segment: tags, JUMPDEST, jumps, terminals and the  *)
(*        block-splitting instructions, each with ALL its fields.  Under   *)
(*        the policy "storage" (-storage) SSTORE/MSTORE/MSTORE8 are split   *)
(*        instructions too.  Under "default" and "partition" a store lies   *)
(*        inside an optimizable segment (with -partition the heuristic MAY  *)
(*        cut at a store, it need not) and may be re-emitted.              *)
(*   CutBlocks(items)   the blocks of an instruction stream, delimited by   *)
(*        skeleton items only: every `tag` starts a block, every jump or    *)
(*        terminal ends one (blocks may be empty), so two streams with the  *)
(*        same skeleton have blocks that correspond one to one.            *)
(*   WellFormedItem(it, inB)  `it` is a valid assembly item the optimizer   *)
(*        may emit into the block that replaces the input block inB.       *)
(*   MetaDoc(d)   the document without its instruction streams: version,    *)
(*        contract names, which contracts have asm, .auxdata, .data keys,   *)
(*        hex entries and nesting, sourceList.                             *)
(***************************************************************************)
EXTENDS AsmDoc

E == INSTANCE EVM WITH NB <- 32          \* ArityTab: the opcode vocabulary of the whole suite

Name(it) == Text(it.name)                \* "" when the name is not a JSON string
IsStrVal(v) == Len(v) >= 2 /\ SubSeq(v, 1, 2) = "s:"
IsIntVal(v) == Len(v) >= 3 /\ SubSeq(v, 1, 2) = "i:"

BeginNames    == {"tag", "JUMPDEST"}
JumpNames     == {"JUMP", "JUMPI"}
TerminalNames == {"STOP", "RETURN", "REVERT", "INVALID", "SELFDESTRUCT"}
SplitNames    == {"LOG0", "LOG1", "LOG2", "LOG3", "LOG4", "CALLDATACOPY", "CODECOPY", "EXTCODECOPY",
                  "RETURNDATACOPY", "CALL", "STATICCALL", "DELEGATECALL", "CREATE", "CREATE2",
                  "ASSIGNIMMUTABLE", "GAS"}
StoreNames    == {"SSTORE", "MSTORE", "MSTORE8"}
SplitPolicies == {"default", "storage", "partition"}
EndNames      == JumpNames \cup TerminalNames

IsSkeletonName(n, policy) ==
  \/ n \in BeginNames \cup JumpNames \cup TerminalNames \cup SplitNames
  \/ policy = "storage" /\ n \in StoreNames
Skeleton(items, policy) == SelectSeq(items, LAMBDA it : IsSkeletonName(Name(it), policy))

\* blocks: a tag closes the running block and opens the next one, a jump/terminal closes the running block
CutBlocks(items) ==
  LET r == FoldLeft(LAMBDA acc, it :
                      IF Name(it) = "tag" THEN [done |-> Append(acc.done, acc.cur), cur |-> <<it>>]
                      ELSE IF Name(it) \in EndNames THEN [done |-> Append(acc.done, Append(acc.cur, it)), cur |-> <<>>]
                      ELSE [done |-> acc.done, cur |-> Append(acc.cur, it)],
                    [done |-> <<>>, cur |-> <<>>], items)
  IN  Append(r.done, r.cur)

-----------------------------------------------------------------------------
(* opcode names an emitted item may carry: the vocabulary of EVM!ArityTab    *)
(* rendered back to assembly names, DUP1..16 / SWAP1..16, the PUSH kinds.    *)
Internal2Asm == [PUSHTAG |-> "PUSH [tag]", PUSHSUBSIZE |-> "PUSH #[$]", PUSHSUB |-> "PUSH [$]", PUSHDATA |-> "PUSH data"]
KnownNames ==
  ((DOMAIN E!ArityTab) \ (DOMAIN Internal2Asm))
  \cup {Internal2Asm[k] : k \in DOMAIN Internal2Asm}
  \cup {"DUP" \o ToString(k) : k \in 1..16} \cup {"SWAP" \o ToString(k) : k \in 1..16}
  \cup {"RETURNDATASIZE", "RETURNDATACOPY"}
OperandPush == {"PUSH [tag]", "PUSH #[$]", "PUSH [$]", "PUSH data", "PUSHLIB", "PUSHIMMUTABLE"}

\* numerals
DigitSeq(s) == [i \in 1..Len(s) |-> DigitVal(Ch(s, i))]
AllBelow(ds, base) == \A i \in 1..Len(ds) : ds[i] < base
StripZ(ds) == LET nz == {i \in 1..Len(ds) : ds[i] # 0}
              IN  IF nz = {} THEN <<>> ELSE SubSeq(ds, MinOf(nz), Len(ds))

(* canonical hex of a PUSH constant.  solc writes upper-case digits, the     *)
(* optimizer lower-case ones; both are read back as the same number, so the  *)
(* case of a digit is not constrained.  Required: only hex digits, no "0x",  *)
(* no leading zero except the single digit "0", at most 64 digits (< 2^256). *)
CanonHex(s) ==
  /\ Len(s) >= 1 /\ Len(s) <= 64
  /\ AllBelow(DigitSeq(s), 16)
  /\ Len(s) > 1 => Ch(s, 1) # "0"

(* the real value of a pseudo-push operand: tags are decimal numerals        *)
(* (AssemblyItem: toString(data())), sub-assembly, sub-assembly-size and     *)
(* data references hexadecimal numerals (h256 / toStringInHex), compared as  *)
(* numbers; library and immutable references are names, compared as text.    *)
NumKey(v, base) ==
  LET t == Text(v)  ds == DigitSeq(t)
  IN  IF IsStrVal(v) /\ Len(t) >= 1 /\ AllBelow(ds, base) THEN <<"num", StripZ(ds)>> ELSE <<"text", v>>
RealValue(n, v) ==
  IF n \in {"PUSH [tag]", "tag"} THEN NumKey(v, 10)
  ELSE IF n \in {"PUSH #[$]", "PUSH [$]", "PUSH data"} THEN NumKey(v, 16)
  ELSE <<"text", v>>
SameReal(n, v1, v2) ==
  LET a == RealValue(n, v1)  b == RealValue(n, v2) IN a[1] = b[1] /\ a[2] = b[2]

\* "ok" or the clause an emitted item fails.  An opcode that already occurs in the input block is accepted
\* as known (the optimizer re-emits instructions of the block; the vocabulary of the suite is not all of the EVM).
ItemVerdict(it, inB) ==
  LET n == Name(it) IN
  IF ~IsItem(it) THEN "not an assembly item"
  ELSE IF ~IsStrVal(it.name) THEN "name is not a string"
  ELSE IF ~(n \in KnownNames \/ \E j \in 1..Len(inB) : inB[j].name = it.name) THEN "unknown opcode name"
  ELSE IF Len(it.extra) # 0 THEN "unknown key in an item"
  ELSE IF ~(IsIntVal(it.begin) /\ IsIntVal(it.end) /\ IsIntVal(it.source)) THEN "begin/end/source is not an integer"
  ELSE IF n = "PUSH" THEN
       IF ~IsStrVal(it.value) THEN "PUSH without a string value"
       ELSE IF ~CanonHex(Text(it.value)) THEN "PUSH constant is not canonical hex below 2^256"
       ELSE "ok"
  ELSE IF n \in OperandPush THEN
       IF \E j \in 1..Len(inB) : Name(inB[j]) = n /\ SameReal(n, inB[j].value, it.value) THEN "ok"
       ELSE "pseudo-push operand does not occur with this real value in the input block"
  ELSE IF n \in BeginNames \cup EndNames \cup SplitNames THEN "ok"      \* skeleton items are judged by the skeleton clause
  ELSE IF it.value # Absent THEN "operand on an instruction that takes none"
  ELSE "ok"
WellFormedItem(it, inB) == ItemVerdict(it, inB) = "ok"

\* the items of outB the optimizer emitted: those that are not, with all their fields, items of inB
IsMember(x, s) == \E j \in 1..Len(s) : s[j] = x
EmittedPos(outB, inB) == {i \in 1..Len(outB) : ~IsMember(outB[i], inB)}

-----------------------------------------------------------------------------
(* documents                                                                 *)
RECURSIVE MetaAsm(_)
MetaAsm(a) == [a EXCEPT !.code = <<>>,
                        !.data = Map(LAMBDA e : [e EXCEPT !.asm = Map(MetaAsm, @)], @)]
MetaDoc(d) == [d EXCEPT !.contracts = Map(LAMBDA c : [c EXCEPT !.asm = Map(MetaAsm, @)], @)]

\* the instruction streams of a document in a fixed order: [contract, path, code]
RECURSIVE AsmSections(_, _, _)
AsmSections(cname, path, a) ==
  FoldLeft(LAMBDA acc, e : IF e.kind = "asm" THEN acc \o AsmSections(cname, path \o ".data/" \o e.key \o "/", e.asm[1]) ELSE acc,
           <<[contract |-> cname, path |-> path \o ".code", code |-> a.code]>>, a.data)
DocSections(d) ==
  FoldLeft(LAMBDA acc, c : IF c.asmkind = "obj" THEN acc \o AsmSections(c.name, "", c.asm[1]) ELSE acc, <<>>, d.contracts)

(* contract selection (-c): a name selects the contracts whose name after    *)
(* the last "/" or ":" is that name                                          *)
ShortName(full) ==
  LET P == {i \in 1..Len(full) : Ch(full, i) \in {"/", ":"}}
  IN  IF P = {} THEN full ELSE SubSeq(full, (CHOOSE i \in P : \A j \in P : j <= i) + 1, Len(full))
OnlyContract(d, full) == [d EXCEPT !.contracts = SelectSeq(@, LAMBDA c : c.name = full)]

-----------------------------------------------------------------------------
(* verdict on one instruction stream: <<clause, position, witness>>;         *)
(* position = 0-based index of the block and of the item inside it           *)
FirstDiffPos(a, b) ==
  LET m == IF Len(a) < Len(b) THEN Len(a) ELSE Len(b)
      D == {i \in 1..m : a[i] # b[i]}
  IN  IF D = {} THEN m + 1 ELSE MinOf(D)

ItemBrief(s, i) == IF i <= Len(s) THEN <<s[i].name, s[i].value, s[i].begin>> ELSE <<"(none)">>

\* Report on one instruction stream: [verdicts, changed, emitted].
\* verdicts: a sequence of <<clause, position, witness>> (empty = the stream is fine).  A skeleton difference is
\* reported once, at its first position (the blocks no longer correspond after it).  Ill-formed emitted items are
\* reported once per distinct (clause, opcode name), at the first block and item where it occurs.
\* changed / emitted: number of blocks whose emitted form differs from the input, and of emitted items judged
\* (for the vacuity guards).
SectionReport(inC, outC, policy) ==
  LET ski == Skeleton(inC, policy)  sko == Skeleton(outC, policy) IN
  IF ski # sko THEN
       LET k == FirstDiffPos(ski, sko) IN
       [verdicts |-> << <<"skeleton", <<k - 1>>,
                          IF k <= Len(ski) /\ k <= Len(sko) /\ ski[k].name = sko[k].name
                          THEN <<ski[k].name>> \o DiffItem(ski[k], sko[k])
                          ELSE <<"input", ItemBrief(ski, k), "output", ItemBrief(sko, k)>> >> >>,
        changed |-> 0, emitted |-> 0]
  ELSE LET bi == CutBlocks(inC)  bo == CutBlocks(outC)
           ems == FoldLeft(LAMBDA acc, b : IF bo[b] = bi[b] THEN acc ELSE Append(acc, [b |-> b, pos |-> EmittedPos(bo[b], bi[b])]),
                           <<>>, [b \in 1..Len(bo) |-> b])
           bad == UNION {{<<e.b, i>> : i \in {j \in e.pos : ~WellFormedItem(bo[e.b][j], bi[e.b])}} : e \in ToSet(ems)}
           cls(p) == <<ItemVerdict(bo[p[1]][p[2]], bi[p[1]]), bo[p[1]][p[2]].name>>
           before(p, q) == p[1] < q[1] \/ (p[1] = q[1] /\ p[2] <= q[2])
           firsts == {p \in bad : \A q \in bad : cls(q) = cls(p) => before(p, q)}
       IN  [verdicts |-> FoldLeft(LAMBDA acc, p : Append(acc, <<cls(p)[1], <<p[1] - 1, p[2] - 1>>, ItemBrief(bo[p[1]], p[2])>>),
                                  <<>>, SetToSeq(firsts)),
            changed |-> Len(ems),
            emitted |-> FoldLeft(LAMBDA acc, e : acc + Cardinality(e.pos), 0, ems)]
SectionVerdicts(inC, outC, policy) == SectionReport(inC, outC, policy).verdicts
=============================================================================
